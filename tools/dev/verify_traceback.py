import sys, importlib, traceback
sys.path.insert(0,'/verif')
from pyvc.api import REG
from pyvc.engine import Exec
from pyvc.program import Program
[importlib.import_module('contracts.'+m) for m in __import__('contracts').MODULES]
ex = Exec(Program('/repo'), REG)
try:
    ex.verify(sys.argv[1])
except Exception:
    traceback.print_exc()
