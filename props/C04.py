"""C04 - polygon-constrained fields lie inside the property and outside no-go zones."""
from props.common import *  # noqa: F401,F403

FR = "ghedesigner.feature_recognition"
DM = "ghedesigner.domains"
FUNCTIONS = ["ghedesigner.shape:point_polygon_check", f"{FR}:remove_cutout", f"{FR}:determine_largest_rectangle", f"{DM}:reorder_domain", f"{DM}:polygonal_land_constraint"]
NATIVE_FUNCTIONS = [f"{DM}:polygonal_land_constraint", "ghedesigner.shape:point_polygon_check"]
NATIVE_CASES = {"quick": 25, "thorough": 1500}
NATIVE_LIMIT_S = {"quick": 60, "thorough": 1500}
CASE_TIMEOUT = 100
LEVEL = "other"
ASSUMPTIONS = [A_REAL, A_ENGINE,
               "point_polygon_check is used through its caller view PPC(polygon, x, y, tol): a function of its arguments (pure function; its classification is proved in C16)",
               "builtin sorted: stable permutation ordered by key (trusted model)",
               "KEPT_BEFORE (number of kept coordinates before position i) is non-decreasing: consequence of its recursive definition by induction, stated as an axiom",
               "bi_rectangle_nested is abstract here (descriptor lists aligned with the field lists); its fields are verified in C03",
               "the ValueError raised when reorder_domain's empty result is unpacked is modelled as raised by reorder_domain"]
NOT_PROVED = ["converse clause at the level of polygonal_land_constraint ('no clearly-inside grid borehole is dropped'): proved for remove_cutout (every kept coordinate is present, in order); "
              "its lifting through the nested loops is checked by the bounded run-time contract against the exact oracle",
              "field descriptors are not re-aligned after empty fields are skipped (observation; not part of the property)"]
EXPLANATION = ("remove_cutout proved, for coordinate lists and polygon lists of every length, to return exactly the order-preserving sub-list of coordinates that satisfy the membership rule "
               "(property: inside or on-edge of some polygon; no-go: neither inside nor on-edge of any). polygonal_land_constraint: invariants over the three loops give: every borehole of every "
               "emitted field is in a property polygon (within the 0.01 edge tolerance) and outside/off every no-go polygon; every emitted list is ordered by non-decreasing count (reorder_domain "
               "via the sorted model). determine_largest_rectangle: bounding box of all outlines.")
LEVEL_TEXT = ("[level other because the converse clause (no clearly-inside grid borehole is dropped) is proved for remove_cutout and lifted through polygonal_land_constraint's nested loops only by the bounded run-time contract] Deductive proof for all polygons, all grids and all numbers of outlines/no-go zones of the containment clause and the ordering clause; exact sub-list characterisation of remove_cutout; "
              "the lifted converse clause is cross-checked by bounded runs with an exact rational oracle.")
LEVEL_NOTE = "Trusted: pyvc, z3, A-REAL, sorted model, caller view of point_polygon_check (C16)."
