"""Contracts for ghedesigner/shape.py (C16, used by C04)."""
import z3

from pyvc.api import *
from pyvc.libmodels import SQRT
from pyvc.run import native

Point = TupleOf(Real, Real)

# spec functions of one (contour, point) instance: PAR(k) = "the number of crossing edges among edges 0..k-1 is even"
PAR = z3.Function("PPC_PAR", z3.IntSort(), z3.BoolSort())


def _prev(k, n):
    # same term shape as Python's negative-index normalisation of `contour[idx - 1]` in the engine
    return If(k - 1 < 0, k - 1 + n, k - 1)


def _d(a, b):
    # same term shape as the nested helper `distance` in the code
    return SQRT(mul(a[0] - b[0], a[0] - b[0]) + mul(a[1] - b[1], a[1] - b[1]))


def _abs(x):
    return If(x >= 0, x, -x)


def edge(E, k):
    n = E.contour.len
    return E.contour[_prev(k, n)], E.contour[k]


def ON(E, k):
    """the tool's documented on-edge criterion: excess of the distance sum over the edge length < tolerance"""
    v1, v2 = edge(E, k)
    p = E.point
    return _abs((_d(v1, p) + _d(v2, p)) - _d(v1, v2)) < E.on_edge_tolerance


def YRANGE(E, k):
    """half-open vertical range: min(y1,y2) < py <= max(y1,y2)"""
    v1, v2 = edge(E, k)
    py = E.point[1]
    lo = If(v1[1] <= v2[1], v1[1], v2[1])
    hi = If(v1[1] <= v2[1], v2[1], v1[1])
    return And(lo < py, py <= hi)


def XE(E, k):
    """x coordinate of the edge's supporting line at the height of the point (only used inside YRANGE)"""
    v1, v2 = edge(E, k)
    py = E.point[1]
    return v1[0] + (py - v1[1]) * (v2[0] - v1[0]) / (v2[1] - v1[1])


def CP(E, k):
    """cross product (v1 - p) x (v2 - p): its sign says on which side of the directed edge the point lies"""
    v1, v2 = edge(E, k)
    px, py = E.point
    return mul(v1[0] - px, v2[1] - py) - mul(v2[0] - px, v1[1] - py)


def CROSS(E, k):
    """crossing-number definition: the rightward ray from the point crosses edge k, i.e. the point is level with
    the edge (half-open range) and strictly left of it.  "Strictly left" is stated with the sign of the cross
    product; lemma `cross-product-form` shows this equals  x_edge(py) > px."""
    v1, v2 = edge(E, k)
    return And(YRANGE(E, k), If(v1[1] < v2[1], CP(E, k) > 0, CP(E, k) < 0))


def LINE0(E, k):
    """the point lies exactly on edge k (on its supporting line, within the half-open vertical range)"""
    return And(YRANGE(E, k), CP(E, k) == 0)


def _in(E, k):
    return And(k >= 0, k < E.contour.len)


contract(
    "ghedesigner.shape:point_polygon_check",
    dict(contour=ListOf(Point, minlen=1), point=Point, on_edge_tolerance=Real),
    requires=[("tol-positive", lambda E: E.on_edge_tolerance > 0)],
    options={"sqrt_facts": False, "abstract_mul": True},
    defs=[
        ("PAR0", lambda E: PAR(0) == True),  # noqa: E712
        ("PARstep", lambda E: forall(1, lambda k: Implies(_in(E, k), PAR(k + 1) == (PAR(k) != CROSS(E, k))), pats=lambda k: [PAR(k + 1)])),
    ],
    loops={
        0: LoopSpec(invariants=[("no-on-edge-before", lambda E: forall(1, lambda k: Implies(And(k >= 0, k < E._k0), Not(ON(E, k))), pats=lambda k: [E.contour[k][0]]))]),
        1: LoopSpec(invariants=[
            ("parity", lambda E: E.inside == PAR(E._k1)),
            ("no-line-hit-before", lambda E: forall(1, lambda k: Implies(And(k >= 0, k < E._k1), Not(LINE0(E, k))), pats=lambda k: [E.contour[k][0]])),
        ]),
    },
    ensures=[
        ("range", lambda E: Or(E.result == -1, E.result == 0, E.result == 1)),
        ("on-edge-iff", lambda E: (E.result == 0) == Or(exists(1, lambda k: And(_in(E, k), ON(E, k))), exists(1, lambda k: And(_in(E, k), LINE0(E, k))))),
        ("crossing-parity", lambda E: Implies(E.result != 0, E.result == If(PAR(E.contour.len), -1, 1))),
    ],
    returns=Int,
)


# ---- lemma: the cross-product form of "strictly left of the edge" is the textbook intersection form ----------
def lemma_cross_product_form():
    x1, y1, x2, y2, px, py = z3.Reals("x1 y1 x2 y2 px py")
    cp = (x1 - px) * (y2 - py) - (x2 - px) * (y1 - py)
    xe = x1 + (py - y1) * (x2 - x1) / (y2 - y1)
    lo = If(y1 <= y2, y1, y2)
    hi = If(y1 <= y2, y2, y1)
    yr = And(lo < py, py <= hi)
    goal = Implies(yr, And(If(y1 < y2, cp > 0, cp < 0) == (xe > px), (cp == 0) == (xe == px)))
    return [], goal


LEMMAS = [("cross-product-form", lemma_cross_product_form)]


# ---- run-time form of the contract on the real function -----------------------------------------------------
def _ppc_oracle(contour, point, tol):
    """Crossing-number definition evaluated exactly (rationals) + the documented on-edge criterion.
    Returns None when the case is inside the tolerance band (|excess - tol| < 1e-9: not decidable in doubles)."""
    from fractions import Fraction as F
    from math import sqrt

    n = len(contour)
    px, py = F(point[0]), F(point[1])
    ambiguous = False
    on = False
    for k in range(n):
        v1, v2 = contour[k - 1], contour[k]
        d = lambda a, b: sqrt((a[0] - b[0]) ** 2 + (a[1] - b[1]) ** 2)  # noqa: E731
        ex = abs(d(v1, point) + d(v2, point) - d(v1, v2))
        if abs(ex - tol) < 1e-9:
            ambiguous = True
        if ex < tol:
            on = True
    if ambiguous:
        return None
    if on:
        return 0
    cross = 0
    for k in range(n):
        x1, y1 = map(F, contour[k - 1])
        x2, y2 = map(F, contour[k])
        if min(y1, y2) < py <= max(y1, y2):
            xe = x1 + (py - y1) * (x2 - x1) / (y2 - y1)
            if xe == px:
                return 0
            if xe > px:
                cross += 1
    return 1 if cross % 2 == 1 else -1


def _ppc_check(args):
    from ghedesigner.shape import point_polygon_check

    contour = [tuple(p) for p in args["contour"]]
    point = tuple(args["point"])
    tol = args["tol"]
    want = _ppc_oracle(contour, point, tol)
    got = point_polygon_check(contour, point, on_edge_tolerance=tol)
    if want is None:
        return True, "inside tolerance band: skipped"
    ok = got == want
    if ok and args.get("variants", True):
        # independence of start vertex and orientation
        for r in range(1, len(contour)):
            rot = contour[r:] + contour[:r]
            if point_polygon_check(rot, point, on_edge_tolerance=tol) != want:
                return False, {"got_rotated": r, "want": want}
        rev = list(reversed(contour))
        if point_polygon_check(rev, point, on_edge_tolerance=tol) != want:
            return False, {"got_reversed": True, "want": want}
    return ok, {"got": got, "want": want}


def _ppc_gen(rng):
    n = rng.randint(3, 6)
    if rng.random() < 0.7:
        pts = [(rng.randint(0, 3), rng.randint(0, 3)) for _ in range(n)]
        point = (rng.randint(-1, 8) / 2.0, rng.randint(-1, 8) / 2.0)
    else:
        pts = [(round(rng.uniform(0, 100), 3), round(rng.uniform(0, 100), 3)) for _ in range(n)]
        point = (round(rng.uniform(-10, 110), 3), round(rng.uniform(-10, 110), 3))
        if rng.random() < 0.3:  # level with a vertex
            point = (point[0], pts[rng.randrange(n)][1])
    return {"contour": pts, "point": point, "tol": rng.choice([0.001, 0.01])}


def _ppc_from_model(inputs):
    return {"contour": [tuple(float(c) for c in p) for p in inputs["contour"]], "point": tuple(float(c) for c in inputs["point"]),
            "tol": float(inputs["on_edge_tolerance"]), "variants": False}


native("ghedesigner.shape:point_polygon_check", _ppc_check, _ppc_gen, _ppc_from_model,
       bound="random closed polylines with 3..6 vertices (70% on the 4x4 integer lattice with half-integer test points, 30% real-valued), exact rational oracle, all rotations of the start vertex and the reversed orientation")
