#!/bin/bash
# tools/seeded_run.sh <seeded-id> <property> [more properties...]
# Applies seeded/<id>/patch.diff to a scratch copy of /repo's working tree (outside /repo and /verif, removed afterwards), runs the change's demo and the
# named checks against that copy (VERIF_REPO), and records the outcome in seeded/<id>/check_output.txt.  /repo itself is not touched, so several seeded
# runs and ordinary checks can go on at the same time.  (Equivalent to: git -C /repo apply <patch>; run; git -C /repo checkout -- .)
id=$1; shift
cd /verif
scr=$(mktemp -d /tmp/seedrun_${id}_XXXX)
trap 'rm -rf "$scr"' EXIT
cp -r /repo/ghedesigner "$scr/" || exit 2
find "$scr" -name __pycache__ -type d -prune -exec rm -rf {} + 2>/dev/null
(cd "$scr" && patch -p1 -s < /verif/seeded/$id/patch.diff) || { echo "patch does not apply"; exit 2; }
out=seeded/$id/check_output.txt; : > $out
(cd "$scr" && PYTHONPATH="$scr" timeout 900 /venv/bin/python /verif/seeded/$id/demo.py >/dev/null 2>&1); echo "demo.py exit with change applied: $?" >> $out
export VERIF_EVIDENCE_DIR=/verif/scratch/seeded_evidence/$id
for p in "$@"; do echo "--- VERIF_REPO=<scratch copy with the change> ./vcheck $p --tier quick" >> $out; VERIF_REPO="$scr" ./vcheck $p --tier quick 2>&1 | grep -E "^\[|VIOLATION|UNDECIDED|KNOWN|FAULT|NO-VERDICT" | sed "s#$scr#<scratch>#g" >> $out; echo "exit=${PIPESTATUS[0]}" >> $out; done
(cd /repo && PYTHONPATH=/repo timeout 900 /venv/bin/python /verif/seeded/$id/demo.py >/dev/null 2>&1); echo "demo.py exit on the unchanged tree: $?" >> $out
cat $out
