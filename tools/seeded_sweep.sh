#!/bin/bash
# tools/seeded_sweep.sh [jobs]: re-run every seeded change against its checks (scratch copies; /repo untouched) and refresh meta.json's confirmed_by_builder
cd /verif
J=${1:-3}
python3 - <<'PY'
import json, glob, os, re
lines = []
for d in sorted(glob.glob('/verif/seeded/*/meta.json')):
    sid = os.path.basename(os.path.dirname(d)); m = json.load(open(d)); c = m.get('confirmed_by_builder') or {}
    props = []
    for x in c.get('checks_run') or []:
        props += re.findall(r"C\d\d", x)
    props = list(dict.fromkeys(props)) or [m.get('property', sid[:3])]
    lines.append(sid + " " + " ".join(props))
os.makedirs('/verif/scratch', exist_ok=True)
open('/verif/scratch/seed_sweep.txt', 'w').write("\n".join(lines) + "\n")
PY
cat scratch/seed_sweep.txt | xargs -P "$J" -L 1 sh -c 'tools/seeded_run.sh "$0" "$@" > scratch/sweep_$0.log 2>&1; python3 tools/seeded_meta.py $0' 
