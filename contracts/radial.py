"""Contracts for the short-time radial finite-volume model (C10)."""
import z3

from pyvc.api import *
from pyvc.run import native

R_ = "ghedesigner.radial_numerical_borehole"


# ---- run-time form on the real class: structure of the cell table, conservation, monotonicity, bounds, independent reference solution -----------
def _make_tube(a):
    from ghedesigner.borehole import GHEBorehole
    from ghedesigner.borehole_heat_exchangers import SingleUTube
    from ghedesigner.media import GHEFluid, Grout, Pipe, Soil

    fluid = GHEFluid(a.get("fluid", "Water"), a.get("conc", 0.0))
    m = a["flow"] / 1000.0 * fluid.rho
    pipe = Pipe(Pipe.place_pipes(a["s"], a["r_out"], 1), a["r_in"], a["r_out"], a["s"], 1.0e-6, a["k_pipe"], a.get("rho_cp_pipe", 1542000.0))
    return SingleUTube(m, fluid, GHEBorehole(a["H"], 2.0, a["r_b"], 0.0, 0.0), pipe, Grout(a["k_grout"], a.get("rho_cp_grout", 3901000.0)), Soil(a["k_soil"], a.get("rho_cp_soil", 2343493.0), 18.3))


def reference_solution(tube, t_end, refine=2, dt=30.0):
    """Independent solution of the same layered radial conduction problem (property statement: fluid core carrying the thermal mass of both legs, a layer
    with resistance R_f/2, a pipe+grout layer with resistance R_b* - R_f/2 up to the borehole wall, soil to a fixed far field at 10 m), on a mesh `refine`
    times finer, with a smaller step; cell-centred finite volumes, harmonic (series-resistance) interface conductances, implicit Euler, banded solve."""
    from math import log, pi, sqrt

    import numpy as np
    from scipy.linalg import solve_banded

    rb_star = tube.calc_effective_borehole_resistance()
    r_f_eff = tube.R_f / 2.0
    r_pg = rb_star - r_f_eff
    t_p = tube.pipe.r_out - tube.pipe.r_in
    r_out_tube = sqrt(2.0) * tube.pipe.r_out
    r_in_tube = r_out_tube - t_p
    r_conv = r_in_tube - t_p / 4.0
    r_fluid = r_conv - 0.75 * t_p
    r_b = tube.b.r_b
    k_conv = log(r_in_tube / r_conv) / (2 * pi * r_f_eff)
    k_pg = log(r_b / r_in_tube) / (2 * pi * r_pg)
    c_fluid = 2.0 * tube.pipe.r_in ** 2 * tube.fluid.rhoCp / (r_conv ** 2 - r_fluid ** 2)
    regions = [(r_fluid, r_conv, 3 * refine, 200.0, c_fluid), (r_conv, r_in_tube, 1 * refine, k_conv, 1.0), (r_in_tube, r_out_tube, 4 * refine, k_pg, tube.pipe.rhoCp),
               (r_out_tube, r_b, 27 * refine, k_pg, tube.grout.rhoCp), (r_b, 10.0, 500 * refine, tube.soil.k, tube.soil.rhoCp)]
    edges, ks, cs = [r_fluid], [], []
    for lo, hi, n, k, c in regions:
        for j in range(1, n + 1):
            edges.append(lo + (hi - lo) * j / n)
            ks.append(k)
            cs.append(c)
    edges, ks, cs = np.array(edges), np.array(ks), np.array(cs)
    rin, rout = edges[:-1], edges[1:]
    rc = 0.5 * (rin + rout)
    vol = pi * (rout ** 2 - rin ** 2)
    n = len(rc)
    # conductance between the centres of cells i and i+1 (two cylindrical half-shells in series)
    res = np.log(rout[:-1] / rc[:-1]) / (2 * pi * ks[:-1]) + np.log(rc[1:] / rin[1:]) / (2 * pi * ks[1:])
    cond = 1.0 / res
    cap = cs * vol
    steps = int(round(t_end / dt))
    theta = np.zeros(n)  # temperature rise
    ab = np.zeros((3, n))
    diag = cap / dt
    diag[:-1] += cond
    diag[1:] += cond
    ab[1, :] = diag
    ab[0, 1:] = -cond
    ab[2, :-1] = -cond
    # last cell: fixed far field (rise 0)
    ab[1, n - 1] = 1.0
    ab[2, n - 2] = 0.0
    wall = sum(r[2] for r in regions[:4])
    for _ in range(steps):
        rhs = cap / dt * theta
        rhs[0] += 1.0  # unit heat input per metre into the core
        rhs[n - 1] = 0.0
        theta = solve_banded((1, 1), ab, rhs)
    return {"fluid_rise": float(theta[0]), "wall_rise": float(theta[wall]), "rb_star": rb_star, "stored": float(np.sum(cap[:-1] * theta[:-1])), "t": steps * dt}


def _radial_check(a):
    import warnings
    from math import log, pi, sqrt

    import numpy as np

    import ghedesigner.radial_numerical_borehole as rmod
    from ghedesigner.radial_numerical_borehole import CellProps, RadialNumericalBH

    with warnings.catch_warnings():
        warnings.simplefilter("ignore")
        tube = _make_tube(a)
        rb_star = tube.calc_effective_borehole_resistance()
        rf = tube.R_f / 2.0
        if not rb_star > rf:
            return True, {"skipped": "R_b* <= R_f/2: outside the valid-borehole domain"}
        # history, as in the tool's own use: another borehole with the same geometry, conductivities, soil, fluid, flow and height but other grout / pipe heat capacities and another fluid is
        # computed first in this interpreter, and the model object is built once (for that borehole) and re-used for this one (GHE.simulate re-uses it)
        # ... and another fluid (the fluid cells' thermal mass, the film resistance and R_b* of the decoy differ; calc_sts_g_functions must take all of them from the
        # borehole it is given)
        other_fluid = dict(fluid="PropyleneGlycol", conc=40.0) if a.get("fluid", "Water") == "Water" else dict(fluid="Water", conc=0.0)
        decoy = _make_tube(dict(a, rho_cp_grout=a.get("rho_cp_grout", 3901000.0) * 0.5, rho_cp_pipe=a.get("rho_cp_pipe", 1542000.0) * 1.7, **other_fluid))
        rn = RadialNumericalBH(decoy)
        rn.calc_sts_g_functions(decoy)
        # ... then, on the same object, the borehole with THIS fluid (same characteristic time and resistances as the case) but the other heat capacities
        rn.calc_sts_g_functions(_make_tube(dict(a, rho_cp_grout=a.get("rho_cp_grout", 3901000.0) * 0.5, rho_cp_pipe=a.get("rho_cp_pipe", 1542000.0) * 1.7)))
        captured = []
        real_fill = rn.fill_radial_cells

        def fill_spy(*x, **kw):
            out = real_fill(*x, **kw)
            captured.append(np.array(out, dtype=float))
            return out

        rn.fill_radial_cells = fill_spy
        fields = []
        real = rmod.dgtsv

        def spy(dl, d, du, b, overwrite_b=0):
            out = real(dl, d, du, b, overwrite_b=overwrite_b)
            fields.append(np.array(out[3], dtype=float))
            return out

        rmod.dgtsv = spy
        try:
            lntts, g = rn.calc_sts_g_functions(tube)
        finally:
            rmod.dgtsv = real
            del rn.fill_radial_cells
        if not captured or not fields:
            return False, {"why": "no cell table / no temperature field was computed for this borehole (the response did not come from a solution of its own conduction problem)",
                           "signature": "not-computed"}
        cells = captured[-1]
        rin, rc_, rout, k, c, vol = (np.array(cells[p, :], dtype=float) for p in (CellProps.R_IN, CellProps.R_CENTER, CellProps.R_OUT, CellProps.K, CellProps.RHO_CP, CellProps.VOL))
        n = cells.shape[1]
        rel = lambda x, y: abs(x - y) / max(abs(y), 1e-300)  # noqa: E731
        # tiling
        gaps = np.max(np.abs(rout[:-1] - rin[1:]) / rout[:-1])
        if gaps > 1e-12 or rel(rout[-1], 10.0) > 1e-12 or rel(rin[rn.bh_wall_idx], tube.b.r_b) > 1e-12 or np.any(rout <= rin) or np.max(np.abs(rc_ - 0.5 * (rin + rout)) / rc_) > 1e-12:
            return False, {"why": "cells do not tile the radius from the fluid core to the 10 m far field", "max_gap": float(gaps), "outer": float(rout[-1]), "signature": "tiling"}
        if np.max(np.abs(vol - pi * (rout ** 2 - rin ** 2)) / vol) > 1e-9:
            return False, {"why": "cell volume is not pi (r_out^2 - r_in^2)", "signature": "tiling"}
        # thermal mass of the fluid cells = fluid in both legs
        mass = float(np.sum(c[:3] * vol[:3]))
        want = 2.0 * pi * tube.pipe.r_in ** 2 * tube.fluid.rhoCp
        if rel(mass, want) > 1e-9:
            return False, {"why": "fluid cells do not carry the thermal mass of the fluid in both pipe legs", "got": mass, "want": want, "signature": "fluid-thermal-mass"}
        # resistance between fluid and borehole wall
        res = float(np.sum(np.log(rout[3:rn.bh_wall_idx] / rin[3:rn.bh_wall_idx]) / (2 * pi * k[3:rn.bh_wall_idx])))
        if rel(res, rb_star) > 1e-9:
            return False, {"why": "layers between fluid and borehole wall do not sum to the effective borehole resistance", "got": res, "want": rb_star, "signature": "layer-resistance"}
        g, g_bhw, lntts = np.array(rn.g, dtype=float), np.array(rn.g_bhw, dtype=float), np.array(rn.lntts, dtype=float)
        if not (np.all(np.isfinite(g)) and np.all(np.isfinite(g_bhw)) and np.all(np.isfinite(lntts))):
            return False, {"why": "response not finite", "signature": "finite"}
        steps = len(fields)
        last = fields[-1]
        stored = float(np.sum(c[:-1] * vol[:-1] * (last[:-1] - rn.init_temp)))
        injected = 1.0 * 120.0 * steps
        # heat that left through the fixed far-field boundary: conductance between the last two cell centres times the temperature difference, every step
        cond_last = 1.0 / (log(rout[n - 2] / rc_[n - 2]) / (2 * pi * k[n - 2]) + log(rc_[n - 1] / rin[n - 1]) / (2 * pi * k[n - 1]))
        leaked = float(sum(120.0 * cond_last * (f[n - 2] - f[n - 1]) for f in fields))
        if rel(stored + leaked, injected) > 1e-8:
            return False, {"why": "the scheme does not balance: stored + leaked through the far field differs from the heat injected", "stored": stored, "leaked": leaked, "injected": injected,
                           "signature": "conservation/scheme-does-not-balance"}
        if rel(stored, injected) > 1e-6:
            return False, {"why": "heat stored in the cells differs from the heat injected by more than 1e-6: the balance is exact, the difference left the domain through the fixed far field at 10 m",
                           "stored": stored, "leaked": leaked, "injected": injected, "relative_loss": leaked / injected, "computed_period_days": steps * 120.0 / 86400.0, "H": a["H"],
                           "signature": "conservation/heat-leaves-through-the-far-field-at-10m"}
        c0 = 2 * pi * tube.soil.k
        g_all = np.array([c0 * ((f[0] - rn.init_temp) / 1.0 - rb_star) for f in fields])
        gb_all = np.array([c0 * (f[rn.bh_wall_idx] - rn.init_temp) for f in fields])
        tol = 1e-9 * max(1.0, float(np.max(np.abs(g_all))))
        if np.any(np.diff(g_all) < -tol) or np.any(np.diff(g) < -tol):
            return False, {"why": "response decreases in time", "signature": "monotone"}
        if np.any(gb_all < -tol) or np.any(g_bhw < -tol) or np.any(np.diff(gb_all) < -tol):
            return False, {"why": "borehole-wall response negative or decreasing", "min": float(np.min(gb_all)), "signature": "wall-response"}
        if np.any(g_all < -c0 * rb_star - tol) or np.any(g < -c0 * rb_star - tol):
            return False, {"why": "response below -2 pi k R_b*", "signature": "lower-bound"}
        if len(g) != 30 or np.any(np.diff(lntts) <= 0) or rel(g[-1], g_all[-1]) > 1e-9 or rel(g[0], g_all[0]) > 1e-9:
            return False, {"why": "resampled response does not have 30 increasing points from the first to the last computed step", "signature": "resampling"}
        t_last = (steps - 1) * 120.0 + 1e-12
        if rel(lntts[-1], log(t_last / rn.t_s)) > 1e-9 or rel(rn.t_s, tube.b.H ** 2 / (9 * tube.soil.k / tube.soil.rhoCp)) > 1e-12:
            return False, {"why": "time axis is not ln(t/ts) with ts = H^2/(9 alpha)", "signature": "time-axis"}
        # independent solution, finer mesh, smaller step, at the end of the computed period
        ref = reference_solution(tube, steps * 120.0)  # every pass of the tool's loop advances the field by one 120 s step
        rise = float(last[0] - rn.init_temp)
        if rel(rise, ref["fluid_rise"]) > 5e-3:
            return False, {"why": "fluid temperature rise at the end of the computed period differs from the independent finer solution by more than 0.5 %", "tool": rise, "reference": ref["fluid_rise"],
                           "relative": rel(rise, ref["fluid_rise"]), "signature": "reference-solution"}
        return True, {"steps": steps, "rise": rise, "ref": ref["fluid_rise"], "rel": rel(rise, ref["fluid_rise"])}


_rad_counter = [0]


def _radial_gen(rng):
    k = _rad_counter[0]
    _rad_counter[0] += 1
    r_in = rng.uniform(0.010, 0.018)
    r_out = r_in + rng.uniform(0.002, 0.005)
    s = rng.uniform(0.010, 0.035)
    r_b = max(0.050, 2 * r_out + s / 2 + 0.008) + rng.uniform(0.0, 0.04)
    a = {"r_in": r_in, "r_out": r_out, "s": s, "r_b": min(r_b, 0.12), "H": rng.choice([20.0, 50.0, 100.0, 200.0, 400.0]), "k_soil": round(rng.uniform(0.8, 4.0), 2),
         "k_grout": round(rng.uniform(0.5, 2.5), 2), "k_pipe": round(rng.uniform(0.3, 0.6), 2), "flow": rng.choice([0.02, 0.05, 0.1, 0.3, 0.5, 1.0]),
         "rho_cp_soil": rng.choice([1.5e6, 2343493.0, 3.5e6]), "rho_cp_grout": rng.choice([1.5e6, 3901000.0]), "fluid": rng.choice(["Water", "Water", "PropyleneGlycol"])}
    a["conc"] = 20.0 if a["fluid"] != "Water" else 0.0
    if k == 0:
        a["H"] = 400.0  # the recorded finding's input first
    if a["r_b"] < 2 * r_out + s / 2 + 0.004:
        a["r_b"] = 2 * r_out + s / 2 + 0.004
    return a


native(f"{R_}:RadialNumericalBH.calc_sts_g_functions", _radial_check, _radial_gen, None,
       bound="real RadialNumericalBH on single U-tubes: r_b 50..120 mm, pipe radii 10..23 mm and shank spacings that fit, H 20..400 m, k_soil 0.8..4, k_grout 0.5..2.5, k_pipe 0.3..0.6, heat capacities x3, "
             "water / 20 % propylene glycol, 0.02..1.0 L/s (laminar to turbulent): tiling, fluid thermal mass, layer resistance (1e-9), conservation (1e-6), finite, monotone, wall response >= 0, "
             "lower bound, 30-point resampling, reference solution on a 2x finer mesh with dt = 30 s (0.5 %)")


# ---- deductive part: the geometry of the one-dimensional model (constructor) ----------------------------------------------------------------------
from pyvc.libmodels import SQRT  # noqa: E402

TubeShape = lambda: ObjOf("ghedesigner.borehole_heat_exchangers:SingleUTube", b=ObjOf("borehole", r_b=Real, H=Real), pipe=ObjOf("pipe", r_in=Real, r_out=Real, rhoCp=Real),  # noqa: E731
                          soil=ObjOf("soil", k=Real, rhoCp=Real), k_s=Real, fluid=ObjOf("fluid", rhoCp=Real), grout=ObjOf("grout", rhoCp=Real))


def _valid_tube(t):
    s2 = SQRT(RealVal(2))
    # the equivalent tube region must fit in the borehole and leave a fluid core: sqrt(2) r_out < r_b and r_fluid = sqrt(2) r_out - 2 (r_out - r_in) > 0
    return And(t.pipe.r_in > 0, t.pipe.r_out > t.pipe.r_in, t.b.r_b > s2 * t.pipe.r_out, t.b.r_b < 10, s2 * t.pipe.r_out - 2 * (t.pipe.r_out - t.pipe.r_in) > 0,
               t.b.H > 0, t.soil.k > 0, t.k_s > 0, t.soil.rhoCp > 0)


def _geometry(E):
    o = E.self
    return And(o.num_cells == 535, o.bh_wall_idx == 35,
               0 < o.r_fluid, o.r_fluid < o.r_convection, o.r_convection < o.r_in_tube, o.r_in_tube < o.r_out_tube, o.r_out_tube < o.r_borehole, o.r_borehole < o.r_far_field, o.r_far_field == 10,
               o.r_borehole == E.single_u_tube.b.r_b,
               # the five regions tile [r_fluid, 10] with equal cells each
               o.r_fluid + 3 * o.thickness_fluid_cell == o.r_convection, o.r_convection + 1 * o.thickness_conv_cell == o.r_in_tube,
               o.r_in_tube + 4 * o.thickness_pipe_cell == o.r_out_tube, o.r_out_tube + 27 * o.thickness_grout_cell == o.r_borehole,
               o.r_borehole + 500 * o.thickness_soil_cell == 10,
               o.thickness_fluid_cell > 0, o.thickness_conv_cell > 0, o.thickness_pipe_cell > 0, o.thickness_grout_cell > 0, o.thickness_soil_cell > 0,
               # the tube region keeps the actual wall thickness; the convective layer is a quarter of it, the fluid core three quarters
               o.r_out_tube - o.r_in_tube == E.single_u_tube.pipe.r_out - E.single_u_tube.pipe.r_in,
               4 * (o.r_in_tube - o.r_convection) == o.r_out_tube - o.r_in_tube, 4 * (o.r_convection - o.r_fluid) == 3 * (o.r_out_tube - o.r_in_tube))


contract(f"{R_}:RadialNumericalBH.__init__", dict(self=ObjOf(f"{R_}:RadialNumericalBH"), single_u_tube=TubeShape()), name=f"{R_}:RadialNumericalBH.__init__#body",
         requires=[("valid-borehole", lambda E: _valid_tube(E.single_u_tube))],
         ensures=[("regions-ordered-and-tiling", _geometry),
                  ("characteristic-time", lambda E: And(E.self.t_s * (9 * (E.single_u_tube.k_s / E.single_u_tube.soil.rhoCp)) == E.single_u_tube.b.H * E.single_u_tube.b.H, E.self.t_s > 0)),
                  ("computed-period-at-least-49-hours", lambda E: E.self.calc_time_in_sec >= 49 * 3600)],
         returns=NoneT())
REG.contracts[f"{R_}:RadialNumericalBH.__init__#body"].assigns = writes("self.*")
REG.contracts[f"{R_}:RadialNumericalBH.__init__#body"].applies = lambda env: False


# ---- fill_radial_cells: the cell table ------------------------------------------------------------------------------------------------------------
from pyvc.engine import PI  # noqa: E402
from pyvc.libmodels import LOG  # noqa: E402

RIN, RCEN, ROUT, KK, RCP, TEMP, VOL = range(7)


def RadialSelf():
    return ObjOf(f"{R_}:RadialNumericalBH", single_u_tube=TubeShape(), num_fluid_cells=Const(3), num_conv_cells=Const(1), num_pipe_cells=Const(4), num_grout_cells=Const(27),
                 num_soil_cells=Const(500), num_cells=Const(535), bh_wall_idx=Const(35), r_far_field=Const(10), r_borehole=Real, r_out_tube=Real, r_in_tube=Real, r_convection=Real, r_fluid=Real,
                 thickness_soil_cell=Real, thickness_grout_cell=Real, thickness_pipe_cell=Real, thickness_conv_cell=Real, thickness_fluid_cell=Real, init_temp=Const(20))


class _SelfAsE:
    """lets the constructor's geometry clause be reused as a precondition of the methods"""

    def __init__(self, E):
        self.self, self.single_u_tube = E.self, E.self.single_u_tube


def _geometry_pre(E):
    o = E.self
    return And(0 < o.r_fluid, o.r_fluid < o.r_convection, o.r_convection < o.r_in_tube, o.r_in_tube < o.r_out_tube, o.r_out_tube < o.r_borehole, o.r_borehole < 10,
               o.r_fluid + 3 * o.thickness_fluid_cell == o.r_convection, o.r_convection + 1 * o.thickness_conv_cell == o.r_in_tube,
               o.r_in_tube + 4 * o.thickness_pipe_cell == o.r_out_tube, o.r_out_tube + 27 * o.thickness_grout_cell == o.r_borehole, o.r_borehole + 500 * o.thickness_soil_cell == 10,
               o.single_u_tube.pipe.r_in > 0, o.single_u_tube.fluid.rhoCp > 0, o.single_u_tube.soil.k > 0)


def _tiling(E):
    c = E.result
    cl = [c[RIN][0] == E.self.r_fluid, c[ROUT][534] == 10, c[RIN][35] == E.self.r_borehole, c[RIN][3] == E.self.r_convection, c[RIN][4] == E.self.r_in_tube, c[RIN][8] == E.self.r_out_tube]
    for j in range(534):
        cl.append(c[ROUT][j] == c[RIN][j + 1])
    for j in range(535):
        cl.append(And(c[RIN][j] < c[ROUT][j], 2 * c[RCEN][j] == c[RIN][j] + c[ROUT][j], c[TEMP][j] == 20))
    return And(*cl)


contract(f"{R_}:RadialNumericalBH.fill_radial_cells", dict(self=RadialSelf(), resist_f_effective=Real, resist_pg_effective=Real),
         requires=[("geometry-of-the-constructor", _geometry_pre), ("positive-resistances", lambda E: And(E.resist_f_effective > 0, E.resist_pg_effective > 0))],
         ensures=[("cells-tile-the-radius-from-the-fluid-core-to-the-far-field", _tiling),
                  ("volumes", lambda E: And(*[E.result[VOL][j] == PI * (E.result[ROUT][j] * E.result[ROUT][j] - E.result[RIN][j] * E.result[RIN][j]) for j in range(535)])),
                  ("fluid-cells-carry-the-thermal-mass-of-both-legs",
                   lambda E: E.result[RCP][0] * E.result[VOL][0] + E.result[RCP][1] * E.result[VOL][1] + E.result[RCP][2] * E.result[VOL][2]
                   == 2 * PI * E.self.single_u_tube.pipe.r_in * E.self.single_u_tube.pipe.r_in * E.self.single_u_tube.fluid.rhoCp),
                  ("layer-conductivities", lambda E: And(E.result[KK][3] * (2 * PI * E.resist_f_effective) == LOG(E.self.r_in_tube / E.self.r_convection),
                                                         *[E.result[KK][j] * (2 * PI * E.resist_pg_effective) == LOG(E.self.r_borehole / E.self.r_in_tube) for j in range(4, 35)],
                                                         *[E.result[KK][j] == E.self.single_u_tube.soil.k for j in range(35, 535)]))],
         returns=OpaqueOf("ndarray2d"), options={"timeout_ms": 60000})


def lemma_layers_sum_to_borehole_resistance():
    """with the discharged clauses of fill_radial_cells (tiling; one conductivity for the 31 pipe+grout cells with k 2 pi R_pg = ln(r_b/r_in_tube); convective cell with
    k 2 pi R_f = ln(r_in_tube/r_conv)) and ln(a/b) = ln a - ln b on the radii involved (A-LOG), the logarithms of the 32 layers between fluid and wall telescope"""
    n = 31
    edges = [z3.Real(f"r_{j}") for j in range(n + 1)]  # r_0 = r_in_tube ... r_31 = r_borehole
    lg = z3.Function("LOGR", z3.RealSort(), z3.RealSort())
    ratio = [z3.Real(f"ln_ratio_{j}") for j in range(n)]  # ln(r_out_j / r_in_j) of cell j
    hyp = [ratio[j] == lg(edges[j + 1]) - lg(edges[j]) for j in range(n)]
    total = z3.Real("ln_rb_over_rintube")
    hyp.append(total == lg(edges[n]) - lg(edges[0]))
    return hyp, sum(ratio) == total


def lemma_resistance_from_conductivity():
    s, k, r = z3.Reals("sum_of_log_ratios k R")
    return [k > 0, k * (2 * PI * r) == s], s / (2 * PI * k) == r


LEMMAS = [("pipe-and-grout-layer-logarithms-telescope", lemma_layers_sum_to_borehole_resistance),
          ("layer-resistance-equals-the-prescribed-resistance", lemma_resistance_from_conductivity)]


# ---- partial_init: the model object is re-used for another tube (GHE.simulate does): it must take that tube over ------------------------------------
contract(f"{R_}:RadialNumericalBH.partial_init", dict(self=RadialSelf(), single_u_tube=TubeShape()),
         requires=[("valid-borehole", lambda E: _valid_tube(E.single_u_tube))],
         ensures=[("works-on-the-tube-it-was-given", lambda E: E.self.single_u_tube.raw() is E.single_u_tube.raw()),
                  ("characteristic-time-of-that-tube", lambda E: And(E.self.t_s * (9 * (E.single_u_tube.k_s / E.single_u_tube.soil.rhoCp)) == E.single_u_tube.b.H * E.single_u_tube.b.H, E.self.t_s > 0)),
                  ("computed-period-at-least-49-hours", lambda E: E.self.calc_time_in_sec >= 49 * 3600)],
         assigns=writes("self.single_u_tube", "self.t_s", "self.calc_time_in_sec"), returns=NoneT())
