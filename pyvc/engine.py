"""pyvc: a verification-condition generator for a subset of Python, driven by sidecar contracts.

Symbolic execution of the *real* function bodies (ast re-read from the repository on every run),
modular in the callees (a callee with a contract is used through its contract only), loops cut by
sidecar invariants (loops with a concrete trip count are unrolled completely), one named obligation
per postcondition clause / invariant clause / callee precondition / implicit-exception site.
"""
from __future__ import annotations

import ast
import os
from fractions import Fraction

import z3

from . import libmodels
from .program import Program, is_disp_test, is_dropped
from .values import (
    AliasOf,
    ObjOf,
    TupleOf,
    BoundMethod,
    Bool,
    Builtin,
    ClassRef,
    Closure,
    EnumVal,
    FuncRef,
    Inf,
    Int,
    IntMap,
    ModuleRef,
    NoneT,
    Opaque,
    PyDict,
    PyList,
    PyObj,
    Real,
    Same,
    Seq,
    SliceVal,
    UFun,
    Unsupported,
    VCError,
    _Scalar,
    fresh,
    frac_of_float,
    is_conc_num,
    is_int_valued,
    is_num,
    is_real_valued,
    is_scalar,
    is_z3,
    ite_val,
    select_conc,
    shape_of,
    to_bool,
    to_real,
    to_z3,
    uid,
)

# --------------------------------------------------------------------------------------------
# contracts (filled by the sidecar files)


class LoopSpec:
    def __init__(self, invariants=(), decreases=None, shapes=None, modifies=(), unroll=False, abstract=False, steps=(), peel=False):
        self.steps = list(steps)  # [(name, fn(E))] proved at the end of every iteration; E.head = state at the iteration's start
        self.abstract = abstract  # havoc the loop's write set and skip its body (body NOT verified; reported in the evidence)
        self.invariants = list(invariants)  # [(name, fn(E))]
        self.decreases = decreases  # fn(E) -> Int term, must decrease and stay >= 0
        self.peel = peel  # verify the first iteration from the concrete entry state (variables that are None before the loop and objects afterwards); the arbitrary iteration then has k >= 1
        self.shapes = dict(shapes or {})  # havoc shapes for variables whose shape cannot be inferred
        self.modifies = list(modifies)
        self.unroll = unroll


FRAME_CHECK = os.environ.get("VERIF_FRAME", "1") == "1"


class Contract:
    def __init__(self, qual, params, requires=(), ensures=(), raises=None, assigns=(), returns=None, loops=None,
                 inline=False, exc_ensures=None, notes="", locals_shapes=None, may_raise=None, ghost_init=None, name=None):
        self.name = name or qual  # registry key; variants of one function are "qual#variant"
        self.qual = qual
        self.params = params  # ordered dict name -> shape
        self.requires = list(requires)  # [(name, fn(E))]
        self.ensures = list(ensures)  # [(name, fn(E))]   E.result bound
        self.raises = dict(raises or {})  # exc class name -> fn(E) (condition under which it MAY be raised; None = any)
        self.exc_ensures = dict(exc_ensures or {})  # exc class name -> [(name, fn(E))] postconditions on raise
        self.assigns = list(assigns)  # [(path_fn(E_objs) -> (obj, field), shape)]
        self.returns = returns  # shape of the result for callers
        self.loops = dict(loops or {})
        self.inline = inline
        self.notes = notes
        self.may_raise = may_raise
        self.options = {}
        self.ghost_results = 0  # trailing components of `returns` that are ghost outputs (visible to ensures/effects only)
        self.applies = None  # variant selector at call sites: fn(raw env) -> bool
        self.effects = None  # hook(ex, st, env, result): side effects of higher-order callees (after the frame)
        self.defs = []  # definitional axioms of spec functions (assumed when the function is verified)
        self.ensures_caller = None  # optional weaker view used at call sites


class Registry:
    def __init__(self):
        self.contracts = {}
        self.class_shapes = {}
        self.lemmas = []

    def add(self, c: Contract):
        self.contracts[c.name] = c
        return c


# --------------------------------------------------------------------------------------------
# obligations


class Obl:
    __slots__ = ("name", "assumptions", "goal", "kind", "func", "line", "path", "inputs", "extra")

    def __init__(self, name, assumptions, goal, kind, func, line, path, inputs=None, extra=None):
        self.name, self.assumptions, self.goal = name, assumptions, goal
        self.kind, self.func, self.line, self.path = kind, func, line, path
        self.inputs = inputs
        self.extra = dict(extra or {})


# --------------------------------------------------------------------------------------------
# spec views: what a contract lambda sees


def sv(v):
    """Wrap an engine value for use inside a spec lambda."""
    if isinstance(v, Fraction):
        return to_z3(v)
    if isinstance(v, PyObj):
        return ObjView(v)
    if isinstance(v, PyList):
        return ListView(v)
    if isinstance(v, Seq):
        return ListView(PyList(v))
    if isinstance(v, Opaque):
        return OpaqueView(v)
    if isinstance(v, IntMap):
        return MapView(v)
    if isinstance(v, tuple):
        return tuple(sv(x) for x in v)
    if isinstance(v, PyDict):
        return {k: sv(x) for k, x in v.d.items()}
    if isinstance(v, UFun):
        return UFunView(v)
    if isinstance(v, EnumVal):
        return v.value  # enum members are seen by specs as their integer values (declaration order, auto())
    return v


class UFunView:
    def __init__(self, u):
        self._u = u

    def __call__(self, *a):
        return sv(self._u.fn(*a))

    def __getattr__(self, k):
        return sv(self._u.attrs[k])


class ObjView:
    def __init__(self, o):
        object.__setattr__(self, "_o", o)

    def __getattr__(self, k):
        o = object.__getattribute__(self, "_o")
        if k not in o.fields:
            raise VCError(f"spec: object of class {o.cls} has no field {k}")
        return sv(o.fields[k])

    def raw(self):
        return object.__getattribute__(self, "_o")


class OpaqueView:
    def __init__(self, o):
        self._o = o

    def __getattr__(self, k):
        return sv(self._o.attrs[k])


class ListView:
    def __init__(self, l):
        self._l = l

    @property
    def len(self):
        return self._l.length()

    def __len__(self):
        n = self._l.length()
        if isinstance(n, int):
            return n
        raise VCError("spec: len() of a symbolic list; use .len")

    def __getitem__(self, i):
        if isinstance(i, int) and i < 0:
            n = self._l.length()
            i = n + i
        return sv(self._l.get(i))

    def raw(self):
        return self._l

    @property
    def id(self):
        """a literal list of numbers used where a contract expects an abstract field (e.g. [[0, 0]]): its identity is a constant derived from its content"""
        v = self._l.v
        if isinstance(v, list):
            import zlib

            return z3.IntVal(-1 - zlib.crc32(repr(self._l.v if not isinstance(self._l.v, list) else [getattr(x, "v", x) for x in self._l.v]).encode()))
        return self.key

    @property
    def key(self):
        """identity of a symbolic list value (fresh lists carry one): lets a contract say 'a function of this list'"""
        v = self._l.v
        if isinstance(v, Seq) and v.tag and v.tag[0] == "key":
            return v.tag[1]
        raise VCError("spec: this list value has no identity key")


class MapView:
    def __init__(self, m):
        self._m = m

    def has(self, k):
        return self._m.dom(to_z3(k))

    def __getitem__(self, k):
        return sv(self._m.val(to_z3(k)))

    @property
    def n(self):
        return self._m.n

    def key_at(self, p):
        return self._m.key_at(to_z3(p))

    def pos_of(self, k):
        return self._m.pos_of(to_z3(k))


class _PreEnv:
    """E.pre.<name>: value of a local at loop entry."""

    def __init__(self, env):
        self._env = env

    def __getattr__(self, k):
        return sv(self._env[k])


class SpecEnv:
    """Environment a spec lambda is evaluated in: E.<local or parameter>, E.old.<param>, E.result."""

    def __init__(self, env, old=None, result=None, extra=None):
        object.__setattr__(self, "_env", env)
        object.__setattr__(self, "_old", old)
        object.__setattr__(self, "_result", result)
        object.__setattr__(self, "_extra", extra or {})

    def __getattr__(self, k):
        if k == "result":
            return sv(object.__getattribute__(self, "_result"))
        if k == "old":
            o = object.__getattribute__(self, "_old")
            return SpecEnv(o) if o is not None else None
        ex = object.__getattribute__(self, "_extra")
        if k in ex:
            return ex[k] if isinstance(ex[k], _PreEnv) else sv(ex[k])
        env = object.__getattribute__(self, "_env")
        if k in env:
            return sv(env[k])
        raise VCError(f"spec refers to unknown variable {k!r} (sidecar no longer matches the code)")

    def has(self, k):
        return k in object.__getattribute__(self, "_env") or k in object.__getattribute__(self, "_extra")


# --------------------------------------------------------------------------------------------
# state


class State:
    def __init__(self, env=None, pc=None):
        self.env = env if env is not None else {}
        self.pc = pc if pc is not None else []
        self.forks = []  # (kind, State, payload) produced inside expression evaluation
        self.dead = False  # set when the path diverges (process exit)
        self.roots = {}  # extra named roots kept alive across clones (params, old, ...)
        self.trace = []  # branch decisions, for path ids

    def clone(self):
        memo = {}
        s = State()
        s.env = _clone(self.env, memo)
        s.pc = list(self.pc)
        s.roots = _clone(self.roots, memo)
        s.trace = list(self.trace)
        return s


def _clone(v, memo):
    i = id(v)
    if i in memo:
        return memo[i]
    if isinstance(v, dict):
        d = {}
        memo[i] = d
        for k, x in v.items():
            d[k] = _clone(x, memo)
        return d
    if isinstance(v, PyList):
        n = PyList(None, np=v.np)
        memo[i] = n
        n.v = [_clone(x, memo) for x in v.v] if isinstance(v.v, list) else v.v
        return n
    if isinstance(v, PyObj):
        n = PyObj(v.cls)
        memo[i] = n
        n.fields = {k: _clone(x, memo) for k, x in v.fields.items()}
        return n
    if isinstance(v, PyDict):
        n = PyDict()
        memo[i] = n
        n.d = {k: _clone(x, memo) for k, x in v.d.items()}
        return n
    if isinstance(v, IntMap):
        n = v.copy()
        memo[i] = n
        return n
    if isinstance(v, Closure):
        n = Closure(v.node, None, v.module)
        memo[i] = n
        n.env = _clone(v.env, memo)
        return n
    if isinstance(v, BoundMethod):
        n = BoundMethod(_clone(v.obj, memo), v.qual)
        memo[i] = n
        return n
    if isinstance(v, tuple):
        t = tuple(_clone(x, memo) for x in v)
        return t
    if isinstance(v, list):
        l = [_clone(x, memo) for x in v]
        memo[i] = l
        return l
    return v  # immutable: scalars, z3, Seq, Opaque, EnumVal, FuncRef, UFun ...


def _snapshot(roots):
    seen = {}
    stack = list(roots)
    while stack:
        v = stack.pop()
        i = id(v)
        if i in seen:
            continue
        if isinstance(v, dict):
            seen[i] = (v, dict(v))
            stack.extend(v.values())
            if isinstance(v, _ChainEnv):
                stack.append(v.outer)
        elif isinstance(v, PyObj):
            seen[i] = (v, dict(v.fields))
            stack.extend(v.fields.values())
        elif isinstance(v, PyList):
            seen[i] = (v, list(v.v) if isinstance(v.v, list) else v.v)
            if isinstance(v.v, list):
                stack.extend(v.v)
        elif isinstance(v, PyDict):
            seen[i] = (v, dict(v.d))
            stack.extend(v.d.values())
        elif isinstance(v, IntMap):
            seen[i] = (v, (v.dom, v.val, v.n, v.key_at, v.pos_of))
        elif isinstance(v, Closure):
            seen[i] = (v, None)
            stack.append(v.env)
        elif isinstance(v, BoundMethod):
            seen[i] = (v, None)
            stack.append(v.obj)
        elif isinstance(v, (tuple, list)):
            seen[i] = (v, None)
            stack.extend(v)
    return seen


def _restore(snap):
    for v, saved in snap.values():
        if saved is None:
            continue
        if isinstance(v, dict):
            dict.clear(v)
            dict.update(v, saved)
        elif isinstance(v, PyObj):
            v.fields = saved
        elif isinstance(v, PyList):
            v.v = saved
        elif isinstance(v, PyDict):
            v.d = saved
        elif isinstance(v, IntMap):
            v.dom, v.val, v.n, v.key_at, v.pos_of = saved


class Raised(Exception):
    """Internal: used only to unwind when *every* path of an inlined pure helper raises."""


# --------------------------------------------------------------------------------------------


_IMPLICIT_EXC = {"max-empty": "ValueError", "index-absent": "ValueError", "brentq-bracket": "ValueError", "unpack": "ValueError",
                 "zip-star-empty": "ValueError", "index": "IndexError", "index-store": "IndexError", "key": "KeyError",
                 "div": "ZeroDivisionError", "none-attr": "AttributeError", "len-none": "TypeError", "assert": "AssertionError"}
MULF = z3.Function("MUL", z3.RealSort(), z3.RealSort(), z3.RealSort())
PI = z3.Real("PI")
PI_AXIOMS = [PI > z3.RealVal("3.14159265358"), PI < z3.RealVal("3.14159265359")]


class Exec:
    def __init__(self, program: Program, registry: Registry, feas_timeout_ms=1500, max_paths=20000):
        self.prog = program
        self.reg = registry
        self.obls: list[Obl] = []
        self.feas_timeout_ms = feas_timeout_ms
        self.max_paths = max_paths
        self.fn_stack = []
        self.cur_contract = None
        self.call_counter = {}
        self.site_counter = {}
        self.discont = []  # discontinuity sites (comparisons / floor / ceil of reals steering control)
        self.used_models = set()
        self.used_contracts = set()  # names of the contracts applied at call sites (for the mechanical list of assumed callee contracts)
        self.feas_calls = 0
        self.axioms = list(PI_AXIOMS)  # global axioms added to every obligation
        self.npaths = 0
        self.input_syms = None
        self.const_cache = {}
        self.quiet = 0
        self.vname = None
        self.abstracted_loops = []

    # ---------------------------------------------------------------- verification of one function

    def verify(self, qual):
        """Generate all obligations of the function `qual` against its contract."""
        from .values import reset_uids

        reset_uids()  # symbol names depend on the function only, not on what was verified before (solver behaviour is name-sensitive)
        c = self.reg.contracts[qual]
        vname = qual
        qual = c.qual
        mod, node = self.prog.function(qual)
        self.cur_contract = c
        self.vname = vname
        self.fn_stack = [(qual, c)]
        self.call_counter = {}
        self.site_counter = {}
        st = State()
        wf = []
        params = {}
        for name, shape in c.params.items():
            params[name] = fresh(shape, name, wf)
        st.pc.extend(wf)
        if c.options.get("entry_aliases"):
            # aliasing between parts of the entry state that a shape tree cannot say: [(path of the location, path of the object it refers to)], both from the parameters
            P = SpecEnvRaw(params)
            for tgt_fn, src_fn in c.options["entry_aliases"]:
                o, attr = tgt_fn(P)
                o.fields[attr] = src_fn(P)
        st.env = dict(params)
        self.input_syms = params
        old = _clone(params, {})
        st.roots["old"] = old
        st.roots["params0"] = dict(params)  # the parameter objects themselves (the names may be rebound by the body)
        st.roots["module"] = mod.name
        # preconditions are assumed
        E = SpecEnv(st.env, old=None)
        for rname, fn in c.requires:
            st.pc.append(self._spec_bool(fn(E), f"requires {rname}"))
        for dname, fn in c.defs:
            st.pc.append(self._spec_bool(fn(E), f"def {dname}"))
        n0 = len(self.obls)
        # vacuity: requires must be satisfiable (checked as a special obligation kind 'cover')
        self.obls.append(Obl(f"{short(vname)}/requires-sat", list(st.pc), None, "cover", qual, node.lineno, ""))
        # bind defaults for parameters not in the contract
        self._bind_defaults(node, st, mod)
        outs = self.exec_block(node.body, st, mod)
        if os.environ.get("VERIF_DEBUG"):
            for kind, s_, payload in outs:
                print("DEBUG path-end", kind, payload if isinstance(payload, (str, int, type(None))) else type(payload).__name__, pathid(s_), "dead" if s_.dead else "")
        nret = 0
        for kind, s, payload in outs:
            if kind in ("next", "return") and any(z3.is_false(p) for p in s.pc):
                continue  # this path ended at a definite implicit exception that the contract allows (its raising twin is among the outcomes)
            if kind in ("next", "return"):
                nret += 1
                result = payload if kind == "return" else None
                Eo = SpecEnv(s.env, old=s.roots["old"], result=result)
                self.spec_ctx(s)
                # the declared result type is part of the contract: a number where a number is promised, None where None is
                # (a path that falls off the end of a function declared to return a status would otherwise satisfy every
                # clause of the form `result == ...` vacuously)
                rs = getattr(c, "returns", None)
                if isinstance(rs, _Scalar) and rs.sort in ("Int", "Real") and not (is_real_valued(result) or is_int_valued(result) or isinstance(result, bool)) or isinstance(rs, NoneT) and result is not None:
                    self.prove(s, f"{short(vname)}/returns/result-has-the-declared-type", z3.BoolVal(False), "ensures", node.lineno)
                elif isinstance(rs, (_Scalar, NoneT)):
                    self.prove(s, f"{short(vname)}/returns/result-has-the-declared-type", z3.BoolVal(True), "ensures", node.lineno)
                if c.options.get("no_normal_return"):
                    self.prove(s, f"{short(vname)}/returns/never-returns-normally", z3.BoolVal(False), "ensures", node.lineno)
                for ename, fn in c.ensures:
                    goal = self._spec_bool(fn(Eo), f"ensures {ename}")
                    self.prove(s, f"{short(vname)}/ensures/{ename}", goal, "ensures", node.lineno)
                if FRAME_CHECK and not c.options.get("no_frame_check"):
                    self._check_frame(c, s, vname, node)
                    self._check_aliases(c, s, vname, node, result)
                # canary: the end of this path must be reachable ("ensures False" must be refuted)
                self.obls.append(Obl(f"{short(vname)}/canary", list(s.pc), None, "cover", qual, node.lineno, pathid(s)))
            elif kind == "raise":
                exc = payload
                if exc in c.raises:
                    cond = c.raises[exc]
                    if cond is not None:
                        Eo = SpecEnv(s.env, old=s.roots["old"])
                        self.prove(s, f"{short(vname)}/raises/{exc}-only-when", self._spec_bool(cond(Eo), "raises"), "raises", node.lineno)
                    for ename, fn in c.exc_ensures.get(exc, []):
                        Eo = SpecEnv(s.env, old=s.roots["old"])
                        self.prove(s, f"{short(vname)}/on-{exc}/{ename}", self._spec_bool(fn(Eo), ename), "ensures", node.lineno)
                else:
                    self.prove(s, f"{short(vname)}/raises/no-{exc}", z3.BoolVal(False), "raises", node.lineno)
            else:
                raise VCError(f"{qual}: '{kind}' escapes the function body")
        if nret == 0 and not c.options.get("no_normal_return"):
            # every path ended in a declared exception or was pruned as infeasible (e.g. by a callee postcondition that contradicts the actual arguments):
            # the postconditions would hold vacuously.  Functions that really never return say so (options no_normal_return).
            raise VCError(f"{qual}: no normally terminating path (contradictory contract, or a callee contract that does not fit its call site?)")
        if nret == 0 and c.options.get("no_normal_return"):
            self.prove(st, f"{short(vname)}/returns/never-returns-normally", z3.BoolVal(True), "ensures", node.lineno)
        self.npaths += len(outs)
        for o in self.obls[n0:]:
            o.extra["vname"] = vname
            if c.options.get("timeout_ms"):
                o.extra["timeout_ms"] = c.options["timeout_ms"]
        return self.obls[n0:]

    def _bind_defaults(self, node, st, mod):
        args = node.args
        pos = args.posonlyargs + args.args
        defaults = [None] * (len(pos) - len(args.defaults)) + list(args.defaults)
        for a, d in zip(pos, defaults):
            if a.arg not in st.env:
                if d is None:
                    raise VCError(f"parameter {a.arg} of {node.name} has no shape in the contract and no default")
                st.env[a.arg] = self.eval(d, st, mod)
        for a, d in zip(args.kwonlyargs, args.kw_defaults):
            if a.arg not in st.env:
                st.env[a.arg] = self.eval(d, st, mod)

    # ---------------------------------------------------------------- obligations

    def spec_ctx(self, st):
        """contracts that need engine services (prefix sums) read them from contracts.loads._SumCtx"""
        try:
            from contracts.loads import _SumCtx

            _SumCtx.ex, _SumCtx.st = self, st
        except Exception:
            pass

    def _spec_bool(self, v, what):
        if isinstance(v, bool):
            return z3.BoolVal(v)
        if isinstance(v, (list, tuple)):
            return z3.And(*[self._spec_bool(x, what) for x in v]) if v else z3.BoolVal(True)
        if is_z3(v) and z3.is_bool(v):
            return v
        raise VCError(f"spec clause '{what}' did not evaluate to a Bool: {v!r}")

    def prove(self, st, name, goal, kind, line, assume=True, extra=None):
        if self.quiet:
            return
        if isinstance(goal, bool):
            goal = z3.BoolVal(goal)
        if z3.is_true(goal):
            triv = Obl(name, [], goal, kind, self.fn_stack[0][0], line, pathid(st), extra={"trivial": True})
            self.obls.append(triv)
            return
        self.obls.append(Obl(name, list(st.pc), goal, kind, self.fn_stack[0][0], line, pathid(st), extra=extra))
        if assume:
            st.pc.append(goal)

    def safety(self, st, what, goal, node):
        """Implicit-exception site: goal must hold or the real code raises something undeclared."""
        if self.quiet:
            return
        if isinstance(goal, bool):
            if goal:
                return
            goal = z3.BoolVal(False)
        # an implicit exception whose class the contract allows unconditionally is a raising path, not an obligation
        exc = _IMPLICIT_EXC.get(what)
        c = self.fn_stack[0][1] if self.fn_stack else None
        caught = exc and any(d == len(self.fn_stack) and (names is None or exc in names or "Exception" in names) for d, names in getattr(self, "try_stack", []))
        if exc and (caught or c is not None and exc in c.raises and c.raises[exc] is None and len(self.fn_stack) == 1):
            cs = st.clone()
            cs.pc.append(z3.Not(goal))
            if self.feasible(cs.pc):
                st.forks.append(("raise", cs, exc))
            st.pc.append(goal)
            return
        key = (what, getattr(node, "lineno", 0), getattr(node, "col_offset", 0))
        n = self.site_counter.setdefault(key, len(self.site_counter))
        fq = _vshort(self)
        self.prove(st, f"{fq}/safety/{what}#{n}", goal, "safety", getattr(node, "lineno", 0))

    def _opt(self, name, default=False):
        c = self.fn_stack[0][1] if self.fn_stack else None
        return c.options.get(name, default) if c is not None else default

    def input_syms_for(self, qual):
        return self.input_syms

    def provable(self, st, cond, timeout_ms=800):
        """cheap validity check under the quantifier-free part of the path condition (used only to simplify terms)"""
        if isinstance(cond, bool):
            return cond
        sv_ = z3.Solver()
        sv_.set("timeout", timeout_ms)
        sv_.add(*self.axioms)
        sv_.add(*[p for p in st.pc if not _has_quant(p)])
        sv_.add(z3.Not(cond))
        return sv_.check() == z3.unsat

    def feasible(self, pc):
        self.feas_calls += 1
        s = z3.Solver()
        s.set("timeout", self.feas_timeout_ms)
        s.add(*self.axioms)
        # quantified assumptions are left out: fewer assumptions can only keep more paths (sound for pruning)
        s.add(*[p for p in pc if not _has_quant(p)])
        return s.check() != z3.unsat

    # ---------------------------------------------------------------- statements

    def exec_block(self, stmts, st, mod):
        """Returns list of (kind, state, payload)."""
        outs = []
        cur = [st]
        for stmt in stmts:
            if is_dropped(stmt):
                continue
            nxt = []
            for s in cur:
                for kind, s2, payload in self.exec_stmt(stmt, s, mod):
                    if kind == "next":
                        nxt.append(s2)
                    else:
                        outs.append((kind, s2, payload))
            cur = nxt
            if len(cur) + len(outs) > self.max_paths:
                raise VCError("path explosion")
            if not cur:
                break
        outs.extend(("next", s, None) for s in cur)
        return outs

    def _drain(self, st, outs):
        if st.forks:
            outs.extend(st.forks)
            st.forks = []

    def exec_stmt(self, stmt, st, mod):
        outs = []
        m = getattr(self, "stmt_" + type(stmt).__name__, None)
        if m is None:
            raise Unsupported(f"statement {type(stmt).__name__} at line {stmt.lineno}")
        res = m(stmt, st, mod)
        for kind, s, payload in res:
            self._drain(s, outs)
            if not getattr(s, "dead", False):
                outs.append((kind, s, payload))
        self._drain(st, outs)
        return outs

    def stmt_Expr(self, stmt, st, mod):
        self.eval(stmt.value, st, mod)
        return [("next", st, None)]

    def stmt_Pass(self, stmt, st, mod):
        return [("next", st, None)]

    def stmt_Assign(self, stmt, st, mod):
        if isinstance(stmt.value, ast.IfExp) and not getattr(stmt, "_no_split", False):
            # `x = A if c else B`: try the expression form (scalar arms merge into an ite); when an arm is an object, execute it as
            # `if c: x = A` / `else: x = B` (same semantics, the two arms become two paths)
            snap = st.clone()
            try:
                v = self.eval(stmt.value, st, mod)
            except Unsupported as e:
                if "ite of" not in str(e):
                    raise
                st.env, st.pc, st.roots, st.trace = snap.env, snap.pc, snap.roots, snap.trace
                mk = lambda val: ast.copy_location(ast.Assign(targets=stmt.targets, value=val, lineno=stmt.lineno), stmt)  # noqa: E731
                node = ast.copy_location(ast.If(test=stmt.value.test, body=[mk(stmt.value.body)], orelse=[mk(stmt.value.orelse)]), stmt)
                return self.stmt_If(node, st, mod)
            for t in stmt.targets:
                self.assign(t, v, st, mod)
            return [("next", st, None)]
        v = self.eval(stmt.value, st, mod)
        for t in stmt.targets:
            self.assign(t, v, st, mod)
        return [("next", st, None)]

    def stmt_AnnAssign(self, stmt, st, mod):
        if stmt.value is not None:
            self.assign(stmt.target, self.eval(stmt.value, st, mod), st, mod)
        return [("next", st, None)]

    def stmt_AugAssign(self, stmt, st, mod):
        cur = self.eval(_load(stmt.target), st, mod)
        v = self.eval(stmt.value, st, mod)
        if isinstance(cur, PyList) and isinstance(stmt.op, ast.Add) and not cur.np:
            # list += iterable  mutates in place
            libmodels.list_extend(self, st, cur, v)
            return [("next", st, None)]
        r = self.binop(stmt.op, cur, v, st, stmt)
        if isinstance(cur, PyList) and isinstance(r, PyList) and r is not cur and r.np == cur.np and (cur.np or isinstance(stmt.op, ast.Mult)):
            # list *= n and every augmented assignment on a numpy array update the object in place: all aliases see the new contents
            cur.v = r.v
            r = cur
        self.assign(stmt.target, r, st, mod)
        return [("next", st, None)]

    def stmt_Return(self, stmt, st, mod):
        v = self.eval(stmt.value, st, mod) if stmt.value is not None else None
        return [("return", st, v)]

    def stmt_Break(self, stmt, st, mod):
        return [("break", st, None)]

    def stmt_Continue(self, stmt, st, mod):
        return [("continue", st, None)]

    def stmt_Assert(self, stmt, st, mod):
        # `assert c`: an implicit-exception site (AssertionError unless c holds); interpreter option -O is not modelled
        c = self.truth(self.eval(stmt.test, st, mod), st, stmt)
        self.safety(st, "assert", c if not isinstance(c, bool) else c, stmt)
        return [("next", st, None)]

    def stmt_Raise(self, stmt, st, mod):
        exc = stmt.exc
        name = None
        if isinstance(exc, ast.Call) and isinstance(exc.func, ast.Name):
            name = exc.func.id
        elif isinstance(exc, ast.Name):
            name = exc.id
        if name is None:
            raise Unsupported("raise of a non-class expression")
        return [("raise", st, name)]

    def stmt_FunctionDef(self, stmt, st, mod):
        st.env[stmt.name] = Closure(stmt, st.env, mod)
        return [("next", st, None)]

    def stmt_If(self, stmt, st, mod):
        # extraction rule: display-only blocks are dropped, but only if they contain nothing but prints
        if is_disp_test(stmt.test):
            if all(is_dropped(b) for b in stmt.body) and not stmt.orelse:
                return [("next", st, None)]
            c0 = self.truth(self.eval(stmt.test, st, mod), st, stmt.test)
            if c0 is False and not stmt.orelse:
                return [("next", st, None)]  # display flag is concretely off on this path
            raise VCError(f"line {stmt.lineno}: `if disp` block contains more than prints and the flag is not known to be off; extraction refuses")
        c = self.truth(self.eval(stmt.test, st, mod), st, stmt.test)
        body_noop = all(is_dropped(b) for b in stmt.body)
        else_noop = all(is_dropped(b) for b in stmt.orelse)
        if body_noop and else_noop:
            return [("next", st, None)]
        if isinstance(c, bool):
            return self.exec_block(stmt.body if c else stmt.orelse, st, mod)
        self._note_discont(stmt.test, c)
        outs = []
        s_then = st.clone()
        s_then.pc.append(c)
        s_then.trace.append(f"{stmt.lineno}T")
        s_else = st
        s_else.pc.append(z3.Not(c))
        s_else.trace.append(f"{stmt.lineno}F")
        then_ok = self.feasible(s_then.pc)
        else_ok = self.feasible(s_else.pc)
        r_then = self.exec_block(stmt.body, s_then, mod) if then_ok else []
        r_else = self.exec_block(stmt.orelse, s_else, mod) if else_ok else []
        merged = self._try_merge(c, r_then, r_else, st)
        if merged is not None:
            return merged
        return r_then + r_else

    def _try_merge(self, c, r_then, r_else, st):
        """If-conversion: both arms fall through on a single path and differ only in scalar locals."""
        if len(r_then) != 1 or len(r_else) != 1:
            return None
        (k1, s1, _), (k2, s2, _) = r_then[0], r_else[0]
        if k1 != "next" or k2 != "next" or s1.forks or s2.forks:
            return None
        # path conditions must be base + [c] and base + [not c] (plus obligations assumed inside the arms)
        if set(s1.env) != set(s2.env):
            return None
        memo = {}
        try:
            new_env = {}
            for k in s1.env:
                a, b = s1.env[k], s2.env[k]
                new_env[k] = self._merge_val(c, a, b, memo)
        except _NoMerge:
            return None
        # heap objects reachable must be unchanged between the two (checked structurally by _merge_val)
        n = min(len(s1.pc), len(s2.pc))
        i = 0
        while i < n and s1.pc[i] is s2.pc[i]:
            i += 1
        extra1 = [p for p in s1.pc[i:] if not p.eq(c)]
        extra2 = [p for p in s2.pc[i:] if not p.eq(z3.Not(c))]
        pc = s1.pc[:i] + [z3.Implies(c, p) for p in extra1] + [z3.Implies(z3.Not(c), p) for p in extra2]
        s = State(new_env, pc)
        s.roots = s1.roots
        s.trace = s1.trace[:-1] if s1.trace else []
        # s1 objects are kept; objects that differ were rejected
        return [("next", s, None)]

    def _merge_val(self, c, a, b, memo):
        if a is b:
            return a
        if is_scalar(a) and is_scalar(b):
            if is_z3(a) and is_z3(b) and a.eq(b):
                return a
            try:
                return ite_val(c, a, b)
            except Unsupported:
                raise _NoMerge()
        if a is None and b is None:
            return None
        if isinstance(a, (str, EnumVal, Inf)) and a == b:
            return a
        if isinstance(a, tuple) and isinstance(b, tuple) and len(a) == len(b):
            return tuple(self._merge_val(c, x, y, memo) for x, y in zip(a, b))
        key = (id(a), id(b))
        if key in memo:
            return memo[key]
        if isinstance(a, PyObj) and isinstance(b, PyObj) and a.cls == b.cls and set(a.fields) == set(b.fields):
            memo[key] = a
            for k in a.fields:
                a.fields[k] = self._merge_val(c, a.fields[k], b.fields[k], memo)
            return a
        if isinstance(a, PyList) and isinstance(b, PyList):
            memo[key] = a
            if a.is_conc() and b.is_conc() and len(a.v) == len(b.v):
                a.v = [self._merge_val(c, x, y, memo) for x, y in zip(a.v, b.v)]
                return a
            if a.v is b.v:
                return a
            raise _NoMerge()  # lists that evolved differently in the two arms: keep the paths apart
        if isinstance(a, PyDict) and isinstance(b, PyDict) and list(a.d) == list(b.d):
            memo[key] = a
            for k in a.d:
                a.d[k] = self._merge_val(c, a.d[k], b.d[k], memo)
            return a
        if isinstance(a, Closure) and isinstance(b, Closure) and a.node is b.node:
            return a
        if isinstance(a, (FuncRef, Builtin, ModuleRef, ClassRef, UFun, Opaque, Seq)) and a is b:
            return a
        if isinstance(a, BoundMethod) and isinstance(b, BoundMethod) and a.qual == b.qual:
            return a
        raise _NoMerge()

    def stmt_While(self, stmt, st, mod):
        return self._loop(stmt, st, mod, kind="while")

    def stmt_For(self, stmt, st, mod):
        return self._loop(stmt, st, mod, kind="for")

    def stmt_With(self, stmt, st, mod):
        """`with open(...) as f:` style blocks: the context expression is evaluated, bound, and the body executed
        (context-manager protocol itself is not modelled: file objects are opaque)"""
        for item in stmt.items:
            v = self.eval(item.context_expr, st, mod)
            if item.optional_vars is not None:
                self.assign(item.optional_vars, v, st, mod)
        return self.exec_block(stmt.body, st, mod)

    def stmt_Try(self, stmt, st, mod):
        if stmt.finalbody or stmt.orelse:
            raise Unsupported("try/finally/else")
        outs = []
        # implicit exceptions (IndexError, KeyError, ZeroDivisionError, ...) raised directly in the body are routed to the handlers below
        caught_names = []
        for h in stmt.handlers:
            if h.type is None:
                caught_names = None
                break
            caught_names += [h.type.id] if isinstance(h.type, ast.Name) else [e.id for e in getattr(h.type, "elts", []) if isinstance(e, ast.Name)]
        if not hasattr(self, "try_stack"):
            self.try_stack = []
        self.try_stack.append((len(self.fn_stack), caught_names))
        try:
            body_outs = self.exec_block(stmt.body, st, mod)
        finally:
            self.try_stack.pop()
        for kind, s, payload in body_outs:
            if kind == "raise":
                handled = False
                for h in stmt.handlers:
                    names = []
                    if h.type is None:
                        names = None
                    elif isinstance(h.type, ast.Name):
                        names = [h.type.id]
                    elif isinstance(h.type, ast.Tuple):
                        names = [e.id for e in h.type.elts]
                    if names is None or payload in names or "Exception" in names:
                        if h.name:
                            s.env[h.name] = Opaque("exception", {})
                        outs.extend(self.exec_block(h.body, s, mod))
                        handled = True
                        break
                if not handled:
                    outs.append((kind, s, payload))
            else:
                outs.append((kind, s, payload))
        return outs

    # ---------------------------------------------------------------- loops

    def _loop_ordinal(self, stmt):
        """Ordinal of the loop inside the function under verification (source order)."""
        qual = self.fn_stack[-1][0]
        key = ("loops", qual)
        if key not in self.const_cache:
            _, fnode = self.prog.function(qual)
            loops = [n for n in ast.walk(fnode) if isinstance(n, (ast.For, ast.While))]
            loops.sort(key=lambda n: (n.lineno, n.col_offset))
            self.const_cache[key] = {id(n): k for k, n in enumerate(loops)}
        return self.const_cache[key].get(id(stmt))

    def _loop(self, stmt, st, mod, kind):
        ordinal = self._loop_ordinal(stmt)
        contract = self.fn_stack[-1][1]
        spec = contract.loops.get(ordinal) if contract is not None and ordinal is not None else None
        if spec is not None and spec.abstract:
            if kind == "for":
                try:
                    self.eval(stmt.iter, st, mod, quiet=True)
                except VCError:
                    pass  # part of the abstraction: the iterable of an abstracted loop is not modelled
            self._havoc(stmt, st, mod, spec)
            if kind == "for":
                for nm in _target_names(stmt.target):
                    st.env.pop(nm, None) if isinstance(st.env, dict) and dict.__contains__(st.env, nm) else None
            self.abstracted_loops.append((self.fn_stack[-1][0], ordinal, stmt.lineno))
            return [("next", st, None)]
        if kind == "for":
            it = self.iter_seq(self.eval(stmt.iter, st, mod), st, stmt.iter)
            n = it.length
            if isinstance(n, int) and (spec is None or spec.unroll):
                return self._unroll_for(stmt, st, mod, it, n)
            if spec is None:
                raise VCError(f"{self.fn_stack[-1][0]}: loop #{ordinal} (line {stmt.lineno}) has a symbolic trip count and no invariant in the sidecar")
            return self._inv_loop(stmt, st, mod, spec, ordinal, it=it)
        if spec is None:
            return self._unroll_while(stmt, st, mod)
        return self._inv_loop(stmt, st, mod, spec, ordinal, it=None)

    def _unroll_for(self, stmt, st, mod, it, n):
        outs = []
        cur = [st]
        for k in range(n):
            nxt = []
            for s in cur:
                self.assign(stmt.target, it.get(k), s, mod)
                for kind, s2, payload in self.exec_block(stmt.body, s, mod):
                    if kind in ("next", "continue"):
                        nxt.append(s2)
                    elif kind == "break":
                        outs.append(("next", s2, None))
                    else:
                        outs.append((kind, s2, payload))
            cur = nxt
            if not cur:
                break
        for s in cur:
            if stmt.orelse:
                outs.extend(self.exec_block(stmt.orelse, s, mod))
            else:
                outs.append(("next", s, None))
        return outs

    def _unroll_while(self, stmt, st, mod, limit=64):
        """while loop without invariant: allowed only if the guard is decided concretely each time."""
        outs = []
        cur = [st]
        for _ in range(limit):
            nxt = []
            for s in cur:
                c = self.truth(self.eval(stmt.test, s, mod), s, stmt.test)
                if not isinstance(c, bool):
                    raise VCError(f"{self.fn_stack[-1][0]}: while loop at line {stmt.lineno} has a symbolic guard and no invariant in the sidecar")
                if not c:
                    outs.append(("next", s, None))
                    continue
                for kind, s2, payload in self.exec_block(stmt.body, s, mod):
                    if kind in ("next", "continue"):
                        nxt.append(s2)
                    elif kind == "break":
                        outs.append(("next", s2, None))
                    else:
                        outs.append((kind, s2, payload))
            cur = nxt
            if not cur:
                return outs
        raise VCError("while loop did not terminate within the concrete unrolling limit")

    def _modified(self, stmts, st, mod):
        """Syntactic write set of a loop body: local names, (object, field) pairs, list objects."""
        names, fields, objs = set(), [], []

        def tgt(t):
            if isinstance(t, ast.Name):
                names.add(t.id)
            elif isinstance(t, (ast.Tuple, ast.List)):
                for e in t.elts:
                    tgt(e)
            elif isinstance(t, ast.Starred):
                tgt(t.value)
            elif isinstance(t, ast.Attribute):
                fields.append((t.value, t.attr))
            elif isinstance(t, ast.Subscript):
                objs.append(t.value)

        for node in ast.walk(ast.Module(body=list(stmts), type_ignores=[])):
            if isinstance(node, ast.Assign):
                for t in node.targets:
                    tgt(t)
            elif isinstance(node, (ast.AugAssign, ast.AnnAssign)):
                tgt(node.target)
                if isinstance(node, ast.AugAssign) and isinstance(node.target, (ast.Name, ast.Attribute)):
                    objs.append(node.target)
            elif isinstance(node, (ast.For, ast.comprehension)):
                tgt(node.target)
            elif isinstance(node, ast.NamedExpr):
                tgt(node.target)
            elif isinstance(node, ast.FunctionDef):
                names.add(node.name)
            elif isinstance(node, ast.Call) and isinstance(node.func, ast.Attribute):
                if node.func.attr in ("append", "extend", "pop", "insert", "remove", "sort", "reverse", "clear"):
                    objs.append(node.func.value)
        return names, fields, objs

    def _havoc(self, stmt, st, mod, spec, extra_names=()):
        names, fields, objs = self._modified(stmt.body + getattr(stmt, "orelse", []), st, mod)
        names |= set(extra_names)
        wf = []
        done = set()
        for nm in sorted(names):
            if nm in spec.shapes:
                sh = spec.shapes[nm]
                if isinstance(sh, Same):
                    continue
                st.env[nm] = fresh(sh, nm, wf)
            elif nm in st.env:
                v = st.env[nm]
                if isinstance(v, (Closure, FuncRef, Builtin)):
                    continue
                if isinstance(v, (PyList, PyObj, PyDict, IntMap)):
                    # rebinding of a reference inside the loop: the sidecar must say what it becomes
                    try:
                        st.env[nm] = fresh(shape_of(v), nm, wf)
                    except Unsupported as e:
                        raise VCError(f"havoc of local {nm}: {e}")
                else:
                    st.env[nm] = fresh(shape_of(v), nm, wf)
            # names first bound inside the loop stay unbound at the head
        for base, attr in fields:
            try:
                o = self.eval(base, st, mod, quiet=True)
            except VCError:
                continue
            if isinstance(o, PyObj) and (id(o), attr) not in done:
                done.add((id(o), attr))
                key = f"{_src(base)}.{attr}"
                if key in spec.shapes:
                    if not isinstance(spec.shapes[key], Same):
                        o.fields[attr] = fresh(spec.shapes[key], key, wf)
                elif attr in o.fields:
                    o.fields[attr] = fresh(shape_of(o.fields[attr]), key, wf)
        for e in objs:
            try:
                o = self.eval(e, st, mod, quiet=True)
            except VCError:
                continue
            key = _src(e)
            if isinstance(o, PyList) and id(o) not in done:
                done.add(id(o))
                if key in spec.shapes:
                    sh = spec.shapes[key]
                    if isinstance(sh, Same):
                        continue
                    o.v = fresh(sh, key, wf).v
                else:
                    try:
                        o.v = fresh(shape_of(o), key, wf).v
                    except Unsupported as ex:
                        raise VCError(f"havoc of list {key}: {ex} (give a shape in the sidecar)")
            elif isinstance(o, IntMap) and id(o) not in done:
                done.add(id(o))
                if isinstance(spec.shapes.get(key), Same):
                    continue
                n = fresh(spec.shapes.get(key) or shape_of(o), key, wf)
                o.dom, o.val, o.n, o.key_at, o.pos_of = n.dom, n.val, n.n, n.key_at, n.pos_of
        for path_fn, shape in spec.modifies:
            o, attr = path_fn(SpecEnvRaw(st.env))
            o.fields[attr] = fresh(shape, attr, wf)
        # frames of contract calls inside the loop body (method calls on objects known at the loop head)
        for node in ast.walk(ast.Module(body=list(stmt.body), type_ignores=[])):
            if not (isinstance(node, ast.Call) and isinstance(node.func, ast.Attribute)):
                continue
            try:
                recv = self.eval(node.func.value, st, mod, quiet=True)
            except (VCError, KeyError):
                continue
            if not isinstance(recv, PyObj):
                continue
            q = self.method_of(recv.cls, node.func.attr)
            if q is None:
                continue
            variants = [v for v in self.reg.contracts.values() if v.qual == q]
            for v in variants[:1] if len(variants) == 1 else variants:
                for path_fn, shape in v.assigns:
                    try:
                        tgt = path_fn(SpecEnvRaw({"self": recv}))
                    except (KeyError, AttributeError, VCError):
                        continue
                    if isinstance(tgt, tuple):
                        o, attr = tgt
                        if (id(o), attr) in done:
                            continue
                        done.add((id(o), attr))
                        key = f"{_src(node.func.value)}.{attr}"
                        if isinstance(spec.shapes.get(key), Same):
                            continue
                        if isinstance(shape, Same) and key not in spec.shapes:
                            done.discard((id(o), attr))
                            continue  # a write set given by path only (writes(...)) belongs to a body-verified variant: call sites use the caller views' frames
                        o.fields[attr] = fresh(spec.shapes.get(key) or shape, attr, wf, env=SpecEnvRaw({"self": recv}))
        st.pc.extend(wf)

    def _check_inv(self, st, spec, ordinal, phase, line, extra):
        fq = _vshort(self)
        E = SpecEnv(st.env, old=st.roots.get("old"), extra=extra)
        for name, fn in spec.invariants:
            goal = self._spec_bool(fn(E), f"invariant {name}")
            self.prove(st, f"{fq}/inv{ordinal}/{phase}/{name}", goal, "invariant", line)

    def _assume_inv(self, st, spec, extra):
        E = SpecEnv(st.env, old=st.roots.get("old"), extra=extra)
        for name, fn in spec.invariants:
            st.pc.append(self._spec_bool(fn(E), f"invariant {name}"))

    def _inv_loop(self, stmt, st, mod, spec, ordinal, it):
        """Invariant-cut loop.  For `for` loops the hidden counter `_k` counts completed iterations;
        the loop target names are bound (in invariants) to the *next* element."""
        fq = _vshort(self)
        line = stmt.lineno
        outs = []
        kname = f"_k{ordinal}"

        def bind_target(s, k, guard_known):
            # bind loop targets to element k (used in invariants for range/enumerate indices)
            if it is not None:
                self.assign(stmt.target, it.get(k), s, mod)

        # 1. invariant holds on entry (counter = 0)
        s0 = st
        pre_env = _clone(dict(st.env), {})
        pre = {"pre": _PreEnv(pre_env)}
        s0.env[kname] = 0  # ghost: number of completed iterations (for `while` loops too)
        if it is not None:
            try:
                bind_target(s0, 0, False)
            except VCError:
                pass
        self._check_inv(s0, spec, ordinal, "init", line, pre)
        if spec.peel:
            # 1b. the first iteration, executed from the entry state itself: either the loop is not entered (exit path), or the body runs once and must
            # re-establish the invariant with k = 1; the arbitrary iteration below then starts from k >= 1
            s_skip, s_first = s0.clone(), s0.clone()
            if it is not None:
                n0_ = to_z3(it.length)
                s_skip.pc.append(n0_ == 0)
                s_first.pc.append(n0_ > 0)
                bind_target(s_first, 0, True)
            else:
                c_sk = self.truth(self.eval(stmt.test, s_skip, mod), s_skip, stmt.test)
                s_skip.pc.append(z3.Not(c_sk) if not isinstance(c_sk, bool) else z3.BoolVal(not c_sk))
                c_fi = self.truth(self.eval(stmt.test, s_first, mod), s_first, stmt.test)
                s_first.pc.append(c_fi if not isinstance(c_fi, bool) else z3.BoolVal(c_fi))
            if self.feasible(s_skip.pc):
                s_skip.trace.append(f"{line}X0")
                if stmt.orelse:
                    outs.extend(self.exec_block(stmt.orelse, s_skip, mod))
                else:
                    outs.append(("next", s_skip, None))
            if self.feasible(s_first.pc):
                s_first.trace.append(f"{line}B0")
                for kind, s2, payload in self.exec_block(stmt.body, s_first, mod):
                    if kind in ("next", "continue"):
                        s2.env[kname] = 1
                        if it is not None:
                            try:
                                bind_target(s2, 1, False)
                            except VCError:
                                pass
                        self._check_inv(s2, spec, ordinal, "after-first-iteration", line, pre)
                    elif kind == "break":
                        outs.append(("next", s2, None))
                    else:
                        outs.append((kind, s2, payload))
        # 2. arbitrary iteration: havoc, assume invariant
        sh = s0.clone()
        extra_names = set()
        if it is not None:
            extra_names.add(kname)
        self._havoc(stmt, sh, mod, spec, extra_names=())
        if it is not None:
            k = z3.Int(uid(kname))
            sh.env[kname] = k
            n = it.length
            sh.pc.append(k >= (1 if spec.peel else 0))
            sh.pc.append(k <= to_z3(n))
            # re-evaluate the iterable getter against the havocked state?  The iterable was evaluated
            # before the loop (Python semantics: iter() once); lists mutated in the body are out of scope.
            try:
                bind_target(sh, k, False)
            except VCError:
                pass
        else:
            k = z3.Int(uid(kname))
            sh.env[kname] = k
            sh.pc.append(k >= (1 if spec.peel else 0))
        self._assume_inv(sh, spec, pre)
        dec0 = None
        # 3a. exit path
        s_exit = sh.clone()
        if it is not None:
            s_exit.pc.append(s_exit.env[kname] == to_z3(it.length))
            # Python leaves the target bound to the last element (if any iteration ran)
            kk = s_exit.env[kname]
            try:
                last = it.get(kk - 1)
                if isinstance(stmt.target, ast.Name) and stmt.target.id in st.env and is_scalar(st.env[stmt.target.id]) and is_scalar(last):
                    self.assign(stmt.target, ite_val(kk > 0, last, st.env[stmt.target.id]), s_exit, mod)
                else:
                    self.assign(stmt.target, last, s_exit, mod)
            except VCError:
                pass
            exit_ok = self.feasible(s_exit.pc)
            guard_states = [(s_exit, exit_ok)]
        else:
            c = self.truth(self.eval(stmt.test, s_exit, mod), s_exit, stmt.test)
            s_exit.pc.append(z3.Not(c) if not isinstance(c, bool) else z3.BoolVal(not c))
            guard_states = [(s_exit, self.feasible(s_exit.pc))]
        for s_e, ok in guard_states:
            if ok:
                s_e.trace.append(f"{line}X")
                if stmt.orelse:
                    outs.extend(self.exec_block(stmt.orelse, s_e, mod))
                else:
                    outs.append(("next", s_e, None))
        # 3b. body path
        s_b = sh
        if it is not None:
            s_b.pc.append(s_b.env[kname] < to_z3(it.length))
            bind_target(s_b, s_b.env[kname], True)
        else:
            c = self.truth(self.eval(stmt.test, s_b, mod), s_b, stmt.test)
            s_b.pc.append(c if not isinstance(c, bool) else z3.BoolVal(c))
        if spec.decreases is not None:
            dec0 = spec.decreases(SpecEnv(s_b.env, old=s_b.roots.get("old"), extra=pre))
        s_b.trace.append(f"{line}B")
        head_env = _clone(dict(s_b.env), {}) if spec.steps else None
        if self.feasible(s_b.pc):
            # cover: the loop body must be reachable under the invariant (else the invariant is vacuous)
            self.obls.append(Obl(f"{fq}/inv{ordinal}/body-reachable", list(s_b.pc), None, "cover", self.fn_stack[0][0], line, pathid(s_b)))
            for kind, s2, payload in self.exec_block(stmt.body, s_b, mod):
                if kind in ("next", "continue"):
                    s2.env[kname] = s2.env[kname] + 1
                    if it is not None:
                        try:
                            bind_target(s2, s2.env[kname], False)
                        except VCError:
                            pass
                    if spec.steps:
                        Es = SpecEnv(s2.env, old=s2.roots.get("old"), extra={**pre, "head": _PreEnv(head_env)})
                        for sname, sfn in spec.steps:
                            self.prove(s2, f"{fq}/step{ordinal}/{sname}", self._spec_bool(sfn(Es), f"step {sname}"), "step", line)
                    self._check_inv(s2, spec, ordinal, "preserved", line, pre)
                    if spec.decreases is not None:
                        dec1 = spec.decreases(SpecEnv(s2.env, old=s2.roots.get("old"), extra=pre))
                        self.prove(s2, f"{fq}/dec{ordinal}", z3.And(to_z3(dec1) < to_z3(dec0), to_z3(dec0) >= 0), "decreases", line)
                elif kind == "break":
                    outs.append(("next", s2, None))
                else:
                    outs.append((kind, s2, payload))
        else:
            raise VCError(f"{fq}: body of loop #{ordinal} unreachable under its invariant (vacuous invariant)")
        return outs

    # ---------------------------------------------------------------- assignment

    def assign(self, target, v, st, mod):
        if isinstance(target, ast.Name):
            st.env[target.id] = v
        elif isinstance(target, (ast.Tuple, ast.List)):
            items = self.unpack(v, len(target.elts), st, target)
            for t, x in zip(target.elts, items):
                self.assign(t, x, st, mod)
        elif isinstance(target, ast.Attribute):
            o = self.eval(target.value, st, mod)
            if isinstance(o, PyObj):
                o.fields[target.attr] = v
            else:
                raise Unsupported(f"attribute store on {type(o).__name__}")
        elif isinstance(target, ast.Subscript):
            o = self.eval(target.value, st, mod)
            idx = self.eval(target.slice, st, mod)
            self.store(o, idx, v, st, target)
        else:
            raise Unsupported(f"assignment target {type(target).__name__}")

    def unpack(self, v, n, st, node):
        if isinstance(v, tuple):
            if len(v) != n:
                raise VCError(f"line {node.lineno}: unpacking {len(v)} values into {n}")
            return list(v)
        if isinstance(v, PyList):
            ln = v.length()
            if isinstance(ln, int):
                if ln != n:
                    raise VCError(f"line {node.lineno}: unpacking {ln} values into {n}")
                return [v.get(k) for k in range(n)]
            self.safety(st, "unpack", ln == n, node)
            return [v.get(z3.IntVal(k)) for k in range(n)]
        if isinstance(v, Seq):
            if isinstance(v.length, int) and v.length == n:
                return [v.get(k) for k in range(n)]
        raise Unsupported(f"unpack of {type(v).__name__}")

    def store(self, o, idx, v, st, node):
        if isinstance(o, PyList) and isinstance(idx, tuple) and len(idx) == 2:
            if not (o.is_conc() and all(isinstance(r, PyList) for r in o.v)):
                raise Unsupported("two-index store into a value that is not a 2-D array")
            a, b = idx
            if isinstance(a, SliceVal) and a.full() and not isinstance(b, SliceVal):  # a[:, j] = column
                col = v if isinstance(v, PyList) else None
                if col is None or col.length() != len(o.v):
                    raise Unsupported("column store: value is not a vector of the right length")
                for k, r in enumerate(o.v):
                    self.store(r, b, col.get(k), st, node)
                return
            if not isinstance(a, SliceVal):
                row = self.load(o, a, st, node)
                return self.store(row, b, v, st, node)
            raise Unsupported("2-D store of this form")
        if isinstance(o, PyList) and isinstance(idx, SliceVal):
            # a[lo:hi] = vector / scalar (numpy: in place, same length)
            n = o.length()
            lo = 0 if idx.lo is None else idx.lo
            hi = n if idx.hi is None else idx.hi
            if not (isinstance(lo, int) and isinstance(hi, int) and isinstance(n, int) and o.is_conc()):
                raise Unsupported("slice store with symbolic bounds")
            lo, hi = (lo + n if lo < 0 else lo), (hi + n if hi < 0 else hi)
            if isinstance(v, PyList):
                if v.length() != hi - lo:
                    self.safety(st, "index-store", False, node)
                    return
                for k in range(lo, hi):
                    o.v[k] = v.get(k - lo)
            elif is_scalar(v):
                for k in range(lo, hi):
                    o.v[k] = v
            else:
                raise Unsupported("slice store of this value")
            return
        if isinstance(o, PyList):
            n = o.length()
            if isinstance(idx, int) and o.is_conc():
                if not -len(o.v) <= idx < len(o.v):
                    self.safety(st, "index-store", False, node)
                    return
                o.v[idx] = v
                return
            i = self.norm_index(idx, n, st, node, "index-store")
            if o.is_conc() and not is_z3(i):
                o.v[i] = v
                return
            if o.is_conc() and all(is_scalar(x) or isinstance(x, tuple) for x in o.v):
                o.v = [ite_val(i == k, v, x) for k, x in enumerate(o.v)]
                return
            s = o.as_seq()
            iz = to_z3(i)
            o.v = Seq(s.length, lambda j, s=s, iz=iz, v=v: _ite_lazy(to_z3(j) == iz, lambda: v, lambda: s.get(j)), np=o.np)
            return
        if isinstance(o, PyDict):
            if is_z3(idx):
                # a symbolic key: the same term overwrites its entry; a new term is a new entry only if it provably differs from every symbolic key already there
                # (concrete keys of another type - strings - cannot collide with a number)
                if _ZKey(idx) in o.d:
                    o.d[_ZKey(idx)] = v
                    return
                for k in o.d.keys():
                    if isinstance(k, _ZKey) and not self.provable(st, k.e != idx) or isinstance(k, (int, float, Fraction)) and not self.provable(st, idx != k):
                        raise Unsupported("symbolic dict key that may coincide with an existing key")
                o.d[_ZKey(idx)] = v
                return
            o.d[idx] = v
            return
        if isinstance(o, IntMap):
            k = to_z3(idx)
            dom, val, n, key_at, pos_of = o.dom, o.val, o.n, o.key_at, o.pos_of
            had = dom(k)
            o.dom = lambda j: z3.Or(to_z3(j) == k, dom(j))
            o.val = lambda j: _ite_lazy(to_z3(j) == k, lambda: v, lambda: val(j))
            o.n = z3.If(had, to_z3(n), to_z3(n) + 1) if not isinstance(n, int) else z3.If(had, z3.IntVal(n), z3.IntVal(n + 1))
            o.key_at = lambda p: z3.If(z3.And(z3.Not(had), to_z3(p) == to_z3(n)), k, key_at(p))
            o.pos_of = lambda j: z3.If(z3.And(z3.Not(had), to_z3(j) == k), to_z3(n), pos_of(j))
            return
        raise Unsupported(f"subscript store on {type(o).__name__}")

    def norm_index(self, idx, n, st, node, what="index"):
        """Python index normalisation (negative wraps) with an in-range safety obligation."""
        if isinstance(idx, bool) or not (is_int_valued(idx)):
            if is_z3(idx) and z3.is_real(idx):
                raise Unsupported("real-valued index")
            raise Unsupported(f"index of type {type(idx).__name__}")
        if isinstance(idx, int) and isinstance(n, int):
            if not -n <= idx < n:
                self.safety(st, what, False, node)
                return 0
            return idx % n if idx < 0 else idx
        iz, nz = to_z3(idx), to_z3(n)
        if isinstance(idx, int):
            if idx >= 0:
                self.safety(st, what, idx < nz, node)
                return idx
            self.safety(st, what, -idx <= nz, node)
            return nz + idx
        if not self.quiet and self.provable(st, iz >= 0, timeout_ms=300):
            self.safety(st, what, iz < nz, node)
            return iz  # provably non-negative on this path: no wrap-around term
        self.safety(st, what, z3.And(iz >= -nz, iz < nz), node)
        return z3.If(iz < 0, iz + nz, iz)

    # ---------------------------------------------------------------- expressions

    def eval(self, node, st, mod, quiet=False):
        m = getattr(self, "expr_" + type(node).__name__, None)
        if m is None:
            raise Unsupported(f"expression {type(node).__name__} at line {getattr(node, 'lineno', '?')}")
        if quiet:
            n0 = len(self.obls)
            pc0 = len(st.pc)
            try:
                return m(node, st, mod)
            finally:
                del self.obls[n0:]
                del st.pc[pc0:]
        return m(node, st, mod)

    def expr_Constant(self, node, st, mod):
        v = node.value
        if isinstance(v, float):
            return frac_of_float(v)
        return v

    def expr_Name(self, node, st, mod):
        if node.id in st.env:
            return st.env[node.id]
        return self.global_name(node.id, mod, node)

    def expr_JoinedStr(self, node, st, mod):
        # f-strings are opaque string values (they only feed field descriptors); their parts are not evaluated
        return Opaque("str", {})

    def expr_Tuple(self, node, st, mod):
        out = []
        for e in node.elts:
            if isinstance(e, ast.Starred):
                v = self.eval(e.value, st, mod)
                out.extend(self.concrete_items(v, e))
            else:
                out.append(self.eval(e, st, mod))
        return tuple(out)

    def expr_List(self, node, st, mod):
        out = []
        for e in node.elts:
            if isinstance(e, ast.Starred):
                out.extend(self.concrete_items(self.eval(e.value, st, mod), e))
            else:
                out.append(self.eval(e, st, mod))
        return PyList(out)

    def expr_Dict(self, node, st, mod):
        if not node.keys and self._opt("empty_dict_is_intmap"):
            from .values import EmptyMap

            return fresh(EmptyMap(), "dict", [])
        d = PyDict()
        for k, v in zip(node.keys, node.values):
            if k is None:
                raise Unsupported("dict unpacking")
            kk = self.eval(k, st, mod)
            d.d[kk] = self.eval(v, st, mod)
        return d

    def concrete_items(self, v, node):
        if isinstance(v, tuple):
            return list(v)
        if isinstance(v, PyList) and isinstance(v.length(), int):
            return [v.get(k) for k in range(v.length())]
        if isinstance(v, Seq) and isinstance(v.length, int):
            return [v.get(k) for k in range(v.length)]
        raise Unsupported(f"line {node.lineno}: needs a concrete-length iterable")

    def expr_UnaryOp(self, node, st, mod):
        v = self.eval(node.operand, st, mod)
        if isinstance(node.op, ast.Not):
            t = self.truth(v, st, node)
            return (not t) if isinstance(t, bool) else z3.Not(t)
        if isinstance(node.op, ast.USub):
            if isinstance(v, Inf):
                return -v
            if isinstance(v, PyList) and v.np:
                return libmodels.np_map(self, v, lambda x: self.binop(ast.Sub(), 0, x, st, node))
            if isinstance(v, bool):
                v = int(v)
            return -v if not is_z3(v) else -v
        if isinstance(node.op, ast.UAdd):
            return v
        raise Unsupported("unary op")

    def expr_BoolOp(self, node, st, mod):
        # short-circuit semantics: later operands are evaluated under the assumption that they are reached
        vals = []
        conds = []
        pc0 = len(st.pc)
        is_and = isinstance(node.op, ast.And)
        result_known = None
        for e in node.values:
            v = self.eval(e, st, mod)
            t = self.truth(v, st, e)
            vals.append((v, t))
            if isinstance(t, bool):
                if t != is_and:  # and: False short-circuits ; or: True short-circuits
                    result_known = len(vals) - 1
                    break
                continue
            st.pc.append(t if is_and else z3.Not(t))
        added = st.pc[pc0:]
        del st.pc[pc0:]
        # obligations proved while evaluating later operands were assumed under the guards; re-add guarded
        # (goals assumed inside are implied by guards -> safe to drop)
        # compute value: Python returns an operand, we only support boolean-valued use
        ts = [t for _, t in vals]
        if all(isinstance(t, bool) for t in ts):
            if is_and:
                for v, t in vals:
                    if not t:
                        return v
                return vals[-1][0]
            for v, t in vals:
                if t:
                    return v
            return vals[-1][0]
        zs = [z3.BoolVal(t) if isinstance(t, bool) else t for t in ts]
        if any(not (isinstance(v, bool) or (is_z3(v) and z3.is_bool(v))) for v, _ in vals):
            # Python returns an operand, not a truth value: `x or default`, `a and b` over numbers (or None) give the operand that decided
            if not all(is_scalar(v) or v is None for v, _ in vals):
                raise Unsupported(f"line {getattr(node, 'lineno', '?')}: and/or over non-scalar operands used as a value")
            res = vals[-1][0]
            for (v, _), z in zip(reversed(vals[:-1]), reversed(zs[:-1])):
                res = ite_val(z, res, v) if is_and else ite_val(z, v, res)
            return res
        return z3.And(*zs) if is_and else z3.Or(*zs)

    def expr_IfExp(self, node, st, mod):
        c = self.truth(self.eval(node.test, st, mod), st, node.test)
        if isinstance(c, bool):
            return self.eval(node.body if c else node.orelse, st, mod)
        self._note_discont(node.test, c)
        st.pc.append(c)
        try:
            a = self.eval(node.body, st, mod)
        finally:
            st.pc.pop()
        # obligations assumed in the arm are dropped with the guard
        st.pc.append(z3.Not(c))
        try:
            b = self.eval(node.orelse, st, mod)
        finally:
            st.pc.pop()
        return ite_val(c, a, b)

    def expr_Compare(self, node, st, mod):
        left = self.eval(node.left, st, mod)
        out = []
        for op, rn in zip(node.ops, node.comparators):
            right = self.eval(rn, st, mod)
            out.append(self.compare(op, left, right, st, node))
            left = right
        if len(out) == 1:
            return out[0]
        if all(isinstance(x, bool) for x in out):
            return all(out)
        return z3.And(*[z3.BoolVal(x) if isinstance(x, bool) else x for x in out])

    def compare(self, op, a, b, st, node):
        if isinstance(op, (ast.Is, ast.IsNot)):
            if a is None or b is None:
                r = a is None and b is None
            elif isinstance(a, (PyObj, PyList, PyDict)) or isinstance(b, (PyObj, PyList, PyDict)):
                r = a is b
            elif isinstance(a, EnumVal) or isinstance(b, EnumVal):
                return self.compare(ast.Eq() if isinstance(op, ast.Is) else ast.NotEq(), a, b, st, node)
            elif isinstance(a, Builtin) and isinstance(b, Builtin):
                r = a.name == b.name
            elif isinstance(a, Opaque) and isinstance(b, Opaque) and "id" in a.attrs and "id" in b.attrs:
                # abstract references named by an identity (candidate fields): the same object iff the same identity
                return self.compare(ast.Eq() if isinstance(op, ast.Is) else ast.NotEq(), a.attrs["id"], b.attrs["id"], st, node)
            elif isinstance(b, bool) and (isinstance(a, bool) or (is_z3(a) and z3.is_bool(a))):
                # `x is True` / `x is False` with x a bool: the two bool singletons are compared by value
                return self.compare(ast.Eq() if isinstance(op, ast.Is) else ast.NotEq(), a, b, st, node)
            else:
                raise Unsupported("`is` on scalars")
            return r if isinstance(op, ast.Is) else not r
        if isinstance(op, (ast.In, ast.NotIn)):
            r = self.contains(b, a, st, node)
            if isinstance(op, ast.In):
                return r
            return (not r) if isinstance(r, bool) else z3.Not(r)
        if isinstance(op, (ast.Eq, ast.NotEq)):
            r = self.equals(a, b)
            if isinstance(op, ast.Eq):
                return r
            return (not r) if isinstance(r, bool) else z3.Not(r)
        # ordering
        if isinstance(a, Inf) or isinstance(b, Inf):
            return _cmp_inf(op, a, b)
        if isinstance(a, bool):
            a = int(a)
        if isinstance(b, bool):
            b = int(b)
        if is_conc_num(a) and is_conc_num(b):
            return {ast.Lt: a < b, ast.LtE: a <= b, ast.Gt: a > b, ast.GtE: a >= b}[type(op)]
        if isinstance(a, tuple) and isinstance(b, tuple):
            return _lex(self, op, a, b, st, node)
        if not (is_num(a) and is_num(b)):
            raise Unsupported(f"ordering of {type(a).__name__} and {type(b).__name__}")
        za, zb = _arith_pair(a, b)
        return {ast.Lt: za < zb, ast.LtE: za <= zb, ast.Gt: za > zb, ast.GtE: za >= zb}[type(op)]

    def equals(self, a, b):
        if isinstance(a, EnumVal) and isinstance(b, EnumVal):
            return a == b
        if isinstance(a, EnumVal) and is_num(b):
            a = a.value
        if isinstance(b, EnumVal) and is_num(a):
            b = b.value
        if isinstance(a, Inf) or isinstance(b, Inf):
            if isinstance(a, Inf) and isinstance(b, Inf):
                return a == b
            return False  # finite reals are never infinite
        if a is None or b is None:
            return a is None and b is None
        if isinstance(a, str) or isinstance(b, str):
            if isinstance(a, str) and isinstance(b, str):
                return a == b
            if isinstance(a, Opaque) or isinstance(b, Opaque):
                # a string whose content the contract leaves open: either outcome is possible
                return z3.Bool(uid("streq"))
            return False
        if isinstance(a, bool) and isinstance(b, bool):
            return a == b
        if isinstance(a, bool):
            a = int(a) if is_num(b) and not (is_z3(b) and z3.is_bool(b)) else a
        if isinstance(b, bool):
            b = int(b) if is_num(a) and not (is_z3(a) and z3.is_bool(a)) else b
        if is_conc_num(a) and is_conc_num(b):
            return a == b
        if isinstance(a, tuple) and isinstance(b, tuple):
            if len(a) != len(b):
                return False
            rs = [self.equals(x, y) for x, y in zip(a, b)]
            if all(isinstance(r, bool) for r in rs):
                return all(rs)
            return z3.And(*[z3.BoolVal(r) if isinstance(r, bool) else r for r in rs])
        if isinstance(a, PyList) and isinstance(b, PyList) and a.is_conc() and b.is_conc():
            return self.equals(tuple(a.v), tuple(b.v))
        if is_scalar(a) and is_scalar(b):
            za, zb = to_z3(a), to_z3(b)
            if z3.is_bool(za) and z3.is_bool(zb):
                return za == zb
            if z3.is_bool(za) or z3.is_bool(zb):
                raise Unsupported("== between bool and number")
            za, zb = _arith_pair(za, zb)
            return za == zb
        if isinstance(a, (PyObj, Opaque)) or isinstance(b, (PyObj, Opaque)):
            if a is b:
                return True
            raise Unsupported("== on objects")
        raise Unsupported(f"== of {type(a).__name__} and {type(b).__name__}")

    def contains(self, container, x, st, node):
        if isinstance(container, tuple):
            items = list(container)
        elif isinstance(container, PyList) and container.is_conc():
            items = container.v
        elif isinstance(container, PyList):
            # membership in a symbolic list: existential over positions
            s = container.as_seq()
            j = z3.Int(uid("j"))
            e = self.equals(s.get(j), x)
            return z3.Exists([j], z3.And(j >= 0, j < to_z3(s.length), e if not isinstance(e, bool) else z3.BoolVal(e)))
        elif isinstance(container, PyDict):
            if is_z3(x):
                raise Unsupported("symbolic key membership in concrete dict")
            return x in container.d
        elif isinstance(container, IntMap):
            return container.dom(to_z3(x))
        elif isinstance(container, Opaque) and container.kind == "json":
            return z3.Bool(uid("json_has"))
        else:
            raise Unsupported(f"`in` on {type(container).__name__}")
        rs = [self.equals(x, y) for y in items]
        if all(isinstance(r, bool) for r in rs):
            return any(rs)
        return z3.Or(*[z3.BoolVal(r) if isinstance(r, bool) else r for r in rs])

    def truth(self, v, st, node):
        return to_bool(v)

    def _note_discont(self, node, c):
        try:
            txt = ast.unparse(node)
        except Exception:
            txt = "?"
        self.discont.append((self.fn_stack[0][0], getattr(node, "lineno", 0), txt))

    def expr_BinOp(self, node, st, mod):
        a = self.eval(node.left, st, mod)
        b = self.eval(node.right, st, mod)
        return self.binop(node.op, a, b, st, node)

    def binop(self, op, a, b, st, node):
        # sequences
        if isinstance(a, PyList) or isinstance(b, PyList):
            return libmodels.list_binop(self, st, op, a, b, node)
        if isinstance(a, str) or isinstance(b, str) or isinstance(a, Opaque) or isinstance(b, Opaque):
            if isinstance(a, str) and isinstance(b, str) and isinstance(op, ast.Add):
                return a + b
            if isinstance(a, str) and isinstance(b, int) and isinstance(op, ast.Mult):
                return a * b
            return Opaque("str", {})
        if isinstance(a, tuple) and isinstance(b, tuple) and isinstance(op, ast.Add):
            return a + b
        if isinstance(a, bool):
            a = int(a)
        if isinstance(b, bool):
            b = int(b)
        if isinstance(a, Inf) or isinstance(b, Inf):
            raise Unsupported("arithmetic on inf")
        if not (is_num(a) and is_num(b)):
            raise Unsupported(f"binary {type(op).__name__} on {type(a).__name__}, {type(b).__name__}")
        conc = is_conc_num(a) and is_conc_num(b)
        t = type(op)
        if t is ast.Add:
            return a + b if conc else _arith(a, b, lambda x, y: x + y)
        if t is ast.Sub:
            return a - b if conc else _arith(a, b, lambda x, y: x - y)
        if t is ast.Mult:
            if conc:
                return a * b
            if is_z3(a) and is_z3(b) and self._opt("abstract_mul") and not (z3.is_rational_value(a) or z3.is_int_value(a) or z3.is_rational_value(b) or z3.is_int_value(b)):
                self.used_models.add("products of two symbolic reals abstracted as an uninterpreted function MUL(x,y) in this function (sound: only loses facts)")
                ra, rb = to_real(a), to_real(b)
                m = MULF(ra, rb)
                if ra.eq(rb):
                    st.pc.append(m >= 0)  # a square is non-negative
                elif not self.quiet and self.provable(st, z3.And(ra > 0, rb > 0), timeout_ms=300):
                    st.pc.append(m > 0)  # product of two positive factors (sign facts are the only ones kept about MUL)
                return m
            return _arith(a, b, lambda x, y: x * y)
        if t is ast.Div:
            if conc:
                if b == 0:
                    self.safety(st, "div", False, node)
                    return Fraction(0)
                r = Fraction(a) / Fraction(b)
                return r
            zb = to_real(b)
            self.safety(st, "div", zb != 0, node)
            return to_real(a) / zb
        if t is ast.FloorDiv:
            if conc and isinstance(a, int) and isinstance(b, int):
                if b == 0:
                    self.safety(st, "div", False, node)
                    return 0
                return a // b
            if is_int_valued(a) and is_int_valued(b):
                if isinstance(b, int) and b > 0:
                    return to_z3(a) / to_z3(b)  # z3 int div = floor for positive divisor
                zb = to_z3(b)
                self.safety(st, "div", zb != 0, node)
                za = to_z3(a)
                return z3.If(zb > 0, za / zb, -((-za) / (-zb)) if False else z3.ToInt(z3.ToReal(za) / z3.ToReal(zb)))
            zb = to_real(b)
            self.safety(st, "div", zb != 0, node)
            return z3.ToReal(z3.ToInt(to_real(a) / zb))
        if t is ast.Mod:
            if conc and isinstance(a, int) and isinstance(b, int):
                if b == 0:
                    self.safety(st, "div", False, node)
                    return 0
                return a % b
            if is_int_valued(a) and is_int_valued(b):
                if isinstance(b, int) and b > 0:
                    return to_z3(a) % to_z3(b)
                zb = to_z3(b)
                self.safety(st, "div", zb != 0, node)
                self.safety(st, "mod-positive-divisor", zb > 0, node)
                return to_z3(a) % zb
            zb = to_real(b)
            self.safety(st, "div", zb != 0, node)
            self.safety(st, "mod-positive-divisor", zb > 0, node)
            za = to_real(a)
            return za - zb * z3.ToReal(z3.ToInt(za / zb))
        if t is ast.Pow:
            if isinstance(b, int) and 0 <= b <= 4:
                if conc:
                    return a**b
                za = to_z3(a)
                if b == 0:
                    return 1
                r = za
                for _ in range(b - 1):
                    r = self.binop(ast.Mult(), r, za, st, node)
                return r
            if conc and isinstance(b, int):
                return Fraction(a) ** b
            if isinstance(b, Fraction) and b == Fraction(1, 2):
                return libmodels.m_sqrt(self, st, [a], {}, node)
            raise Unsupported("general power")
        raise Unsupported(f"binary operator {t.__name__}")

    def expr_Subscript(self, node, st, mod):
        o = self.eval(node.value, st, mod)
        if isinstance(node.slice, ast.Slice):
            lo = self.eval(node.slice.lower, st, mod) if node.slice.lower is not None else None
            hi = self.eval(node.slice.upper, st, mod) if node.slice.upper is not None else None
            if node.slice.step is not None:
                raise Unsupported("slice step")
            return libmodels.do_slice(self, st, o, lo, hi, node)
        idx = self.eval(node.slice, st, mod)
        return self.load(o, idx, st, node)

    def expr_Slice(self, node, st, mod):
        if node.step is not None:
            raise Unsupported("slice step")
        return SliceVal(self.eval(node.lower, st, mod) if node.lower is not None else None, self.eval(node.upper, st, mod) if node.upper is not None else None)

    def load(self, o, idx, st, node):
        if isinstance(o, PyList) and isinstance(idx, tuple) and len(idx) == 2:
            # two-dimensional numpy array = list of rows (concrete number of rows)
            if not (o.is_conc() and all(isinstance(r, PyList) for r in o.v)):
                raise Unsupported("two-index subscript of a value that is not a 2-D array")
            a, b = idx
            if isinstance(a, SliceVal):
                if not a.full():
                    raise Unsupported("row slice of a 2-D array")
                if isinstance(b, SliceVal):  # a[:, lo:hi]: numpy gives a view; the engine gives a copy (listed: the tool only reads through such views)
                    self.used_models.add("numpy 2-D slice a[:, lo:hi] as a copy (views are only read in the verified code)")
                    out = PyList([libmodels.do_slice(self, st, r, b.lo, b.hi, node) for r in o.v], np=True)
                    return out
                return PyList([self.load(r, b, st, node) for r in o.v], np=True)
            row = self.load(o, a, st, node)
            if isinstance(b, SliceVal):
                return libmodels.do_slice(self, st, row, b.lo, b.hi, node)
            return self.load(row, b, st, node)
        if isinstance(o, (PyList,)):
            n = o.length()
            i = self.norm_index(idx, n, st, node)
            return o.get(i)
        if isinstance(o, tuple):
            if isinstance(idx, int):
                if not -len(o) <= idx < len(o):
                    self.safety(st, "index", False, node)
                    return o[0] if o else None
                return o[idx]
            i = self.norm_index(idx, len(o), st, node)
            return select_conc(list(o), i)
        if isinstance(o, Seq):
            i = self.norm_index(idx, o.length, st, node)
            return o.get(i)
        if isinstance(o, PyDict):
            if is_z3(idx):
                for kk, vv in o.d.items():
                    if is_z3(kk) and kk.eq(idx):
                        return vv
                raise Unsupported("symbolic key into a concrete-key dict")
            if idx not in o.d:
                self.safety(st, "key", False, node)
                return None
            return o.d[idx]
        if isinstance(o, IntMap):
            k = to_z3(idx)
            self.safety(st, "key", o.dom(k), node)
            return o.val(k)
        if isinstance(o, UFun) and "getitem" in o.attrs:
            return o.attrs["getitem"](idx)
        if isinstance(o, Opaque) and o.kind == "field" and "len" in o.attrs:
            # element of an abstract candidate field: an abstract point (in range is a safety obligation)
            n = o.attrs["len"]
            self.norm_index(idx, n, st, node)
            return Opaque("point", {"of": o.attrs.get("id"), "i": idx})
        if isinstance(o, Opaque) and o.kind == "json":
            return Opaque("json", {})
        raise Unsupported(f"subscript of {type(o).__name__}")

    def expr_Attribute(self, node, st, mod):
        o = self.eval(node.value, st, mod)
        return self.getattr(o, node.attr, st, mod, node)

    def getattr(self, o, attr, st, mod, node):
        if isinstance(o, PyObj):
            if attr in o.fields:
                return o.fields[attr]
            q = self.method_of(o.cls, attr)
            if q:
                _, fn = self.prog.function(q)
                if any(isinstance(d, ast.Name) and d.id == "staticmethod" for d in fn.decorator_list):
                    return FuncRef(q)
                return BoundMethod(o, q)
            # a method inherited from a class outside the repository (pygfunction bases): usable only through an (assumed) sidecar contract
            ext = f"{o.cls}.{attr}"
            if any(c.qual == ext for c in self.reg.contracts.values()):
                return BoundMethod(o, ext)
            raise VCError(f"line {getattr(node, 'lineno', '?')}: object of class {o.cls} has no field/method {attr} (shape in the sidecar is incomplete)")
        if isinstance(o, Builtin):
            return Builtin(f"{o.name}.{attr}")
        if isinstance(o, str) and attr in ("upper", "lower", "strip"):
            return libmodels.UFunM(lambda ex_, st_, args, kwargs, node_, o=o, attr=attr: getattr(o, attr)())
        if isinstance(o, _SuperRef):
            cd = self.prog.module(o.module).classes[o.cls]
            for b in cd.bases:
                if isinstance(b, ast.Name):
                    q = self.prog.resolve_method(o.module, b.id, attr)
                    if q:
                        return BoundMethod(o.obj, q)
                    # a base class outside the repository: callable only through an assumed contract on "<its module>:<Class>.<method>"
                    imp = self.prog.module(o.module).imports.get(b.id)
                    if imp and imp[0] == "from":
                        q = f"{imp[1]}:{imp[2]}.{attr}"
                        if any(c.qual == q for c in self.reg.contracts.values()):
                            return BoundMethod(o.obj, q)
            raise Unsupported(f"super().{attr}")
        if isinstance(o, ModuleRef):
            return libmodels.module_attr(self, o, attr, mod)
        if isinstance(o, ClassRef):
            en = self.enum_member(o, attr)
            if en is not None:
                return en
            q = self.prog.resolve_method(o.module, o.name, attr)
            if q:
                return FuncRef(q)
            raise Unsupported(f"class attribute {o.name}.{attr}")
        if isinstance(o, EnumVal):
            if attr == "name":
                return o.name
            if attr == "value":
                return o.value
        if isinstance(o, (PyList, tuple, PyDict, IntMap, Seq)):
            return libmodels.container_attr(self, st, o, attr, node)
        if isinstance(o, Opaque):
            if attr in o.attrs:
                return o.attrs[attr]
            return libmodels.opaque_attr(self, st, o, attr, node)
        if isinstance(o, UFun):
            if attr in o.attrs:
                return o.attrs[attr]
        if o is None:
            self.safety(st, "none-attr", False, node)
            return None
        if is_scalar(o):
            return libmodels.scalar_attr(self, st, o, attr, node)
        raise Unsupported(f"attribute {attr} of {type(o).__name__}")

    def method_of(self, cls, attr):
        """cls is 'module:Class'."""
        if ":" not in cls:
            return None
        m, c = cls.split(":")
        return self.prog.resolve_method(m, c, attr)

    def enum_members(self, cref):
        """[(name, value)] of an Enum / IntEnum class of the repository (explicit integer values and auto()), else None; second item: is it an IntEnum"""
        m = self.prog.module(cref.module)
        cd = m.classes.get(cref.name)
        if cd is None:
            return None, False
        bases = [b.id for b in cd.bases if isinstance(b, ast.Name)]
        if "Enum" not in bases and "IntEnum" not in bases:
            return None, False
        out, last = [], 0
        for s in cd.body:
            if isinstance(s, ast.Assign) and isinstance(s.targets[0], ast.Name):
                if isinstance(s.value, ast.Constant) and isinstance(s.value.value, int):
                    last = s.value.value
                else:
                    last = last + 1
                out.append((s.targets[0].id, last))
        return out, "IntEnum" in bases

    def enum_member(self, cref, attr):
        members, is_int = self.enum_members(cref)
        if members is None:
            return None
        for name, val in members:
            if name == attr:
                return val if is_int else EnumVal(cref.name, attr, val)
        return None

    def expr_Lambda(self, node, st, mod):
        return Closure(node, st.env, mod)

    def expr_NamedExpr(self, node, st, mod):
        v = self.eval(node.value, st, mod)
        self.assign(node.target, v, st, mod)
        return v

    def expr_Starred(self, node, st, mod):
        raise Unsupported("starred expression outside call/display")

    def expr_ListComp(self, node, st, mod):
        return libmodels.comprehension(self, st, mod, node)

    def expr_GeneratorExp(self, node, st, mod):
        return libmodels.comprehension(self, st, mod, node)

    # ---------------------------------------------------------------- names

    def global_name(self, name, mod, node):
        key = (mod.name, name)
        if key in self.const_cache:
            return self.const_cache[key]
        v = self._global_name(name, mod, node)
        if not isinstance(v, (PyList, PyDict, PyObj)):
            self.const_cache[key] = v
        return v

    def _global_name(self, name, mod, node):
        if name in mod.functions and "." not in name:
            return FuncRef(f"{mod.name}:{name}")
        if name in mod.classes:
            return ClassRef(mod.name, name)
        if name in mod.imports:
            imp = mod.imports[name]
            if imp[0] == "module":
                return ModuleRef(imp[1])
            _, src, orig = imp
            if self.prog.has_module(src):
                return self._global_name(orig, self.prog.module(src), node)
            return libmodels.lib_name(self, src, orig)
        if name in mod.assigns:
            st = State()
            return self.eval(mod.assigns[name], st, mod)
        if name == "__name__":
            return mod.name
        if name == "__file__":
            return Opaque("path", {"id": z3.Int(uid("path"))})
        if name in libmodels.BUILTINS:
            return Builtin(name)
        if name in ("ValueError", "TypeError", "KeyError", "IndexError", "Exception", "RuntimeError", "ZeroDivisionError"):
            return ClassRef("builtins", name)
        raise VCError(f"line {getattr(node, 'lineno', '?')}: unknown name {name}")

    # ---------------------------------------------------------------- iteration

    def iter_seq(self, v, st, node) -> Seq:
        if isinstance(v, Seq):
            return v
        if isinstance(v, PyList):
            return v.as_seq()
        if isinstance(v, tuple):
            items = list(v)
            return Seq(len(items), lambda i: items[i] if isinstance(i, int) else select_conc(items, i))
        if isinstance(v, PyDict):
            keys = list(v.d.keys())
            return Seq(len(keys), lambda i: keys[i] if isinstance(i, int) else select_conc(keys, i))
        if isinstance(v, IntMap):
            return Seq(v.n, lambda p: v.key_at(to_z3(p)))
        raise Unsupported(f"line {getattr(node, 'lineno', '?')}: iteration over {type(v).__name__}")

    # ---------------------------------------------------------------- calls

    def expr_Call(self, node, st, mod):
        f = self.eval(node.func, st, mod)
        if isinstance(f, Builtin) and f.name == "zip" and len(node.args) == 1 and isinstance(node.args[0], ast.Starred) and not node.keywords:
            v = self.eval(node.args[0].value, st, mod)
            sq = self.iter_seq(v, st, node)
            if not isinstance(sq.length, int):
                return libmodels.zip_star(self, st, sq, node)
        args = []
        for a in node.args:
            if isinstance(a, ast.Starred):
                args.extend(self.concrete_items(self.eval(a.value, st, mod), a))
            else:
                args.append(self.eval(a, st, mod))
        kwargs = {}
        for k in node.keywords:
            if k.arg is None:
                d = self.eval(k.value, st, mod)  # f(**d) with a dict of literal string keys
                if not isinstance(d, PyDict) or not all(isinstance(kk, str) for kk in d.d):
                    raise Unsupported("**kwargs of a value that is not a dict with literal string keys")
                kwargs.update(d.d)
                continue
            kwargs[k.arg] = self.eval(k.value, st, mod)
        return self.call(f, args, kwargs, st, mod, node)

    def call(self, f, args, kwargs, st, mod, node):
        if isinstance(f, Builtin) and f.name == "super" and not args:
            qual = self.fn_stack[-1][0]
            m, rest = qual.split(":")
            cls = rest.split(".")[0]
            fm, fnode = self.prog.function(qual)
            selfname = fnode.args.args[0].arg
            return _SuperRef(st.env[selfname], fm.name, cls)
        if isinstance(f, Builtin):
            return libmodels.call_builtin(self, st, f.name, args, kwargs, node, mod)
        if isinstance(f, BoundMethod):
            return self.call_function(f.qual, [f.obj] + args, kwargs, st, node)
        if isinstance(f, FuncRef):
            return self.call_function(f.qual, args, kwargs, st, node)
        if isinstance(f, Closure):
            return self.call_closure(f, args, kwargs, st, node)
        if isinstance(f, libmodels.UFunM):
            return f.impl(self, st, args, kwargs, node)
        if isinstance(f, UFun):
            if f.on_call is not None:
                f.on_call(self, st, args, node)
            if len(args) == 1 and isinstance(args[0], PyList) and args[0].np:
                return libmodels.np_map(self, args[0], lambda x: f.fn(x))  # interp1d objects map over arrays
            return f.fn(*args)
        if isinstance(f, ClassRef):
            return libmodels.construct(self, st, f, args, kwargs, node, mod)
        if f is None and st.pc and z3.is_false(st.pc[-1]):
            return None  # the method of None: the attribute access already ended this path (AttributeError); nothing is called
        raise Unsupported(f"call of {type(f).__name__} at line {getattr(node, 'lineno', '?')}")

    def pure_call(self, f, args, st, node=None):
        """Value of calling f(*args) without keeping its side effects (heap restored afterwards).
        Facts learned during the call (callee postconditions on pure terms) stay in the path condition."""
        if isinstance(f, UFun) and not isinstance(f, libmodels.UFunM):
            return f.fn(*args)
        snap = _snapshot([st.env, st.roots, f, list(args)])
        saved_env = st.env
        forks0 = len(st.forks)
        self.quiet += 1
        try:
            return self.call(f, list(args), {}, st, None, node)
        finally:
            self.quiet -= 1
            st.env = saved_env
            del st.forks[forks0:]
            _restore(snap)

    def bind_args(self, fnode, args, kwargs, st_for_defaults, fmod, skip_missing=False):
        a = fnode.args
        pos = [x.arg for x in a.posonlyargs + a.args]
        env = {}
        if len(args) > len(pos):
            if a.vararg is None:
                raise VCError(f"too many positional arguments for {getattr(fnode, 'name', 'lambda')}")
            env[a.vararg.arg] = tuple(args[len(pos):])
            args = args[: len(pos)]
        for n, v in zip(pos, args):
            env[n] = v
        for k, v in kwargs.items():
            if k in env:
                raise VCError(f"duplicate argument {k}")
            env[k] = v
        defaults = [None] * (len(pos) - len(a.defaults)) + list(a.defaults)
        for n, d in zip(pos, defaults):
            if n not in env:
                if d is None:
                    if skip_missing:
                        continue
                    raise VCError(f"missing argument {n} for {getattr(fnode, 'name', 'lambda')}")
                env[n] = self.eval(d, State(), fmod)
        for x, d in zip(a.kwonlyargs, a.kw_defaults):
            if x.arg not in env:
                env[x.arg] = self.eval(d, State(), fmod)
        return env

    def call_closure(self, f: Closure, args, kwargs, st, node):
        fnode = f.node
        if isinstance(fnode, ast.FunctionDef):
            # a nested def may carry a sidecar contract named "<enclosing qual>.<locals>.<name>" (then it is called by contract, like any other callee)
            nested = f"{self.fn_stack[-1][0]}.<locals>.{fnode.name}"
            variants = [c for c in self.reg.contracts.values() if c.qual == nested]
            if variants:
                env0 = self.bind_args(fnode, args, kwargs, st, f.module, skip_missing=True)
                for c in variants:
                    if c.applies is None or c.applies(env0):
                        return self.call_by_contract(c, fnode, f.module, args, kwargs, st, node)
        local = self.bind_args(fnode, args, kwargs, st, f.module)
        env = _ChainEnv(local, f.env)
        if isinstance(fnode, ast.Lambda):
            saved = st.env
            st.env = env
            try:
                return self.eval(fnode.body, st, f.module)
            finally:
                st.env = saved
        return self.inline_body(fnode, env, st, f.module, node, name=fnode.name)

    def inline_body(self, fnode, env, st, fmod, node, name):
        """Inline a pure helper: all paths must return; results are merged by if-then-else."""
        saved_env = st.env
        s = State(env, st.pc)
        s.roots = st.roots
        s.trace = st.trace
        base = len(st.pc)
        outs = self.exec_block(fnode.body, s, fmod)
        rets = []
        for kind, s2, payload in outs:
            if kind == "raise":
                # a raising path of an inlined helper becomes a raising fork of the caller
                cs = st.clone()
                cs.pc = list(s2.pc)
                st.forks.append(("raise", cs, payload))
                continue
            rets.append((s2, payload if kind == "return" else None))
        st.env = saved_env
        if not rets:
            raise VCError(f"inlined helper {name} never returns normally")
        if len(rets) == 1:
            s2, v = rets[0]
            st.pc[:] = s2.pc
            return v
        # merge: result = ite over the path conditions added by each path
        conds = []
        for s2, v in rets:
            extra = s2.pc[base:]
            conds.append(z3.And(*extra) if extra else z3.BoolVal(True))
        try:
            out = rets[-1][1]
            for (s2, v), c in zip(reversed(rets[:-1]), reversed(conds[:-1])):
                out = ite_val(c, v, out)
        except Unsupported:
            raise VCError(f"inlined helper {name}: results of different paths cannot be merged; give it a contract")
        del st.pc[base:]
        st.pc.append(z3.Or(*conds))
        return out

    def contract_for(self, qual, fnode, fmod, args, kwargs, st):
        c = self.reg.contracts.get(qual)
        if c is not None:
            return c
        variants = [v for k, v in self.reg.contracts.items() if v.qual == qual]
        if not variants:
            return None
        env = dict(self.bind_args(fnode, args, kwargs, st, fmod, skip_missing=True))
        env["__verifying__"] = self.vname or ""  # a view may be meant for the verification of particular callers only
        for v in sorted(variants, key=lambda v: -getattr(v, "priority", 0)):
            if v.applies is None or v.applies(env):
                return v
        raise VCError(f"no contract variant of {qual} applies at this call site")

    def _external_def(self, qual):
        """signature of a function that exists only as an assumed contract (external base-class method): taken from the contract's parameter list"""
        c = next(c for c in self.reg.contracts.values() if c.qual == qual)
        src = "def f(" + ", ".join(c.params.keys()) + "): pass"
        m = qual.split(":")[0]
        # a class of a library outside the repository has no module here: default-argument expressions do not exist in the synthetic signature, so any module serves
        return self.prog.module(m if self.prog.has_module(m) else self.fn_stack[-1][0].split(":")[0]), ast.parse(src).body[0]

    def call_function(self, qual, args, kwargs, st, node):
        try:
            fmod, fnode = self.prog.function(qual)
        except (KeyError, FileNotFoundError):
            if not any(c.qual == qual for c in self.reg.contracts.values()):
                raise
            self.used_models.add(f"external method {qual}: assumed contract only (no body in the repository)")
            fmod, fnode = self._external_def(qual)
        c = self.contract_for(qual, fnode, fmod, args, kwargs, st)
        if c is None or c.inline:
            # no contract: only allowed for helpers explicitly registered as inline (contract with inline=True)
            if c is None:
                raise VCError(f"call of {qual} at line {getattr(node, 'lineno', '?')}: callee has no contract (out of reach)")
            env = self.bind_args(fnode, args, kwargs, st, fmod)
            self.fn_stack.append((qual, c))
            try:
                return self.inline_body(fnode, env, st, fmod, node, name=qual)
            finally:
                self.fn_stack.pop()
        return self.call_by_contract(c, fnode, fmod, args, kwargs, st, node)

    def call_by_contract(self, c: Contract, fnode, fmod, args, kwargs, st, node):
        self.used_contracts.add(c.name)
        fq = _vshort(self)
        k = self.call_counter.get(c.qual, 0)
        key = ("callsite", id(node))
        if key not in self.const_cache:
            self.const_cache[key] = self.call_counter.get(c.qual, 0)
            self.call_counter[c.qual] = self.const_cache[key] + 1
        k = self.const_cache[key]
        env = self.bind_args(fnode, args, kwargs, st, fmod)
        # function-valued arguments are seen by the contract as pure functions (their value, not their effects)
        fview = {}
        for pn, pv in env.items():
            if isinstance(pv, (Closure, BoundMethod, FuncRef)):
                fview[pn] = UFun(pn, (lambda *a, pv=pv: self.pure_call(pv, list(a), st, node)))
        E = SpecEnv(env, extra=fview)
        for rname, fn in c.requires:
            goal = self._spec_bool(fn(E), f"requires {rname} of {c.qual}")
            self.prove(st, f"{fq}/call#{k}:{short(c.qual)}/pre/{rname}", goal, "precondition", getattr(node, "lineno", 0))
        old = _clone(env, {})
        wf = []
        result = fresh(c.returns, f"ret_{short(c.qual)}", wf, env=SpecEnvRaw(env)) if c.returns is not None else None
        st.pc.extend(wf)
        # exceptional outcomes (conditions are evaluated on the pre-state; ghost results may be mentioned)
        for exc, cond in (getattr(c, "raises_caller", None) or c.raises).items():
            cs = st.clone()
            if cond is not None:
                cz = self._spec_bool(cond(SpecEnv(env, old=old, result=result, extra=fview)), "raises")
            else:
                cz = z3.Bool(uid(f"raises_{exc}"))
            cs.pc.append(cz)
            if self.feasible(cs.pc):
                env_c = self.bind_args(fnode, [_clone_into(cs, st, a) for a in args], {k2: _clone_into(cs, st, v) for k2, v in kwargs.items()}, cs, fmod)
                self._apply_frame(c, env_c, cs)
                for ename, fn in c.exc_ensures.get(exc, []):
                    cs.pc.append(self._spec_bool(fn(SpecEnv(env_c, old=old, result=result, extra=fview)), ename))
                st.forks.append(("raise", cs, exc))
            if cond is not None:
                st.pc.append(z3.Not(cz))
        # frame
        self._apply_frame(c, env, st)
        Eo = SpecEnv(env, old=old, result=result, extra=fview)
        for ename, fn in (c.ensures_caller if c.ensures_caller is not None else c.ensures):
            st.pc.append(self._spec_bool(fn(Eo), f"ensures {ename} of {c.qual}"))
        if c.effects is not None:
            c.effects(self, st, env, result, node)
        if isinstance(result, tuple) and getattr(c, "ghost_results", 0):
            nreal = len(result) - c.ghost_results
            ghost = result[nreal:]
            st.env[f"_g_{short(c.qual).split('.')[-1]}_{k}"] = ghost[0] if len(ghost) == 1 else ghost
            result = result[0] if nreal == 1 else result[:nreal]
        return result

    # ---------------------------------------------------------------- frame condition of the verified body
    def _check_frame(self, c, s, vname, node):
        """Everything reachable from the parameters at entry is, at a normal exit, either a location named in `assigns`
        or unchanged.  One obligation per exit path (always emitted, so that its name is stable)."""
        cur_root, old_root = s.roots.get("params0"), s.roots.get("old")
        if cur_root is None or old_root is None:
            return
        assigned = set()
        for path_fn, _shape in c.assigns:
            try:
                tgt = path_fn(SpecEnvRaw(cur_root))
            except (KeyError, AttributeError, VCError, TypeError):
                continue
            if isinstance(tgt, tuple):
                assigned.add((id(tgt[0]), tgt[1]))
            else:
                assigned.add((id(tgt), None))
        goals, notes, seen = [], [], set()

        def bad(path, why):
            goals.append(z3.BoolVal(False))
            notes.append(f"{path}: {why}")

        def scalar_eq(nv, ov, path):
            if nv is ov:
                return
            if (is_z3(nv) or is_z3(ov)) and (isinstance(nv, EnumVal) or isinstance(ov, EnumVal)):
                nv, ov = (getattr(nv, "value", nv), getattr(ov, "value", ov))  # an IntEnum member against a symbolic integer
            if is_z3(nv) or is_z3(ov):
                a, b = to_z3(nv), to_z3(ov)
                if a.eq(b):
                    return
                if a.sort() != b.sort():
                    if z3.is_bool(a) or z3.is_bool(b):
                        return bad(path, "changed type")
                    a, b = to_real(a), to_real(b)
                goals.append(a == b)
                notes.append(path)
            elif isinstance(nv, (int, float, Fraction, bool, str)) or nv is None or isinstance(nv, EnumVal):
                if not (type(nv) is type(ov) and nv == ov) and not (is_conc_num(nv) and is_conc_num(ov) and nv == ov):
                    bad(path, f"changed from {ov!r} to {nv!r}")
            elif nv is not ov and not (isinstance(nv, (FuncRef, ClassRef, Builtin, ModuleRef)) and repr(nv) == repr(ov)):
                if isinstance(nv, (Closure, BoundMethod, UFun, Seq, Inf)) or isinstance(ov, (Closure, BoundMethod, UFun, Seq, Inf)):
                    if type(nv) is not type(ov):
                        bad(path, "rebound")
                else:
                    bad(path, "rebound to another value")

        def walk(nv, ov, path, depth=0):
            if depth > 12:
                return
            if isinstance(ov, PyObj):
                if not isinstance(nv, PyObj) or nv.cls != ov.cls:
                    return bad(path, "rebound to another object")
                if id(nv) in seen:
                    return
                seen.add(id(nv))
                if (id(nv), "*") in assigned:
                    return
                for k, o_f in ov.fields.items():
                    if (id(nv), k) in assigned:
                        continue
                    if k not in nv.fields:
                        bad(f"{path}.{k}", "deleted")
                        continue
                    walk(nv.fields[k], o_f, f"{path}.{k}", depth + 1)
                for k in nv.fields:
                    if k not in ov.fields and (id(nv), k) not in assigned:
                        bad(f"{path}.{k}", "attribute written but not named in assigns")
            elif isinstance(ov, PyList):
                if not isinstance(nv, PyList):
                    return bad(path, "rebound to a non-list")
                if (id(nv), None) in assigned or nv.v is ov.v or id(nv) in seen:
                    return
                seen.add(id(nv))
                if isinstance(nv.v, list) and isinstance(ov.v, list):
                    if len(nv.v) != len(ov.v):
                        return bad(path, f"length changed from {len(ov.v)} to {len(nv.v)}")
                    for k, (a, b) in enumerate(zip(nv.v, ov.v)):
                        walk(a, b, f"{path}[{k}]", depth + 1)
                    return
                n_len, o_len = nv.length(), ov.length()
                k = z3.Int(uid("frk"))
                try:
                    a, b = nv.get(k), ov.get(k)
                except (VCError, Unsupported, IndexError, TypeError):
                    return bad(path, "list changed (elements not comparable)")
                if is_scalar(a) and is_scalar(b):
                    ea, eb = to_z3(a), to_z3(b)
                    if ea.sort() != eb.sort():
                        ea, eb = to_real(ea), to_real(eb)
                    goals.append(z3.And(to_z3(n_len) == to_z3(o_len), z3.ForAll([k], z3.Implies(z3.And(0 <= k, k < to_z3(o_len)), ea == eb))))
                    notes.append(path)
                else:
                    goals.append(to_z3(n_len) == to_z3(o_len))
                    notes.append(path + " (length only: elements are not scalars)")
            elif isinstance(ov, IntMap):
                if not isinstance(nv, IntMap):
                    return bad(path, "rebound to a non-map")
                if (id(nv), None) in assigned or (nv.dom is ov.dom and nv.val is ov.val and nv.n is ov.n):
                    return
                k = z3.Int(uid("frk"))
                try:
                    va, vb = nv.val(k), ov.val(k)
                    same_val = to_z3(va) == to_z3(vb) if is_scalar(va) and is_scalar(vb) else z3.BoolVal(True)
                    goals.append(z3.And(to_z3(nv.n) == to_z3(ov.n), z3.ForAll([k], z3.And(nv.dom(k) == ov.dom(k), z3.Implies(ov.dom(k), same_val)))))
                    notes.append(path)
                except (VCError, Unsupported, TypeError):
                    bad(path, "map changed")
            elif isinstance(ov, PyDict):
                if not isinstance(nv, PyDict):
                    return bad(path, "rebound to a non-dict")
                if (id(nv), None) in assigned:
                    return
                if list(nv.d.keys()) != list(ov.d.keys()):
                    return bad(path, "keys changed")
                for k in ov.d:
                    walk(nv.d[k], ov.d[k], f"{path}[{k!r}]", depth + 1)
            elif isinstance(ov, Opaque):
                if not isinstance(nv, Opaque) or nv.kind != ov.kind:
                    return bad(path, "rebound")
                for k in ov.attrs:
                    if k in nv.attrs:
                        walk(nv.attrs[k], ov.attrs[k], f"{path}.{k}", depth + 1)
            elif isinstance(ov, tuple):
                if not isinstance(nv, tuple) or len(nv) != len(ov):
                    return bad(path, "rebound")
                for k, (a, b) in enumerate(zip(nv, ov)):
                    walk(a, b, f"{path}[{k}]", depth + 1)
            else:
                scalar_eq(nv, ov, path)

        for pname, ov in old_root.items():
            if isinstance(ov, (PyObj, PyList, IntMap, PyDict, Opaque)) and pname in cur_root:
                walk(cur_root[pname], ov, pname)
        goal = z3.And(*goals) if goals else z3.BoolVal(True)
        self.prove(s, f"{short(vname)}/frame/only-declared-locations-change", goal, "frame", node.lineno, extra={"frame_locations": notes[:40]})

    def _check_aliases(self, c, s, vname, node, result):
        """Alias declarations (AliasOf) in `assigns` and `returns` are what callers are told about a written location or a result field: "it is this
        argument / this field of self".  When the body is verified they are proved: same object (identity) for heap values, equality for scalars."""
        root = s.roots.get("params0")
        if root is None:
            return
        P = SpecEnvRaw(root)
        goals, notes, found = [], [], [False]

        def same(actual, shape, path):
            if isinstance(shape, AliasOf):
                found[0] = True
                try:
                    want = shape.fn(P)
                except (KeyError, AttributeError, VCError, TypeError):
                    return
                if actual is want:
                    return
                if is_scalar(actual) and is_scalar(want) and (is_z3(actual) or is_z3(want)):
                    a, b = to_z3(actual), to_z3(want)
                    if a.sort() != b.sort():
                        if z3.is_bool(a) or z3.is_bool(b):
                            goals.append(z3.BoolVal(False))
                            notes.append(f"{path}: not the declared alias (another type)")
                            return
                        a, b = to_real(a), to_real(b)
                    goals.append(a == b)
                    notes.append(path)
                elif isinstance(actual, Opaque) and isinstance(want, Opaque) and "id" in actual.attrs and "id" in want.attrs:
                    goals.append(to_z3(actual.attrs["id"]) == to_z3(want.attrs["id"]))
                    notes.append(path)
                elif isinstance(actual, (int, float, Fraction, bool, str, EnumVal)) or actual is None:
                    if not (type(actual) is type(want) and actual == want):
                        goals.append(z3.BoolVal(False))
                        notes.append(f"{path}: holds {actual!r}, declared to be the alias of {want!r}")
                else:
                    goals.append(z3.BoolVal(False))
                    notes.append(f"{path}: is not the object it is declared to alias")
            elif isinstance(shape, ObjOf) and isinstance(actual, PyObj):
                for k, sh in shape.fields.items():
                    if k in actual.fields:
                        same(actual.fields[k], sh, f"{path}.{k}")
            elif isinstance(shape, TupleOf) and isinstance(actual, tuple):
                for k, (a, sh) in enumerate(zip(actual, shape.elems)):
                    same(a, sh, f"{path}[{k}]")

        for path_fn, shape in c.assigns:
            if isinstance(shape, Same):
                continue
            try:
                tgt = path_fn(P)
            except (KeyError, AttributeError, VCError, TypeError):
                continue
            if isinstance(tgt, tuple) and isinstance(tgt[0], PyObj) and tgt[1] in tgt[0].fields:
                same(tgt[0].fields[tgt[1]], shape, f"<assigns>.{tgt[1]}")
        rs = getattr(c, "returns", None)
        if rs is not None:
            same(result, rs, "result")
        if found[0]:
            self.prove(s, f"{short(vname)}/frame/declared-aliases-hold", z3.And(*goals) if goals else z3.BoolVal(True), "frame", node.lineno, extra={"frame_locations": notes[:40]})

    def _apply_frame(self, c, env, st):
        wf = []
        for path_fn, shape in c.assigns:
            tgt = path_fn(SpecEnvRaw(env))
            if isinstance(tgt, tuple):
                o, attr = tgt
                o.fields[attr] = fresh(shape, f"{attr}", wf, env=SpecEnvRaw(env))
            elif isinstance(tgt, PyList):
                tgt.v = fresh(shape, "lst", wf).v
            elif isinstance(tgt, IntMap):
                n = fresh(shape, "map", wf)
                tgt.dom, tgt.val, tgt.n, tgt.key_at, tgt.pos_of = n.dom, n.val, n.n, n.key_at, n.pos_of
            else:
                raise VCError("assigns target must be (obj, field), a list or a map")
        st.pc.extend(wf)


_quant_cache = {}


def _has_quant(e):
    k = e.get_id()
    if k in _quant_cache:
        return _quant_cache[k]
    seen = set()
    stack = [e]
    res = False
    while stack:
        x = stack.pop()
        i = x.get_id()
        if i in seen:
            continue
        seen.add(i)
        if z3.is_quantifier(x):
            res = True
            break
        stack.extend(x.children())
    _quant_cache[k] = res
    return res


class _ZKey:
    """a symbolic term used as a dict key: hashable by structure"""

    def __init__(self, e):
        self.e = e

    def __hash__(self):
        return self.e.hash()

    def __eq__(self, other):
        return isinstance(other, _ZKey) and self.e.eq(other.e)

    def __repr__(self):
        return f"<key {self.e}>"


class _SuperRef:
    def __init__(self, obj, module, cls):
        self.obj, self.module, self.cls = obj, module, cls


class SpecEnvRaw:
    """Raw (unwrapped) access for assigns-paths."""

    def __init__(self, env):
        object.__setattr__(self, "_env", env)

    def __getattr__(self, k):
        return object.__getattribute__(self, "_env")[k]


def _clone_into(cs, st, v):
    """Find the clone of heap value v (reachable from st.env) inside the cloned state cs."""
    # states are cloned with the same traversal order; map by path
    path = _find_path(st.env, v, set())
    if path is None:
        path = _find_path(st.roots, v, set())
        if path is None:
            return v
        cur = cs.roots
    else:
        cur = cs.env
    for p in path:
        if isinstance(cur, dict):
            cur = cur[p]
        elif isinstance(cur, PyObj):
            cur = cur.fields[p]
        elif isinstance(cur, PyList):
            cur = cur.v[p]
        elif isinstance(cur, PyDict):
            cur = cur.d[p]
        elif isinstance(cur, (tuple, list)):
            cur = cur[p]
        elif isinstance(cur, _ChainEnv):
            cur = cur[p]
    return cur


def _find_path(root, v, seen):
    if not isinstance(v, (PyObj, PyList, PyDict, IntMap)):
        return None
    stack = [(root, [])]
    while stack:
        cur, path = stack.pop()
        if cur is v:
            return path
        if id(cur) in seen:
            continue
        seen.add(id(cur))
        if isinstance(cur, dict):
            for k, x in cur.items():
                stack.append((x, path + [k]))
        elif isinstance(cur, PyObj):
            for k, x in cur.fields.items():
                stack.append((x, path + [k]))
        elif isinstance(cur, PyList) and isinstance(cur.v, list):
            for k, x in enumerate(cur.v):
                stack.append((x, path + [k]))
        elif isinstance(cur, PyDict):
            for k, x in cur.d.items():
                stack.append((x, path + [k]))
        elif isinstance(cur, (tuple, list)):
            for k, x in enumerate(cur):
                stack.append((x, path + [k]))
    return None


class _ChainEnv(dict):
    """Local scope chained to an enclosing scope (closures read outer variables)."""

    def __init__(self, local, outer):
        super().__init__(local)
        self.outer = outer

    def __contains__(self, k):
        return dict.__contains__(self, k) or k in self.outer

    def __getitem__(self, k):
        if dict.__contains__(self, k):
            return dict.__getitem__(self, k)
        return self.outer[k]

    def get(self, k, d=None):
        return self[k] if k in self else d


class _NoMerge(Exception):
    pass


def _ite_lazy(c, fa, fb):
    if isinstance(c, bool):
        return fa() if c else fb()
    if z3.is_true(c):
        return fa()
    if z3.is_false(c):
        return fb()
    return ite_val(c, fa(), fb())


def _arith_pair(a, b):
    za, zb = to_z3(a), to_z3(b)
    if z3.is_bool(za):
        za = z3.If(za, z3.IntVal(1), z3.IntVal(0))
    if z3.is_bool(zb):
        zb = z3.If(zb, z3.IntVal(1), z3.IntVal(0))
    if za.sort() != zb.sort():
        za, zb = to_real(za), to_real(zb)
    return za, zb


def _arith(a, b, f):
    za, zb = _arith_pair(a, b)
    return f(za, zb)


def _cmp_inf(op, a, b):
    def key(x):
        if isinstance(x, Inf):
            return (x.sign, 0)
        return (0, 0)

    if isinstance(a, Inf) and isinstance(b, Inf):
        ka, kb = a.sign, b.sign
    elif isinstance(a, Inf):
        ka, kb = a.sign, 0
    else:
        ka, kb = 0, b.sign
    return {ast.Lt: ka < kb, ast.LtE: ka <= kb, ast.Gt: ka > kb, ast.GtE: ka >= kb}[type(op)]


def _lex(ex, op, a, b, st, node):
    """Lexicographic tuple ordering."""
    if len(a) != len(b):
        raise Unsupported("ordering of tuples of different length")
    strict = isinstance(op, (ast.Lt, ast.Gt))
    lt = isinstance(op, (ast.Lt, ast.LtE))
    res = z3.BoolVal(not strict)
    for x, y in reversed(list(zip(a, b))):
        c1 = ex.compare(ast.Lt() if lt else ast.Gt(), x, y, st, node)
        e = ex.equals(x, y)
        c1 = z3.BoolVal(c1) if isinstance(c1, bool) else c1
        e = z3.BoolVal(e) if isinstance(e, bool) else e
        res = z3.Or(c1, z3.And(e, res))
    return z3.simplify(res)


def _target_names(t):
    if isinstance(t, ast.Name):
        return [t.id]
    if isinstance(t, (ast.Tuple, ast.List)):
        return [x for e in t.elts for x in _target_names(e)]
    return []


def _load(t):
    import copy

    t2 = copy.copy(t)
    t2.ctx = ast.Load()
    return t2


def _src(node):
    try:
        return ast.unparse(node)
    except Exception:
        return "?"


def short(qual):
    return qual.split(":", 1)[1] if ":" in qual else qual


def _vshort(ex):
    return short(getattr(ex, "vname", None) or ex.fn_stack[0][0])


def pathid(st):
    return ".".join(st.trace[-12:])
