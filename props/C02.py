"""C02 - height bounds, borehole cap, unmet-design policy, exception types."""
from contracts import search
from props.common import *  # noqa: F401,F403

from contracts import rowsearch  # noqa: E402

FUNCTIONS = SEARCH_FUNCS + DESIGN_FUNCS + [f"{S}:RowWiseModifiedBisectionSearch.calculate_excess", f"{G}:GHE.size#hourly"] + rowsearch.ROWSEARCH
NATIVE_FUNCTIONS = SEARCH_NATIVES
LEVEL = "other"


def lemmas():
    return search.LEMMAS


ASSUMPTIONS = [A_REAL, A_ENGINE, A_DET, A_ORACLE,
               "A-BRENT: scipy.optimize.brentq returns r in the bracket with a sign change of f within 4*(xtol+rtol*|r|) of r (cross-checked natively on solve_root)",
               "A-NODE: evaluating the three-height g-function family at a stored height equals the single-height computation (hypothesis of the manager-level clause; C11 proves the interpolation part)",
               "A-HMONO: feasibility at the minimum height implies feasibility at the maximum height (hypothesis of the manager-level clause)",
               "A-LIP: |d excess / d height| <= 0.5 K/m on the sizing window and heights <= 400 m (hypothesis of lemma root-within-sizing-tolerance)",
               "RowWise search (contracts/rowsearch.py): fields are abstract references; FIELD(spacing) = the sweep's result for the search's fixed lot / zones / window (A-DET, at least one borehole ASSUMED); "
               "A-PERM: the excess of a field does not depend on the order of its boreholes (point_sort only reorders; nested helper used through an ASSUMED view); A-SINGLE: the excess of a "
               "one-borehole field does not depend on where the borehole stands (the search evaluates [[0,0]] and returns the last borehole of the sorted field); spacing_step > 0"]
NOT_PROVED = ["manager-level clause is proved for the near-square and rectangle designs; bi-rectangle / bi-zoned / constrained are proved at the level of their search classes (Bisection2D.__init__, BisectionZD.*)",
              "numerical tolerance 1e-3 K rests on A-BRENT + A-LIP (lemma), not on the floating-point code"]
EXPLANATION = ("GHE.size ensures min_height <= H <= max_height (solve_root: brentq stays in the bracket, the clamp arms return a bracket end) and find_design ends with size. "
               "Bisection1D.search ensures count(selected) < max_boreholes for lists with non-decreasing counts (C03) or distinct excess values; the unmet arms raise ValueError "
               "exactly when continue_if_design_unmet is off and otherwise return the smallest candidate at min height / the largest allowed at max height. "
               "Every subscript, [-1], .index, division, max() and None-attribute site of the verified functions carries a safety obligation, so no exception other than the "
               "declared ValueError escapes them (under non-degenerate excess: never exactly zero).")
LEVEL_TEXT = ("[level other because 'no other exception type escapes' for the row-wise method also depends on the field generator gen_borehole_config, which is not under a discharged contract (C14); RowWise search itself is proved: ValueError exactly for 'nothing fits and not continuing' or an unhandled sign pattern, every subscript / division site inside it safe] Deductive proof for all candidate lists, caps >= 2, height windows and both policy settings: returned height within [min,max]; borehole count below the cap; "
              "ValueError exactly in the unmet-and-not-continued case, else smallest@min / largest-allowed@max; no implicit exception (index, key, division, empty max, None) "
              "is reachable in the verified search, sizing and constructor code. RowWise search is bounded only.")
LEVEL_NOTE = "Trusted: pyvc, z3/cvc5, brentq model (A-BRENT), A-NODE, A-HMONO, A-LIP, A-DET, A-REAL; RowWise search only bounded."
NATIVE_CASES = {"quick": 300, "thorough": 20000}
