"""time every solver configuration on the path instances of one obligation: <qual> <name substr> [path substr]"""
import sys, importlib
sys.path.insert(0, '/verif')
from pyvc.api import REG
from pyvc.engine import Exec
from pyvc.program import Program
from pyvc import solve
[importlib.import_module('contracts.' + m) for m in __import__('contracts').MODULES]
ex = Exec(Program('/repo'), REG)
obls = ex.verify(sys.argv[1])
for o in obls:
    if sys.argv[2] in o.name and (len(sys.argv) < 4 or sys.argv[3] in o.path):
        smt = solve.to_smt2(ex.axioms, o.assumptions, o.goal)
        out = []
        for v in (0, 1, 2, 11, 12):
            r, t, _ = solve._check_z3(smt, 40000, v)
            out.append((v, r, round(t, 1)))
        r, t, _ = solve._check_cvc5(smt, 40000)
        out.append(("cvc5", r, round(t, 1)))
        print(o.name, o.path, out, flush=True)
