"""C13: lemmas that compose the frames and postconditions of the setters / simulations into history independence."""
import z3

from pyvc.api import *  # noqa: F401,F403


def lemma_disjoint_slot_writes_commute():
    """Two setters whose frames are different slots of the manager, each storing a value determined by its own arguments
    (their discharged `stored` and `frame` clauses), leave the same manager whichever runs first; repeating one is idempotent."""
    Store = z3.ArraySort(z3.IntSort(), z3.IntSort())
    m = z3.Const("manager", Store)
    a, b, va, vb = z3.Ints("slot_a slot_b value_a value_b")
    return [a != b], And(z3.Store(z3.Store(m, a, va), b, vb) == z3.Store(z3.Store(m, b, vb), a, va),
                         z3.Store(z3.Store(m, a, va), a, va) == z3.Store(m, a, va))


def lemma_result_function_of_configuration():
    """A function whose postcondition gives its result as F(configuration) for every value of the residue fields returns equal results
    from two pre-states that agree on the configuration (self-composition of the discharged postcondition)."""
    F = z3.Function("F_config", z3.IntSort(), z3.RealSort())
    run = z3.Function("run", z3.IntSort(), z3.IntSort(), z3.RealSort())  # (configuration, residue) -> result
    c, r1, r2 = z3.Ints("config residue_1 residue_2")
    cc, rr = z3.Ints("c r")
    return [z3.ForAll([cc, rr], run(cc, rr) == F(cc))], run(c, r1) == run(c, r2)


LEMMAS = [("disjoint-slot-writes-commute-and-are-idempotent", lemma_disjoint_slot_writes_commute),
          ("result-given-as-function-of-configuration-is-history-independent", lemma_result_function_of_configuration)]
