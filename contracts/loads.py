"""Contracts for ghedesigner/ground_loads.py (C06, C07, C08)."""
import z3

from pyvc.api import *
from pyvc.run import native

L = "ghedesigner.ground_loads"
DAYS = [31, 28, 31, 30, 31, 30, 31, 31, 30, 31, 30, 31]  # non-leap calendar: the specification
CUM = [0]
for _d in DAYS:
    CUM.append(CUM[-1] + 24 * _d)


def table(idx, values):
    out = IntVal(values[-1])
    for k in range(len(values) - 2, -1, -1):
        out = If(idx == k, IntVal(values[k]), out)
    return out


def D(m):
    """days of calendar month ((m-1) mod 12)+1 in a non-leap year (m = 0 is read as December, as the tool does)"""
    return table((m - 1) % 12, DAYS)


def CUMH(m):
    """hours in months 1..m of a run of non-leap years"""
    return 8760 * (m / 12) + table(m % 12, CUM[:12])


Years1 = FixedList([Int])  # the single-year form: years = [y], y not a leap year


def nonleap(E):
    return E.years[0] % 4 != 0


contract(f"{L}:monthdays", dict(month=Int, year=Int),
         requires=[("month-index", lambda E: E.month >= 0), ("non-leap", lambda E: E.year % 4 != 0)],
         ensures=[("calendar", lambda E: E.result == D(E.month))], returns=Int)

contract(f"{L}:last_month_hour", dict(month=Int, years=Years1),
         requires=[("month", lambda E: E.month >= 1), ("non-leap", nonleap)],
         loops={0: LoopSpec(invariants=[("partial-sum", lambda E: E.lmh == CUMH(E.i - 1))])},
         ensures=[("end-of-month-hour", lambda E: E.result == CUMH(E.month))], returns=Int)

contract(f"{L}:first_month_hour", dict(month=Int, years=Years1),
         requires=[("month", lambda E: E.month >= 1), ("non-leap", nonleap)],
         loops={0: LoopSpec(invariants=[("partial-sum", lambda E: E.fmh == 1 + CUMH(E.i - 1))])},
         ensures=[("first-hour-of-month", lambda E: E.result == CUMH(E.month - 1) + 1)], returns=Int)


def lemma_whole_years():
    y = z3.Int("y")
    return [y >= 0], And(CUMH(12 * y) == 8760 * y, CUMH(12 * y + 1) == 8760 * y + 744)


def lemma_month_lengths():
    m = z3.Int("m")
    return [m >= 1], And(CUMH(m) - CUMH(m - 1) == 24 * D(m), D(m + 12) == D(m), D(m) >= 28, D(m) <= 31)


LEMMAS = [("calendar-whole-years", lemma_whole_years), ("calendar-month-lengths", lemma_month_lengths)]


def _cal_check(a):
    import calendar

    from ghedesigner.ground_loads import first_month_hour, last_month_hour, monthdays

    m, y = a["month"], a["year"]
    want_days = calendar.monthrange(2019, (m - 1) % 12 + 1)[1]
    cum = lambda k: 8760 * (k // 12) + CUM[k % 12]  # noqa: E731
    ok = monthdays(m, y) == want_days and last_month_hour(m, [y]) == cum(m) and first_month_hour(m, [y]) == cum(m - 1) + 1
    return ok, {"monthdays": monthdays(m, y), "last": last_month_hour(m, [y]), "first": first_month_hour(m, [y]), "want": [want_days, cum(m), cum(m - 1) + 1]}


native(f"{L}:last_month_hour", _cal_check, lambda rng: {"month": rng.randint(1, 360), "year": rng.choice([2019, 2021, 2022, 2023])},
       lambda inp: {"month": max(1, int(inp["month"])), "year": 2019}, bound="months 1..360 against calendar.monthrange (quick: random; all 360 are within reach of the thorough tier)")


# ---- HybridLoad.process_month_loads (C06 energy, C07 peaks, C08 axis) -------------------------------------------
from pyvc.values import Seq, VCError  # noqa: E402

H_ = f"{L}:HybridLoad"


def HL(end=Int):
    f13 = lambda s: FixedList(s, 13)  # noqa: E731  index 0 unused, 1..12 = January..December
    return ObjOf(H_, load=Const(0), hour=Const(0), step_func_load=Const(0), start_month=Const(1), end_month=end, years=Years1,
                 peak_retain_start=Const(12), peak_retain_end=Const(12),
                 monthly_cl=f13(Real), monthly_hl=f13(Real), monthly_peak_cl=f13(Real), monthly_peak_hl=f13(Real),
                 monthly_peak_cl_duration=f13(Real), monthly_peak_hl_duration=f13(Real), monthly_peak_cl_day=f13(Int), monthly_peak_hl_day=f13(Int))


MONTHLY = ["monthly_cl", "monthly_hl", "monthly_peak_cl", "monthly_peak_hl", "monthly_peak_cl_duration", "monthly_peak_hl_duration",
           "monthly_peak_cl_day", "monthly_peak_hl_day"]


def appended(cur, base):
    """elements appended to list `base` to obtain `cur` (both spec views), oldest first"""
    out = []
    v = cur.raw().v
    b = base.raw().v
    while v is not b:
        if isinstance(v, Seq) and v.tag and v.tag[0] == "append":
            out.append(v.tag[2])
            v = v.tag[1]
        elif isinstance(v, list) and isinstance(b, list) and v[: len(b)] == b:
            return [to_z3(x) for x in v[len(b):]] + list(reversed(out))
        else:
            raise VCError("appended(): current list is not an extension of the base list")
    return list(reversed(out))


def first12(E, name, m):
    """value of a monthly table for month m of the horizon = value of calendar month ((m-1) mod 12)+1 of the first year"""
    return getattr(E.pre.self, name)[(m - 1) % 12 + 1]


def month_facts(E, i):
    """the quantities of month i the property talks about (rejection positive, kW / kWh / hours)"""
    g = lambda n: getattr(E.self, n)[i]  # noqa: E731
    cl, hl, pc, ph, dc, dh, dayc, dayh = [g(n) for n in MONTHLY]
    hours = ToReal(24 * D(i))
    ipf = Or(i < 13, i > E.self.end_month - 12)
    rate_pk = (cl - hl - pc * dc + ph * dh) / (hours - dc - dh)
    rate_avg = (cl - hl) / hours
    noon = lambda day: ToReal(CUMH(i - 1) + 1 + 24 * day + 12)  # noqa: E731  (the tool numbers the first hour of a month CUM+1)
    return dict(cl=cl, hl=hl, pc=pc, ph=ph, dc=dc, dh=dh, dayc=dayc, dayh=dayh, hours=hours, ipf=ipf, rate_pk=rate_pk, rate_avg=rate_avg,
                nc=noon(dayc), nh=noon(dayh), end=ToReal(CUMH(i)), start=ToReal(CUMH(i - 1)))


def expected_segments(f, order, has_c, has_h):
    """(load, end hour) segments of one peak-retention month; order in {'c-first','h-first','same-day'}"""
    r = f["rate_pk"]
    if order == "same-day":
        n = f["nc"]
        cool = [(r, n - f["dc"]), (f["pc"], n)] if has_c else []
        heat = ([(r, n)] if not has_c else []) + [(-f["ph"], n + f["dh"])] if has_h else []
        return cool + heat + [(r, f["end"])]
    cool = [(r, f["nc"] - f["dc"] / 2), (f["pc"], f["nc"] + f["dc"] / 2)] if has_c else []
    heat = [(r, f["nh"] - f["dh"] / 2), (-f["ph"], f["nh"] + f["dh"] / 2)] if has_h else []
    return (cool + heat if order == "c-first" else heat + cool) + [(r, f["end"])]


def windows_ok(f):
    """premise of the ordering/placement clauses: the peak windows lie strictly inside the month and do not overlap"""
    c_lo, c_hi = f["nc"] - f["dc"] / 2, f["nc"] + f["dc"] / 2
    h_lo, h_hi = f["nh"] - f["dh"] / 2, f["nh"] + f["dh"] / 2
    same = f["dayc"] == f["dayh"]
    inside = lambda lo, hi: And(lo > f["start"], hi < f["end"])  # noqa: E731
    return And(Implies(And(f["pc"] > 0, Not(same)), inside(c_lo, c_hi)), Implies(And(f["ph"] > 0, Not(same)), inside(h_lo, h_hi)),
               Implies(same, And(Implies(f["pc"] > 0, f["nc"] - f["dc"] > f["start"]), Implies(f["ph"] > 0, f["nc"] + f["dh"] < f["end"]), f["nc"] > f["start"], f["nc"] < f["end"])),
               Implies(And(f["pc"] > 0, f["ph"] > 0, f["dayc"] < f["dayh"]), c_hi < h_lo), Implies(And(f["pc"] > 0, f["ph"] > 0, f["dayc"] > f["dayh"]), h_hi < c_lo))


def seg_lists(E):
    i = E.head.i
    loads = appended(E.self.load, E.head.self.load)
    hours = appended(E.self.hour, E.head.self.hour)
    if len(loads) != len(hours):
        raise VCError("load and hour arrays grew by different amounts")
    return i, loads, hours


def clamped(f):
    """the tool moves a peak window that would start before hour 0 (only possible for a peak on 1 January lasting > 26 h)"""
    return Or(And(f["pc"] >= 0, f["nc"] - f["dc"] / 2 < 0), f["nh"] - f["dh"] / 2 < 0)


def step_energy_clamped(E):
    f = month_facts(E, E.head.i)
    return Implies(clamped(f), step_energy(E, True))


def step_energy(E, raw=False):
    i, loads, hours = seg_lists(E)
    f = month_facts(E, i)
    prev = E.head.self.hour[E.head.self.hour.len - 1]
    total = 0
    for ld, hr in zip(loads, hours):
        total = total + to_real(ld) * (to_real(hr) - to_real(prev))
        prev = hr
    absent = If(f["pc"] > 0, 0, f["dc"]) + If(f["ph"] > 0, 0, f["dh"])
    slack = If(f["ipf"], f["rate_pk"] * absent, 0)
    goal = total == f["cl"] - f["hl"] + slack
    return goal if raw else Implies(Not(clamped(f)), goal)


SEG_CASES = [("no-peak-retention", None, None, None)] + [(f"{order}/{'cooling' if hc else 'no-cooling'}/{'heating' if hh else 'no-heating'}", order, hc, hh)
                                                        for order in ("c-first", "h-first", "same-day") for hc in (True, False) for hh in (True, False)]


def step_segments(case):
    """C07: the emitted segments are exactly the specified average/pulse sequence (one obligation per case of the month)"""
    name, order, has_c, has_h = case

    def clause(E):
        i, loads, hours = seg_lists(E)
        f = month_facts(E, i)
        got = list(zip(loads, hours))

        def same(exp):
            if len(exp) != len(got):
                return z3.BoolVal(False)
            return And(*[And(to_real(g[0]) == to_real(e[0]), to_real(g[1]) == to_real(e[1])) for g, e in zip(got, exp)])

        if order is None:
            return Implies(Not(f["ipf"]), same([(f["rate_avg"], f["end"])]))
        oc = {"c-first": f["dayc"] < f["dayh"], "h-first": f["dayc"] > f["dayh"], "same-day": f["dayc"] == f["dayh"]}[order]
        cond = And(f["ipf"], oc, (f["pc"] > 0) == has_c, (f["ph"] > 0) == has_h, windows_ok(f), Not(clamped(f)))
        return Implies(cond, same(expected_segments(f, order, has_c, has_h)))

    return clause


def step_increasing(E):
    i, loads, hours = seg_lists(E)
    f = month_facts(E, i)
    prev = E.head.self.hour[E.head.self.hour.len - 1]
    cs = []
    for hr in hours:
        cs.append(to_real(hr) > to_real(prev))
        prev = hr
    return Implies(And(windows_ok(f), Not(clamped(f))), And(*cs))


def replicated(E, upto, only=None):
    """monthly tables hold, for every month of the horizon processed so far, the first-year value of that calendar month"""
    cs = []
    for n in ([only] if only else MONTHLY):
        lst = getattr(E.self, n)
        cs.append(lst.len == If(upto <= 13, 13, upto))
        cs.append(forall(1, lambda j, lst=lst, n=n: Implies(And(1 <= j, j < lst.len), lst[j] == first12(E, n, j))))
    return And(*cs)


def valid_monthly(E):
    cs = []
    for m in range(1, 13):
        s = E.self
        cs += [s.monthly_peak_cl_duration[m] > 0, s.monthly_peak_cl_duration[m] <= 48, s.monthly_peak_hl_duration[m] > 0, s.monthly_peak_hl_duration[m] <= 48,
               s.monthly_peak_cl_day[m] >= 0, s.monthly_peak_cl_day[m] < DAYS[m - 1], s.monthly_peak_hl_day[m] >= 0, s.monthly_peak_hl_day[m] < DAYS[m - 1],
               s.monthly_peak_cl[m] >= 0, s.monthly_peak_hl[m] >= 0, s.monthly_cl[m] >= 0, s.monthly_hl[m] >= 0]
    return And(*cs)


contract(
    f"{H_}.process_month_loads", dict(self=HL()),
    requires=[("horizon", lambda E: And(1 <= E.self.end_month, E.self.end_month <= 360)), ("non-leap", lambda E: E.self.years[0] % 4 != 0),
              ("monthly-data-valid", valid_monthly)],
    loops={
        0: LoopSpec(invariants=[(f"replicated-{n}", (lambda E, n=n: replicated(E, E.i, n))) for n in MONTHLY],
                    shapes={f"self.{n}": ListOf(Int if n.endswith("_day") else Real) for n in MONTHLY}),
        1: LoopSpec(invariants=[("flags", lambda E: And(E.ipf.len == E.self.end_month + 1,
                                                        forall(1, lambda j: Implies(And(0 <= j, j < E.ipf.len),
                                                                                    E.ipf[j] == And(1 <= j, j < E.i, Or(j < 13, j > E.self.end_month - 12))))))],
                    shapes={"ipf": ListOf(Bool)}),
        2: LoopSpec(
            invariants=[
                ("axis", lambda E: And(E.self.load.len == E.self.hour.len, E.self.hour.len >= 2, E.self.hour[0] == 0, E.self.hour[1] == 0,
                                       E.self.hour[E.self.hour.len - 1] == CUMH(E.i - 1))),
                ("year", lambda E: Implies(E.i > 1, E.current_year == E.self.years[0]) if E.has("current_year") else True),
            ],
            steps=[("month-energy-conserved", step_energy), ("month-energy-conserved-when-window-clamped-at-hour-0", step_energy_clamped), ("month-ends-at-calendar-hour", lambda E: E.self.hour[E.self.hour.len - 1] == CUMH(E.head.i)),
                   ("breakpoints-increasing", step_increasing)]
            + [(f"segments-as-specified/{c[0]}", step_segments(c)) for c in SEG_CASES],
            shapes={"self.load": ListOf(Real, np=True, minlen=2), "self.hour": ListOf(Real, np=True, minlen=2), "current_year": Int,
                    "month_duration": Real, "month_load": Real, "month_rate": Real, "month_peak_hl": Real, "month_peak_cl": Real, "peak_day_diff": Int,
                    "first_hour_heating_peak": Real, "last_hour_heating_peak": Real, "first_hour_cooling_peak": Real, "last_hour_cooling_peak": Real,
                    "last_avg_hour": Real, "peak_last_avg_hour": Real}),
        3: LoopSpec(abstract=True, shapes={"self.step_func_load": ListOf(Real, np=True), "step_load": Real}),
    },
    ensures=[("starts-at-zero", lambda E: And(E.self.hour[0] == 0, E.self.hour[1] == 0)),
             ("ends-at-the-horizon", lambda E: E.self.hour[E.self.hour.len - 1] == CUMH(E.self.end_month)),
             ("months-replicated", lambda E: replicated(_with_pre(E), E.self.end_month + 1))],
    returns=NoneT(),
)


def _with_pre(E):
    class V:
        pass

    v = V()
    v.self = E.self
    v.pre = E.old
    return v


# ---- run-time form of the process_month_loads contract ---------------------------------------------------------
def make_hybrid(a):
    import numpy as np
    from ghedesigner.ground_loads import HybridLoad

    h = object.__new__(HybridLoad)
    h.start_month, h.end_month, h.years = 1, a["end_month"], [2019]
    h.peak_retain_start = h.peak_retain_end = 12
    for n in MONTHLY:
        setattr(h, n, [0] + list(a[n]))
    h.load, h.hour, h.step_func_load = np.array(0), np.array(0), np.array(0)
    return h


def _pml_check(a):
    import warnings

    # history: another profile (leap year, longer horizon) is processed first in the same interpreter - the result for `a`
    # must not depend on it (the calendar helpers are functions of their arguments)
    decoy = make_hybrid(dict(a, end_month=max(48, a["end_month"] + 7)))
    decoy.years = [2020]
    with warnings.catch_warnings():
        warnings.simplefilter("ignore")
        try:
            decoy.process_month_loads()
        except Exception:  # noqa: BLE001 - the decoy only creates history
            pass
    h = make_hybrid(a)
    with warnings.catch_warnings():
        warnings.simplefilter("ignore")
        h.process_month_loads()
    load, hour = [float(x) for x in h.load], [float(x) for x in h.hour]
    end = a["end_month"]
    cum = lambda k: 8760 * (k // 12) + CUM[k % 12]  # noqa: E731
    if not (hour[0] == 0 and hour[1] == 0 and hour[-1] == cum(end) and len(load) == len(hour)):
        return False, {"why": "axis does not start at 0 / end at the horizon", "ends": hour[-1], "want": cum(end)}
    pos = 1
    for m in range(1, end + 1):
        c = (m - 1) % 12
        cl, hl, pc, ph, dc, dh, dayc, dayh = [a[n][c] for n in MONTHLY]
        # segments of month m: up to the breakpoint equal to the month end
        try:
            stop = next(k for k in range(pos + 1, len(hour)) if hour[k] == cum(m))
        except StopIteration:
            return False, {"why": f"no breakpoint at the end of month {m}"}
        integral = sum(load[k] * (hour[k] - hour[k - 1]) for k in range(pos + 1, stop + 1))
        ipf = m < 13 or m > end - 12
        hours = cum(m) - cum(m - 1)
        net = cl - hl
        slack = 0.0
        if ipf:
            rate = (cl - hl - pc * dc + ph * dh) / (hours - dc - dh)
            slack = abs(rate) * ((dc if pc == 0 else 0) + (dh if ph == 0 else 0))
        if abs(integral - net) > slack + 1e-9 * max(1.0, abs(net), cl, hl):
            sig = "window-clamped-at-hour-0/same-day" if (m == 1 and dayc == dayh == 0 and (12 + 1 - dc / 2 < 0 or 12 + 1 - dh / 2 < 0)) else "unclamped"
            return False, {"why": f"month {m}: integral {integral} differs from net load {net}", "month": m, "signature": sig, "case": [pc, ph, dc, dh, dayc, dayh], "segments": [[load[k], hour[k]] for k in range(pos + 1, stop + 1)]}
        segs = [(load[k], hour[k] - hour[k - 1]) for k in range(pos + 1, stop + 1)]
        if ipf and windows_ok_native(m, a, c):
            if any(hour[k] <= hour[k - 1] for k in range(pos + 1, stop + 1)):
                return False, {"why": f"month {m}: breakpoints not strictly increasing although the peak windows overlap neither each other nor the month boundaries",
                               "signature": "breakpoints-not-increasing", "hours": hour[pos:stop + 1]}
            if dayc != dayh:
                start_m = cum(m - 1)
                for p, d, day, sgn in ((pc, dc, dayc, 1.0), (ph, dh, dayh, -1.0)):
                    want_end = start_m + 1 + 24 * day + 12 + d / 2
                    if p > 0 and not any(load[k] == sgn * p and abs(hour[k] - want_end) < 1e-9 for k in range(pos + 1, stop + 1)):
                        return False, {"why": f"month {m}: the pulse of magnitude {sgn * p} does not end at hour {want_end} (noon of the peak day plus half its duration)",
                                       "signature": "pulse-misplaced", "segments": [[load[k], hour[k]] for k in range(pos + 1, stop + 1)]}
        if ipf:
            for p, d, sgn in ((pc, dc, 1.0), (ph, dh, -1.0)):
                n_p = sum(1 for (ld, dur) in segs if ld == sgn * p and abs(dur - d) < 1e-9) if p > 0 else 0
                inside = windows_ok_native(m, a, c)
                if p > 0 and inside and n_p < 1:
                    return False, {"why": f"month {m}: no pulse of magnitude {sgn * p} and duration {d}", "segments": segs}
        elif len(segs) != 1:
            return False, {"why": f"month {m} outside the peak-retention months carries more than its average", "segments": segs}
        pos = stop
    return True, {}


def windows_ok_native(m, a, c):
    cum = lambda k: 8760 * (k // 12) + CUM[k % 12]  # noqa: E731
    cl, hl, pc, ph, dc, dh, dayc, dayh = [a[n][c] for n in MONTHLY]
    start, end = cum(m - 1), cum(m)
    nc, nh = start + 1 + 24 * dayc + 12, start + 1 + 24 * dayh + 12
    if dayc == dayh:
        return nc - dc > start and nc + dh < end
    ok = True
    if pc > 0:
        ok = ok and nc - dc / 2 > start and nc + dc / 2 < end
    if ph > 0:
        ok = ok and nh - dh / 2 > start and nh + dh / 2 < end
    if pc > 0 and ph > 0:
        ok = ok and (nc + dc / 2 < nh - dh / 2 if dayc < dayh else nh + dh / 2 < nc - dc / 2)
    return ok


def _pml_gen(rng):
    a = {"end_month": rng.choice([1, 2, 11, 12, 13, 18, 24, 25, 36, 60, 240])}
    for n in MONTHLY:
        a[n] = []
    for c in range(12):
        kind = rng.choice(["mixed", "heating", "cooling", "zero", "mixed", "mixed"])
        pc = 0.0 if kind in ("heating", "zero") else round(rng.uniform(1, 80), 2)
        ph = 0.0 if kind in ("cooling", "zero") else round(rng.uniform(1, 80), 2)
        dc = 1e-6 if pc == 0 else rng.choice([0.5, 3.0, 7.3, 12.0, 24.0, 30.0, 48.0])
        dh = 1e-6 if ph == 0 else rng.choice([0.5, 3.0, 7.3, 12.0, 24.0, 30.0, 48.0])
        days = DAYS[c]
        dayc = rng.choice([0, days - 1, rng.randrange(days)])
        dayh = dayc if rng.random() < 0.35 else rng.choice([0, days - 1, rng.randrange(days)])
        cl = 0.0 if pc == 0 else round(pc * rng.uniform(24, 24 * days * 0.9), 1)
        hl = 0.0 if ph == 0 else round(ph * rng.uniform(24, 24 * days * 0.9), 1)
        for n, v in zip(MONTHLY, (cl, hl, pc, ph, dc, dh, dayc, dayh)):
            a[n].append(v)
    return a


def _pml_from_model(inp):
    s = inp["self"]
    a = {"end_month": max(1, min(360, int(inp["self"]["end_month"])))}
    for n in MONTHLY:
        vals = s[n][1:13]
        a[n] = [int(v) if n.endswith("_day") else float(v) for v in vals]
    return a


native(f"{H_}.process_month_loads", _pml_check, _pml_gen, _pml_from_model,
       bound="real process_month_loads on synthetic monthly tables: mixed/heating-only/cooling-only/zero months, peaks on first/last day, same-day peaks, durations 0.5..48 h, horizons 1..240 months")


# ---- split_heat_and_cool / split_loads_by_month / process_two_day_loads (C06 inputs, C07 window) ---------------
from pyvc.libmodels import seq_sum  # noqa: E402

contract(f"{H_}.split_heat_and_cool", dict(raw_loads=ListOf(Real)),
         ensures=[("lengths", lambda E: And(E.result[0].len == E.raw_loads.len, E.result[1].len == E.raw_loads.len)),
                  ("rejection-minus-extraction-is-the-ground-load-in-kW",
                   lambda E: forall(1, lambda h: Implies(And(0 <= h, h < E.raw_loads.len),
                                                         And(E.result[0][h] - E.result[1][h] == -E.raw_loads[h] / 1000,
                                                             E.result[0][h] >= 0, E.result[1][h] >= 0,
                                                             Or(E.result[0][h] == 0, E.result[1][h] == 0)))))],
         returns=TupleOf(ListOf(Real), ListOf(Real)))

YEAR = ListOf(Real, length=8760)
F13 = lambda s: FixedList(s, 13)  # noqa: E731
DIM = Const(None)


def HLsplit():
    from pyvc.values import PyList as _PL

    return ObjOf(H_, hourly_rejection_loads=YEAR, hourly_extraction_loads=YEAR,
                 days_in_month=Const(_PL([0] + DAYS)),
                 monthly_cl=F13(Real), monthly_hl=F13(Real), monthly_peak_cl=F13(Real), monthly_peak_hl=F13(Real),
                 monthly_avg_cl=F13(Real), monthly_avg_hl=F13(Real), monthly_peak_cl_day=F13(Int), monthly_peak_hl_day=F13(Int),
                 two_day_hourly_peak_cl_loads=Const(None), two_day_hourly_peak_hl_loads=Const(None))


class _SumCtx:
    """lets a spec use the engine's prefix-sum function of a list (the same function the code's sum() was modelled with)"""
    ex = None
    st = None


def SUM(lst, lo, hi):
    return seq_sum(_SumCtx.ex, _SumCtx.st, lst.raw().as_seq() if lst.raw().is_conc() else lst.raw().v, lo, hi)


def month_stats(E, src, total, peak, avg, day, m, part):
    lo, hi = CUM[m - 1], CUM[m]
    if part == "total":
        return And(total[m] == SUM(src, lo, hi), avg[m] == total[m] / (hi - lo))
    if part == "peak-bounds-the-month":
        return forall(1, lambda h: Implies(And(lo <= h, h < hi), src[h] <= peak[m]))
    if part == "peak-attained-on-the-peak-day":
        return And(day[m] >= 0, day[m] < DAYS[m - 1],
                   exists(1, lambda h: And(lo + 24 * day[m] <= h, h < lo + 24 * day[m] + 24, src[h] == peak[m])))
    raise KeyError(part)


def _split_months_ensures():
    out = []
    for m in range(1, 13):
        for part in ("total", "peak-bounds-the-month", "peak-attained-on-the-peak-day"):
            out.append((f"month-{m}-rejection-{part}", (lambda E, m=m, part=part: month_stats(E, E.self.hourly_rejection_loads, E.self.monthly_cl, E.self.monthly_peak_cl,
                                                                                              E.self.monthly_avg_cl, E.self.monthly_peak_cl_day, m, part))))
            out.append((f"month-{m}-extraction-{part}", (lambda E, m=m, part=part: month_stats(E, E.self.hourly_extraction_loads, E.self.monthly_hl, E.self.monthly_peak_hl,
                                                                                               E.self.monthly_avg_hl, E.self.monthly_peak_hl_day, m, part))))
    return out


contract(f"{H_}.split_loads_by_month", dict(self=HLsplit()), ensures=_split_months_ensures(), returns=NoneT())


def HLtwo():
    from pyvc.values import PyList as _PL

    return ObjOf(H_, hourly_rejection_loads=YEAR, hourly_extraction_loads=YEAR, days_in_month=Const(_PL([0] + DAYS)),
                 monthly_peak_cl_day=F13(Int), monthly_peak_hl_day=F13(Int),
                 two_day_hourly_peak_cl_loads=FixedList([FixedList([Int])]), two_day_hourly_peak_hl_loads=FixedList([FixedList([Int])]))


def _two_day_window(src, window, day, m):
    """the 48 hourly loads of the day before the peak day and of the peak day (the day before 1 January is 31 December)"""
    lo = CUM[m - 1]

    def hour_of_year(k):
        g = lo + 24 * (day[m] - 1) + k
        return If(g < 0, g + 8760, g)  # only 1 January reaches back into the previous (= same, repeated) year

    return And(window.len == 48, forall(1, lambda k: Implies(And(0 <= k, k < 48), window[k] == src[hour_of_year(k)])))


contract(f"{H_}.process_two_day_loads", dict(self=HLtwo()),
         requires=[("peak-days-inside-their-months", lambda E: And(*[And(E.self.monthly_peak_cl_day[m] >= 0, E.self.monthly_peak_cl_day[m] < DAYS[m - 1],
                                                                         E.self.monthly_peak_hl_day[m] >= 0, E.self.monthly_peak_hl_day[m] < DAYS[m - 1]) for m in range(1, 13)]))],
         ensures=[(f"month-{m}-{nm}-window", (lambda E, m=m, nm=nm: _two_day_window(
             getattr(E.self, f"hourly_{'rejection' if nm == 'cooling' else 'extraction'}_loads"),
             getattr(E.self, f"two_day_hourly_peak_{'cl' if nm == 'cooling' else 'hl'}_loads")[m],
             getattr(E.self, f"monthly_peak_{'cl' if nm == 'cooling' else 'hl'}_day"), m))) for m in range(1, 13) for nm in ("cooling", "heating")]
         + [("thirteen-entries", lambda E: And(E.self.two_day_hourly_peak_cl_loads.len == 13, E.self.two_day_hourly_peak_hl_loads.len == 13))],
         returns=NoneT())
