"""Contracts for the input-file writer and its round trip through the command-line loader (C17)."""
import z3

from pyvc.api import *
from pyvc.engine import PI
from pyvc.run import native

M_ = "ghedesigner.manager"


# ---- run-time form: API configuration -> write_input_file -> validate -> CLI loader (design run stubbed) -> write again -------------
def build_config(a):
    from contracts.realruns import synth_loads
    from ghedesigner.manager import GHEManager

    g = GHEManager()
    pipe = a["pipe"]
    if pipe == "single":
        g.set_single_u_tube_pipe(inner_diameter=a["d_in"], outer_diameter=a["d_out"], shank_spacing=a["shank"], roughness=1.0e-6, conductivity=a["k_pipe"], rho_cp=1542000.0)
    elif pipe == "double_parallel":
        g.set_double_u_tube_pipe_parallel(inner_diameter=a["d_in"], outer_diameter=a["d_out"], shank_spacing=a["shank"], roughness=1.0e-6, conductivity=a["k_pipe"], rho_cp=1542000.0)
    elif pipe == "double_series":
        g.set_double_u_tube_pipe_series(inner_diameter=a["d_in"], outer_diameter=a["d_out"], shank_spacing=a["shank"], roughness=1.0e-6, conductivity=a["k_pipe"], rho_cp=1542000.0)
    else:
        g.set_coaxial_pipe(inner_pipe_d_in=0.0442, inner_pipe_d_out=0.050, outer_pipe_d_in=0.0974, outer_pipe_d_out=0.11, roughness=1.0e-6,
                           conductivity_inner=a["k_pipe"], conductivity_outer=0.4, rho_cp=1542000.0)
    g.set_soil(conductivity=a["k_soil"], rho_cp=2343493.0, undisturbed_temp=a["ugt"])
    g.set_grout(conductivity=a["k_grout"], rho_cp=3901000.0)
    g.set_fluid(fluid_name=a["fluid"], concentration_percent=a["conc"], temperature=a["t_fluid"])
    g.set_borehole(height=a["h_nominal"], buried_depth=a["depth"], diameter=a["d_bh"])
    g.set_simulation_parameters(num_months=a["months"], max_eft=35.0, min_eft=a["min_eft"], max_height=a["hmax"], min_height=a["hmin"],
                                max_boreholes=a.get("cap"), continue_if_design_unmet=a.get("cont", False))
    g.set_ground_loads_from_hourly_list(synth_loads("balanced", 2.0e4)[:a.get("nloads", 8760)])
    geom = a["geom"]
    if geom == "near_square":
        g.set_geometry_constraints_near_square(b=a["b_min"], length=a["length"])
    elif geom == "rectangle":
        g.set_geometry_constraints_rectangle(length=a["length"], width=a["width"], b_min=a["b_min"], b_max=a["b_max_x"])
    elif geom == "bi_rectangle":
        g.set_geometry_constraints_bi_rectangle(length=a["length"], width=a["width"], b_min=a["b_min"], b_max_x=a["b_max_x"], b_max_y=a["b_max_y"])
    elif geom == "bi_zoned":
        g.set_geometry_constraints_bi_zoned_rectangle(length=a["length"], width=a["width"], b_min=a["b_min"], b_max_x=a["b_max_x"], b_max_y=a["b_max_y"])
    elif geom == "constrained":
        g.set_geometry_constraints_bi_rectangle_constrained(b_min=a["b_min"], b_max_x=a["b_max_x"], b_max_y=a["b_max_y"],
                                                            property_boundary=[[[0, 0], [a["length"], 0], [a["length"], a["width"]], [0, a["width"]]]],
                                                            # no-go zones: a list of outlines, or ONE outline as shorthand, in whole metres (ints) or floats, or none
                                                            no_go_boundaries={"nested-int": [[[5, 5], [9, 5], [9, 9], [5, 9]]], "single-int": [[5, 5], [9, 5], [9, 9], [5, 9]],
                                                                              "single-float": [[5.0, 5.0], [9.5, 5.0], [9.5, 9.0], [5.0, 9.0]],
                                                                              "nested-float": [[[5.0, 5.0], [9.5, 5.0], [9.5, 9.0], [5.0, 9.0]]], "none": []}[a.get("no_go", "nested-int")])
    else:
        g.set_geometry_constraints_rowwise(perimeter_spacing_ratio=a.get("perimeter"), max_spacing=a["b_max_x"] + 4, min_spacing=a["b_min"] + 4, spacing_step=0.1,
                                           max_rotation=a["rot_max"], min_rotation=a["rot_min"], rotate_step=15.0,
                                           property_boundary=[[10, 10], [a["length"] + 10, 10], [a["length"] + 10, a["width"] + 10], [10, a["width"] + 10]], no_go_boundaries=[])
    g.set_design(flow_rate=a["flow"], flow_type_str=a["flow_type"])
    return g


def _state(g):
    """the configuration a manager holds, as plain data"""
    p = g._pipe
    gc = dict(vars(g._geometric_constraints))
    gc["type"] = gc["type"].name
    return {"fluid": [g._fluid.fluid_type.name, g._fluid.concentration_percent, g._fluid.temperature], "grout": [g._grout.k, g._grout.rhoCp],
            "soil": [g._soil.k, g._soil.rhoCp, g._soil.ugt], "pipe": [g.pipe_type.name, p.r_in, p.r_out, p.s, p.roughness, p.k, p.rhoCp, [list(q) for q in p.pos] if isinstance(p.pos, list) else list(p.pos)],
            "borehole": [g._borehole.D, g._borehole.r_b], "sim": [g._simulation_parameters.end_month, g._simulation_parameters.max_EFT_allowable, g._simulation_parameters.min_EFT_allowable,
                                                                 g._simulation_parameters.max_height, g._simulation_parameters.min_height, g._simulation_parameters.max_boreholes,
                                                                 g._simulation_parameters.continue_if_design_unmet],
            "geom": gc, "design": [g._design.V_flow, g._design.flow_type.name], "loads": list(g._ground_loads)}


def _roundtrip_check(a):
    import json
    import os
    import shutil
    import tempfile
    from pathlib import Path

    import ghedesigner.manager as mgr
    from ghedesigner.validate import validate_input_file

    tmp = tempfile.mkdtemp(prefix="c17_", dir=os.environ.get("VERIF_SCRATCH", None))
    try:
        g1 = build_config(a)
        f1 = Path(tmp) / "first.json"
        g1.write_input_file(f1)
        if validate_input_file(f1) != 0:
            return False, {"why": "the input file written by the tool fails the tool's own schema validation", "geom": a["geom"], "signature": "written-file-invalid"}
        # load it back through the command-line loading path, with the design run itself stubbed out
        captured = {}
        saved = (mgr.GHEManager.find_design, mgr.GHEManager.prepare_results, mgr.GHEManager.write_output_files)
        mgr.GHEManager.find_design = lambda self, throw=True: captured.setdefault("g", self) and 0
        mgr.GHEManager.prepare_results = lambda self, *x, **k: None
        mgr.GHEManager.write_output_files = lambda self, *x, **k: None
        try:
            rc = mgr._run_manager_from_cli_worker(f1, Path(tmp) / "out")
        finally:
            mgr.GHEManager.find_design, mgr.GHEManager.prepare_results, mgr.GHEManager.write_output_files = saved
        if rc != 0 or "g" not in captured:
            return False, {"why": "the loader refused the file written by the tool", "rc": rc, "signature": "loader-refused"}
        g2 = captured["g"]
        s1, s2 = _state(g1), _state(g2)
        diff = [k for k in s1 if json.dumps(s1[k], sort_keys=True, default=str) != json.dumps(s2[k], sort_keys=True, default=str)]
        if diff == ["geom"] and s1["geom"].get("type") == "ROWWISE":
            g1c, g2c = s1["geom"], s2["geom"]
            others = [k for k in g1c if k not in ("min_rotation", "max_rotation") and json.dumps(g1c[k], default=str) != json.dumps(g2c[k], default=str)]
            rot = [k for k in ("min_rotation", "max_rotation") if g1c[k] != g2c[k]]
            if not others and rot and all(abs(g1c[k] - g2c[k]) <= 4.0e-16 * max(abs(g1c[k]), 1.0e-300) for k in rot):
                return False, {"why": "RowWise rotation limit differs in the last bit after radians -> degrees (file) -> radians", "degrees_given": [a["rot_min"], a["rot_max"]],
                               "radians_before": [g1c[k] for k in rot], "radians_after": [g2c[k] for k in rot], "signature": "rowwise-rotation-last-bit-after-degree-conversion"}
        if diff:
            sig = "roundtrip-state/" + ",".join(diff)
            return False, {"why": "reading the file back does not reconstruct the configuration", "differs": diff, "first": {k: s1[k] for k in diff if k != "loads"},
                           "second": {k: s2[k] for k in diff if k != "loads"}, "signature": sig}
        f2 = Path(tmp) / "second.json"
        g2.write_input_file(f2)
        if f1.read_bytes() != f2.read_bytes():
            return False, {"why": "writing the re-loaded configuration does not produce the same file", "signature": "not-idempotent"}
        return True, {}
    finally:
        shutil.rmtree(tmp, ignore_errors=True)


_rt_counter = [0]


def _roundtrip_gen(rng):
    a = _roundtrip_gen_random(rng)
    k = _rt_counter[0]
    _rt_counter[0] += 1
    if k == 0:  # the recorded finding's input first (RowWise, -12 degrees), then one case per geometry method, then random
        a.update(geom="rowwise", rot_min=-12.0, rot_max=0.0, perimeter=None)
    elif k <= 6:
        a["geom"] = ["near_square", "rectangle", "bi_rectangle", "bi_zoned", "constrained", "rowwise"][k - 1]
        if a["geom"] == "rowwise":
            a.update(rot_min=-90.0, rot_max=0.0, perimeter=0.8)
    elif k <= 9:  # the forms a no-go zone may be given in: one outline as shorthand (ints / floats), no zone at all
        a.update(geom="constrained", no_go=["single-int", "single-float", "none"][k - 7])
    elif a["geom"] == "constrained":
        a["no_go"] = rng.choice(["nested-int", "single-int", "single-float", "nested-float", "none"])
    return a


def _roundtrip_gen_random(rng):
    geom = rng.choice(["near_square", "rectangle", "bi_rectangle", "bi_zoned", "constrained", "rowwise", "rowwise"])
    bmin = rng.choice([3.0, 4.5, 5.0, round(rng.uniform(2.5, 6.0), 3)])
    a = {"geom": geom, "pipe": rng.choice(["single", "double_parallel", "double_series", "coaxial"]),
         "d_in": round(rng.uniform(0.02, 0.035), 5), "d_out": round(rng.uniform(0.038, 0.045), 5), "shank": round(rng.uniform(0.01, 0.03), 5), "k_pipe": round(rng.uniform(0.3, 0.6), 3),
         "k_soil": round(rng.uniform(0.8, 4.0), 3), "ugt": round(rng.uniform(5, 25), 2), "k_grout": round(rng.uniform(0.6, 2.5), 3),
         "fluid": rng.choice(["Water", "EthyleneGlycol", "PropyleneGlycol", "MethylAlcohol", "EthylAlcohol"]), "conc": 0.0, "t_fluid": rng.choice([20, 20.0, 15.5]),
         "h_nominal": rng.choice([96.0, 120.0]), "depth": rng.choice([2.0, 1.5, 4.0]), "d_bh": round(rng.uniform(0.14, 0.2), 4),
         "months": rng.choice([12, 18, 240]), "min_eft": rng.choice([5.0, 0.0, -2.5]), "hmax": rng.choice([135.0, 200.0]), "hmin": rng.choice([60.0, 40.0]),
         "cap": rng.choice([None, None, 50, 200]), "cont": rng.random() < 0.4, "nloads": 8760,
         "length": rng.choice([85.0, 40.0, 100.0]), "width": rng.choice([36.5, 40.0, 85.0]), "b_min": bmin, "b_max_x": bmin + rng.choice([2.0, 5.0]), "b_max_y": bmin + rng.choice([3.0, 7.0]),
         "flow": round(rng.uniform(0.1, 2.0), 3), "flow_type": rng.choice(["borehole", "system"]),
         "perimeter": rng.choice([None, 0.8, 1.0]), "rot_max": rng.choice([0.0, 10.0, 45.0, 90.0, 33.3]), "rot_min": rng.choice([-90.0, -60.0, -45.0, -10.0, -33.3])}
    if a["fluid"] != "Water":
        a["conc"] = rng.choice([10.0, 20.0, 35.0])
    if rng.random() < 0.5:  # arbitrary rotation limits, not only the ones that happen to convert exactly
        a["rot_max"] = round(rng.uniform(0.0, 90.0), rng.choice([0, 1, 2]))
        a["rot_min"] = -round(rng.uniform(0.0, 90.0), rng.choice([0, 1, 2]))
    return a


native(f"{M_}:GHEManager.write_input_file", _roundtrip_check, _roundtrip_gen, None,
       bound="API configurations over 6 geometry methods (RowWise with/without perimeter ratio, rotations incl. non-representable degrees) x 4 pipe arrangements x 5 fluids x optional cap/flag x random in-range numbers: written file validates, loader reconstructs the configuration, second write is byte-identical")


# ---- deductive part: what each to_input writes, what write_input_file assembles, and the arithmetic of the round trip ------------
from pyvc.values import EnumVal, PyObj  # noqa: E402

contract("ghedesigner.borehole:GHEBorehole.to_input", dict(self=ObjOf("ghedesigner.borehole:GHEBorehole", D=Real, r_b=Real)),
         ensures=[("fields", lambda E: And(E.result["buried_depth"] == E.self.D, E.result["diameter"] == E.self.r_b * 2))], returns=DictOf(buried_depth=Real, diameter=Real))
contract("ghedesigner.media:ThermalProperty.to_input", dict(self=ObjOf("ghedesigner.media:ThermalProperty", k=Real, rhoCp=Real)),
         ensures=[("fields", lambda E: And(E.result["conductivity"] == E.self.k, E.result["rho_cp"] == E.self.rhoCp))], returns=DictOf(conductivity=Real, rho_cp=Real))
contract("ghedesigner.media:Soil.to_input", dict(self=ObjOf("ghedesigner.media:Soil", k=Real, rhoCp=Real, ugt=Real)),
         ensures=[("fields", lambda E: And(E.result["conductivity"] == E.self.k, E.result["rho_cp"] == E.self.rhoCp, E.result["undisturbed_temp"] == E.self.ugt))], returns=DictOf(conductivity=Real, rho_cp=Real, undisturbed_temp=Real))
contract("ghedesigner.simulation:SimulationParameters.to_input", dict(self=ObjOf("ghedesigner.simulation:SimulationParameters", end_month=Int)),
         ensures=[("fields", lambda E: E.result["num_months"] == E.self.end_month)], returns=DictOf(num_months=Int))
G_ = "ghedesigner.geometry"
contract(f"{G_}:GeometricConstraintsNearSquare.to_input", dict(self=ObjOf(f"{G_}:GeometricConstraintsNearSquare", b=Real, length=Real)),
         ensures=[("fields", lambda E: And(E.result["length"] == E.self.length, E.result["b"] == E.self.b, E.result["method"] == "NEARSQUARE"))], returns=DictOf(length=Real, b=Real, method=Const("NEARSQUARE")))
contract(f"{G_}:GeometricConstraintsRectangle.to_input", dict(self=ObjOf(f"{G_}:GeometricConstraintsRectangle", width=Real, length=Real, b_min=Real, b_max_x=Real)),
         ensures=[("fields", lambda E: And(E.result["length"] == E.self.length, E.result["width"] == E.self.width, E.result["b_min"] == E.self.b_min,
                                           E.result["b_max"] == E.self.b_max_x, E.result["method"] == "RECTANGLE"))], returns=DictOf(length=Real, width=Real, b_min=Real, b_max=Real, method=Const("RECTANGLE")))
for _cls, _name in (("GeometricConstraintsBiRectangle", "BIRECTANGLE"), ("GeometricConstraintsBiZoned", "BIZONEDRECTANGLE")):
    contract(f"{G_}:{_cls}.to_input", dict(self=ObjOf(f"{G_}:{_cls}", width=Real, length=Real, b_min=Real, b_max_x=Real, b_max_y=Real)),
             ensures=[("fields", (lambda E, _name=_name: And(E.result["length"] == E.self.length, E.result["width"] == E.self.width, E.result["b_min"] == E.self.b_min,
                                                             E.result["b_max_x"] == E.self.b_max_x, E.result["b_max_y"] == E.self.b_max_y, E.result["method"] == _name)))],
             returns=DictOf(length=Real, width=Real, b_min=Real, b_max_x=Real, b_max_y=Real, method=Const(_name)))
RAD = 180 / PI
for _vn, _ps in (("with-ratio", Real), ("without-ratio", NoneT())):
    contract(f"{G_}:GeometricConstraintsRowWise.to_input",
             dict(self=ObjOf(f"{G_}:GeometricConstraintsRowWise", perimeter_spacing_ratio=_ps, min_spacing=Real, max_spacing=Real, spacing_step=Real, min_rotation=Real,
                             max_rotation=Real, rotate_step=Real, property_boundary=OpaqueOf("list"), no_go_boundaries=OpaqueOf("list"))),
             name=f"{G_}:GeometricConstraintsRowWise.to_input#{_vn}",
             ensures=[("fields", (lambda E, _vn=_vn: And(E.result["min_spacing"] == E.self.min_spacing, E.result["max_spacing"] == E.self.max_spacing, E.result["spacing_step"] == E.self.spacing_step,
                                                         E.result["min_rotation"] == E.self.min_rotation * RAD, E.result["max_rotation"] == E.self.max_rotation * RAD,
                                                         E.result["rotate_step"] == E.self.rotate_step, E.result["method"] == "ROWWISE",
                                                         ("perimeter_spacing_ratio" in E.result) == (_vn == "with-ratio"))))]
             + ([("ratio", lambda E: E.result["perimeter_spacing_ratio"] == E.self.perimeter_spacing_ratio)] if _vn == "with-ratio" else []),
             returns=DictOf(**({"perimeter_spacing_ratio": Real} if _vn == "with-ratio" else {}), max_spacing=Real, min_spacing=Real, spacing_step=Real, max_rotation=Real,
                            min_rotation=Real, rotate_step=Real, property_boundary=OpaqueOf("list"), no_go_boundaries=OpaqueOf("list"), method=Const("ROWWISE"))).applies = lambda env: False


def lemma_roundtrip_arithmetic():
    """the loader's inverse transformations undo the writer's over the reals: radius <-> diameter, radians <-> degrees"""
    x, d = z3.Reals("x d")
    return [], And((x * 2) / 2 == x, (x / 2) * 2 == x, (d * (PI / 180)) * (180 / PI) == d, (d * (180 / PI)) * (PI / 180) == d)


LEMMAS = [("writer-and-loader-transformations-are-inverse-over-the-reals", lemma_roundtrip_arithmetic)]
TO_INPUTS = ["ghedesigner.borehole:GHEBorehole.to_input", "ghedesigner.media:ThermalProperty.to_input", "ghedesigner.media:Soil.to_input",
             "ghedesigner.simulation:SimulationParameters.to_input", f"{G_}:GeometricConstraintsNearSquare.to_input", f"{G_}:GeometricConstraintsRectangle.to_input",
             f"{G_}:GeometricConstraintsBiRectangle.to_input", f"{G_}:GeometricConstraintsBiZoned.to_input",
             f"{G_}:GeometricConstraintsRowWise.to_input#with-ratio", f"{G_}:GeometricConstraintsRowWise.to_input#without-ratio"]


# ---- GHEManager.write_input_file: what is serialised, per pipe arrangement ---------------------------------------------------------
PIPE_ENUM = {"COAXIAL": 1, "DOUBLEUTUBEPARALLEL": 2, "DOUBLEUTUBESERIES": 3, "SINGLEUTUBE": 4}
contract("ghedesigner.media:GHEFluid.to_input", dict(self=ObjOf("ghedesigner.media:GHEFluid", fluid_type=Const(EnumVal("FluidType", "WATER", 5)), concentration_percent=Real, temperature=Real)),
         ensures=[("fields", lambda E: And(E.result["fluid_name"] == "WATER", E.result["concentration_percent"] == E.self.concentration_percent, E.result["temperature"] == E.self.temperature))],
         returns=DictOf(fluid_name=Const("WATER"), concentration_percent=Real, temperature=Real))
contract("ghedesigner.design:DesignBase.to_input", dict(self=ObjOf("ghedesigner.design:DesignNearSquare", V_flow=Real, flow_type=Const(EnumVal("FlowConfigType", "SYSTEM", 2)))),
         ensures=[("fields", lambda E: And(E.result["flow_rate"] == E.self.V_flow, E.result["flow_type"] == "SYSTEM"))], returns=DictOf(flow_rate=Real, flow_type=Const("SYSTEM")))


def _mgr_shape(pipe, mb, cont):
    coax = pipe == "COAXIAL"
    pair = FixedList([Real, Real])
    return ObjOf("ghedesigner.manager:GHEManager",
                 _geometric_constraints=ObjOf(f"{G_}:GeometricConstraintsRectangle", width=Real, length=Real, b_min=Real, b_max_x=Real),
                 _simulation_parameters=ObjOf("ghedesigner.simulation:SimulationParameters", max_height=Real, min_height=Real, max_EFT_allowable=Real, min_EFT_allowable=Real,
                                              max_boreholes=Int if mb else NoneT(), continue_if_design_unmet=Const(cont), end_month=Int),
                 _design=ObjOf("ghedesigner.design:DesignNearSquare", V_flow=Real, flow_type=Const(EnumVal("FlowConfigType", "SYSTEM", 2))),
                 _pipe=ObjOf("ghedesigner.media:Pipe", rhoCp=Real, roughness=Real, r_in=pair if coax else Real, r_out=pair if coax else Real, s=Real, k=pair if coax else Real),
                 pipe_type=Const(EnumVal("BHPipeType", pipe, PIPE_ENUM[pipe])) if pipe != "UNSET" else NoneT(),
                 _fluid=ObjOf("ghedesigner.media:GHEFluid", fluid_type=Const(EnumVal("FluidType", "WATER", 5)), concentration_percent=Real, temperature=Real),
                 _grout=ObjOf("ghedesigner.media:Grout", k=Real, rhoCp=Real), _soil=ObjOf("ghedesigner.media:Soil", k=Real, rhoCp=Real, ugt=Real),
                 _borehole=ObjOf("ghedesigner.borehole:GHEBorehole", D=Real, r_b=Real), _ground_loads=ListOf(Real))


def _written_spec(pipe, mb, cont):
    def J(E):
        return E._written.json_of

    cl = [
        ("sections-are-the-component-serialisations",
         lambda E: And(J(E)["grout"]["conductivity"] == E.self._grout.k, J(E)["grout"]["rho_cp"] == E.self._grout.rhoCp, J(E)["soil"]["undisturbed_temp"] == E.self._soil.ugt,
                       J(E)["soil"]["conductivity"] == E.self._soil.k, J(E)["soil"]["rho_cp"] == E.self._soil.rhoCp,
                       J(E)["fluid"]["concentration_percent"] == E.self._fluid.concentration_percent, J(E)["fluid"]["temperature"] == E.self._fluid.temperature,
                       J(E)["borehole"]["buried_depth"] == E.self._borehole.D, J(E)["borehole"]["diameter"] == E.self._borehole.r_b * 2,
                       J(E)["simulation"]["num_months"] == E.self._simulation_parameters.end_month)),
        ("heights-go-to-the-geometry-section-and-temperature-limits-to-the-design-section",
         lambda E: And(J(E)["geometric_constraints"]["max_height"] == E.self._simulation_parameters.max_height, J(E)["geometric_constraints"]["min_height"] == E.self._simulation_parameters.min_height,
                       J(E)["geometric_constraints"]["length"] == E.self._geometric_constraints.length, J(E)["geometric_constraints"]["b_max"] == E.self._geometric_constraints.b_max_x,
                       J(E)["design"]["max_eft"] == E.self._simulation_parameters.max_EFT_allowable, J(E)["design"]["min_eft"] == E.self._simulation_parameters.min_EFT_allowable,
                       J(E)["design"]["flow_rate"] == E.self._design.V_flow)),
        ("optional-keys-present-exactly-when-set",
         lambda E: And(("max_boreholes" in J(E)["design"]) == mb, ("continue_if_design_unmet" in J(E)["design"]) == cont)),
        ("loads-echoed-in-order",
         lambda E: And(J(E)["loads"]["ground_loads"].len == E.self._ground_loads.len,
                       forall(1, lambda i: Implies(And(0 <= i, i < E.self._ground_loads.len), J(E)["loads"]["ground_loads"][i] == E.self._ground_loads[i])))),
        ("pipe-arrangement-name", lambda E: J(E)["pipe"]["arrangement"] == pipe),
        ("pipe-common", lambda E: And(J(E)["pipe"]["rho_cp"] == E.self._pipe.rhoCp, J(E)["pipe"]["roughness"] == E.self._pipe.roughness)),
    ]
    if mb:
        cl.append(("max-boreholes-value", lambda E: J(E)["design"]["max_boreholes"] == E.self._simulation_parameters.max_boreholes))
    if pipe == "COAXIAL":
        cl.append(("coaxial-diameters-are-twice-the-radii",
                   lambda E: And(J(E)["pipe"]["inner_pipe_d_in"] == E.self._pipe.r_in[0] * 2, J(E)["pipe"]["inner_pipe_d_out"] == E.self._pipe.r_in[1] * 2,
                                 J(E)["pipe"]["outer_pipe_d_in"] == E.self._pipe.r_out[0] * 2, J(E)["pipe"]["outer_pipe_d_out"] == E.self._pipe.r_out[1] * 2,
                                 J(E)["pipe"]["conductivity_inner"] == E.self._pipe.k[0], J(E)["pipe"]["conductivity_outer"] == E.self._pipe.k[1])))
    else:
        cl.append(("u-tube-diameters-are-twice-the-radii",
                   lambda E: And(J(E)["pipe"]["inner_diameter"] == E.self._pipe.r_in * 2, J(E)["pipe"]["outer_diameter"] == E.self._pipe.r_out * 2,
                                 J(E)["pipe"]["shank_spacing"] == E.self._pipe.s, J(E)["pipe"]["conductivity"] == E.self._pipe.k)))
    return cl


WRITE_INPUT = []
for _pipe in PIPE_ENUM:
    for _mb, _cont in ((False, False), (True, True)) + (((False, True), (True, False)) if _pipe == "SINGLEUTUBE" else ()):
        _n = f"ghedesigner.manager:GHEManager.write_input_file#{_pipe}-{'with' if _mb else 'without'}-cap-{'with' if _cont else 'without'}-continue-flag"
        contract("ghedesigner.manager:GHEManager.write_input_file", dict(self=_mgr_shape(_pipe, _mb, _cont), output_file_path=OpaqueOf("path"), throw=Const(True)), name=_n,
                 ensures=[("returns-zero", lambda E: E.result == 0)] + _written_spec(_pipe, _mb, _cont), returns=Int).applies = lambda env: False
        WRITE_INPUT.append(_n)
_n = "ghedesigner.manager:GHEManager.write_input_file#pipe-type-unset"
contract("ghedesigner.manager:GHEManager.write_input_file", dict(self=_mgr_shape("UNSET", False, False), output_file_path=OpaqueOf("path"), throw=Bool), name=_n,
         raises=[("ValueError", lambda E: E.throw)], ensures=[("refused-with-status-1", lambda E: E.result == 1)], returns=Int).applies = lambda env: False
WRITE_INPUT.append(_n)


# ---- the loading side: each setter stores what the input file gives it (inverse transformations where the writer transformed) -------
MGR = "ghedesigner.manager:GHEManager"
# the manager as the setters see it: every configuration slot is present, so that a setter's frame ("writes only its own slot") is a
# statement about all the others
_M0 = ObjOf(MGR, _fluid=ObjOf("ghedesigner.media:GHEFluid", concentration_percent=Real, temperature=Real, rho=Real, mu=Real, cp=Real, k=Real),
            _grout=ObjOf("ghedesigner.media:Grout", k=Real, rhoCp=Real), _soil=ObjOf("ghedesigner.media:Soil", k=Real, rhoCp=Real, ugt=Real),
            _pipe=ObjOf("ghedesigner.media:Pipe", k=Real, rhoCp=Real, r_in=Real, r_out=Real, s=Real, roughness=Real, n_pipes=Int),
            _borehole=ObjOf("ghedesigner.borehole:GHEBorehole", H=Real, D=Real, r_b=Real, x=Real, y=Real),
            _simulation_parameters=ObjOf("ghedesigner.simulation:SimulationParameters", start_month=Int, end_month=Int, max_EFT_allowable=Real, min_EFT_allowable=Real, max_height=Real,
                                         min_height=Real, max_boreholes=Int, continue_if_design_unmet=Bool),
            _ground_loads=ListOf(Real), _geometric_constraints=ObjOf(f"{G_}:GeometricConstraintsNearSquare", b=Real, length=Real, type=Int),
            _design=ObjOf("ghedesigner.design:DesignNearSquare", V_flow=Real), pipe_type=Int, geom_type=Int, _search=NoneT(), _search_time=Real)
# plain field-assigning constructors are inlined (their statements are executed in the caller's obligations)
for _q in ("ghedesigner.media:ThermalProperty.__init__", "ghedesigner.media:Soil.__init__", "ghedesigner.media:Pipe.__init__", "ghedesigner.simulation:SimulationParameters.__init__",
           f"{G_}:GeometricConstraints.__init__", f"{G_}:GeometricConstraintsNearSquare.__init__", f"{G_}:GeometricConstraintsRectangle.__init__",
           f"{G_}:GeometricConstraintsBiRectangle.__init__", f"{G_}:GeometricConstraintsBiZoned.__init__", f"{G_}:GeometricConstraintsRowWise.__init__"):
    contract(_q, dict(), inline=True)
# pipe centre positions are not part of the input file: the placement is used through an (unverified, assumed pure) caller view
contract("ghedesigner.media:Pipe.place_pipes", dict(s=Real, r_out=Real, n_pipes=Int), returns=ListOf(TupleOf(Real, Real)), name="ghedesigner.media:Pipe.place_pipes#caller")
contract(f"{MGR}.set_grout", dict(self=_M0, conductivity=Real, rho_cp=Real),
         ensures=[("stored", lambda E: And(E.self._grout.k == E.conductivity, E.self._grout.rhoCp == E.rho_cp, E.result == 0))], returns=Int)
contract(f"{MGR}.set_soil", dict(self=_M0, conductivity=Real, rho_cp=Real, undisturbed_temp=Real),
         ensures=[("stored", lambda E: And(E.self._soil.k == E.conductivity, E.self._soil.rhoCp == E.rho_cp, E.self._soil.ugt == E.undisturbed_temp, E.result == 0))], returns=Int)
for _vn, _mbs in (("with-cap", Int), ("without-cap", NoneT())):
    contract(f"{MGR}.set_simulation_parameters", dict(self=_M0, num_months=Int, max_eft=Real, min_eft=Real, max_height=Real, min_height=Real, max_boreholes=_mbs, continue_if_design_unmet=Bool),
             name=f"{MGR}.set_simulation_parameters#{_vn}",
             requires=[("positive-months", lambda E: E.num_months >= 1)],
             ensures=[("stored", lambda E: And(E.self._simulation_parameters.end_month == E.num_months, E.self._simulation_parameters.max_EFT_allowable == E.max_eft,
                                               E.self._simulation_parameters.min_EFT_allowable == E.min_eft, E.self._simulation_parameters.max_height == E.max_height,
                                               E.self._simulation_parameters.min_height == E.min_height,
                                               E.self._simulation_parameters.continue_if_design_unmet == E.continue_if_design_unmet, E.result == 0)),
                      ("cap-stored", (lambda E, _vn=_vn: E.self._simulation_parameters.max_boreholes == E.max_boreholes if _vn == "with-cap" else E.self._simulation_parameters.max_boreholes is None))],
             returns=Int).applies = (lambda env, _vn=_vn: (env.get("max_boreholes") is None) == (_vn == "without-cap"))
contract(f"{MGR}.set_geometry_constraints_near_square", dict(self=_M0, b=Real, length=Real),
         ensures=[("stored", lambda E: And(E.self._geometric_constraints.b == E.b, E.self._geometric_constraints.length == E.length, E.result == 0))], returns=Int)
contract(f"{MGR}.set_geometry_constraints_rectangle", dict(self=_M0, length=Real, width=Real, b_min=Real, b_max=Real),
         ensures=[("stored", lambda E: And(E.self._geometric_constraints.length == E.length, E.self._geometric_constraints.width == E.width,
                                           E.self._geometric_constraints.b_min == E.b_min, E.self._geometric_constraints.b_max_x == E.b_max, E.self.geom_type == 5, E.result == 0))], returns=Int)
for _m, _gt in (("bi_rectangle", 1), ("bi_zoned_rectangle", 3)):
    contract(f"{MGR}.set_geometry_constraints_{_m}", dict(self=_M0, length=Real, width=Real, b_min=Real, b_max_x=Real, b_max_y=Real),
             ensures=[("method-recorded", (lambda E, _gt=_gt: E.self.geom_type == _gt)), ("stored", lambda E: And(E.self._geometric_constraints.length == E.length, E.self._geometric_constraints.width == E.width, E.self._geometric_constraints.b_min == E.b_min,
                                               E.self._geometric_constraints.b_max_x == E.b_max_x, E.self._geometric_constraints.b_max_y == E.b_max_y, E.result == 0))], returns=Int)
for _vn, _ps in (("with-ratio", Real), ("without-ratio", NoneT())):
    contract(f"{MGR}.set_geometry_constraints_rowwise",
             dict(self=_M0, perimeter_spacing_ratio=_ps, max_spacing=Real, min_spacing=Real, spacing_step=Real, max_rotation=Real, min_rotation=Real, rotate_step=Real,
                  property_boundary=OpaqueOf("list"), no_go_boundaries=OpaqueOf("list")), name=f"{MGR}.set_geometry_constraints_rowwise#{_vn}",
             ensures=[("stored-with-rotations-in-radians",
                       lambda E: And(E.self._geometric_constraints.min_spacing == E.min_spacing, E.self._geometric_constraints.max_spacing == E.max_spacing,
                                     E.self._geometric_constraints.spacing_step == E.spacing_step, E.self._geometric_constraints.rotate_step == E.rotate_step,
                                     E.self._geometric_constraints.max_rotation == E.old.max_rotation * (PI / 180), E.self._geometric_constraints.min_rotation == E.old.min_rotation * (PI / 180),
                                     E.self.geom_type == 6, E.result == 0))]
             + ([("ratio-stored", lambda E: E.self._geometric_constraints.perimeter_spacing_ratio == E.perimeter_spacing_ratio)] if _vn == "with-ratio" else []),
             returns=Int).applies = lambda env: False
contract(f"{MGR}.set_coaxial_pipe", dict(self=_M0, inner_pipe_d_in=Real, inner_pipe_d_out=Real, outer_pipe_d_in=Real, outer_pipe_d_out=Real, roughness=Real, conductivity_inner=Real,
                                         conductivity_outer=Real, rho_cp=Real),
         ensures=[("radii-are-half-the-diameters",
                   lambda E: And(E.self._pipe.r_in[0] == E.inner_pipe_d_in / 2, E.self._pipe.r_in[1] == E.inner_pipe_d_out / 2, E.self._pipe.r_out[0] == E.outer_pipe_d_in / 2,
                                 E.self._pipe.r_out[1] == E.outer_pipe_d_out / 2, E.self._pipe.k[0] == E.conductivity_inner, E.self._pipe.k[1] == E.conductivity_outer,
                                 E.self._pipe.roughness == E.roughness, E.self._pipe.rhoCp == E.rho_cp, E.self.pipe_type == 1, E.result == 0))], returns=Int)
for _m, _e in (("single_u_tube_pipe", "SINGLEUTUBE"), ("double_u_tube_pipe_parallel", "DOUBLEUTUBEPARALLEL"), ("double_u_tube_pipe_series", "DOUBLEUTUBESERIES")):
    contract(f"{MGR}.set_{_m}", dict(self=_M0, inner_diameter=Real, outer_diameter=Real, shank_spacing=Real, roughness=Real, conductivity=Real, rho_cp=Real),
             ensures=[("radii-are-half-the-diameters",
                       (lambda E, _e=_e: And(E.self._pipe.r_in == E.inner_diameter / 2, E.self._pipe.r_out == E.outer_diameter / 2, E.self._pipe.s == E.shank_spacing, E.self._pipe.k == E.conductivity,
                                             E.self._pipe.roughness == E.roughness, E.self._pipe.rhoCp == E.rho_cp, E.self.pipe_type == PIPE_ENUM[_e], E.result == 0)))],
             returns=Int)
SETTERS = [f"{MGR}.set_grout", f"{MGR}.set_soil", f"{MGR}.set_simulation_parameters#with-cap", f"{MGR}.set_simulation_parameters#without-cap", f"{MGR}.set_geometry_constraints_near_square", f"{MGR}.set_geometry_constraints_rectangle",
           f"{MGR}.set_geometry_constraints_bi_rectangle", f"{MGR}.set_geometry_constraints_bi_zoned_rectangle", f"{MGR}.set_geometry_constraints_rowwise#with-ratio",
           f"{MGR}.set_geometry_constraints_rowwise#without-ratio", f"{MGR}.set_coaxial_pipe", f"{MGR}.set_single_u_tube_pipe", f"{MGR}.set_double_u_tube_pipe_parallel",
           f"{MGR}.set_double_u_tube_pipe_series"]


# ---- frames of the setters (shaped: callers havoc exactly these slots) ------------------------------------------------------------------
def _slot(name, shape):
    return ((lambda P, name=name: (P.self, name)), shape)


_GROUT = ObjOf("ghedesigner.media:Grout", k=Real, rhoCp=Real)
_SOIL = ObjOf("ghedesigner.media:Soil", k=Real, rhoCp=Real, ugt=Real)
_SIMP = ObjOf("ghedesigner.simulation:SimulationParameters", start_month=Int, end_month=Int, max_EFT_allowable=Real, min_EFT_allowable=Real, max_height=Real, min_height=Real,
              max_boreholes=Int, continue_if_design_unmet=Bool)
_PIPE_U = ObjOf("ghedesigner.media:Pipe", k=Real, rhoCp=Real, r_in=Real, r_out=Real, s=Real, roughness=Real, n_pipes=Int, pos=ListOf(TupleOf(Real, Real)))
_PIPE_C = ObjOf("ghedesigner.media:Pipe", k=FixedList([Real, Real]), rhoCp=Real, r_in=FixedList([Real, Real]), r_out=FixedList([Real, Real]), s=Real, roughness=Real, n_pipes=Int)
_GC = {"near_square": ObjOf(f"{G_}:GeometricConstraintsNearSquare", b=Real, length=Real, type=Int),
       "rectangle": ObjOf(f"{G_}:GeometricConstraintsRectangle", length=Real, width=Real, b_min=Real, b_max_x=Real, type=Int),
       "bi_rectangle": ObjOf(f"{G_}:GeometricConstraintsBiRectangle", length=Real, width=Real, b_min=Real, b_max_x=Real, b_max_y=Real, type=Int),
       "bi_zoned_rectangle": ObjOf(f"{G_}:GeometricConstraintsBiZoned", length=Real, width=Real, b_min=Real, b_max_x=Real, b_max_y=Real, type=Int)}
_RW = lambda ps: ObjOf(f"{G_}:GeometricConstraintsRowWise", perimeter_spacing_ratio=ps, min_spacing=Real, max_spacing=Real, spacing_step=Real, min_rotation=Real, max_rotation=Real,  # noqa: E731
                       rotate_step=Real, property_boundary=OpaqueOf("list"), no_go_boundaries=OpaqueOf("list"), type=Int)
_FRAMES = {f"{MGR}.set_grout": [_slot("_grout", _GROUT)], f"{MGR}.set_soil": [_slot("_soil", _SOIL)], f"{MGR}.set_simulation_parameters#with-cap": [_slot("_simulation_parameters", _SIMP)],
           f"{MGR}.set_simulation_parameters#without-cap": [_slot("_simulation_parameters", ObjOf("ghedesigner.simulation:SimulationParameters", start_month=Int, end_month=Int, max_EFT_allowable=Real,
                                                                                                     min_EFT_allowable=Real, max_height=Real, min_height=Real, max_boreholes=NoneT(),
                                                                                                     continue_if_design_unmet=Bool))],
           f"{MGR}.set_coaxial_pipe": [_slot("_pipe", _PIPE_C), _slot("pipe_type", Int)],
           f"{MGR}.set_geometry_constraints_rowwise#with-ratio": [_slot("_geometric_constraints", _RW(Real)), _slot("geom_type", Int)],
           f"{MGR}.set_geometry_constraints_rowwise#without-ratio": [_slot("_geometric_constraints", _RW(NoneT())), _slot("geom_type", Int)]}
for _m in ("single_u_tube_pipe", "double_u_tube_pipe_parallel", "double_u_tube_pipe_series"):
    _FRAMES[f"{MGR}.set_{_m}"] = [_slot("_pipe", _PIPE_U), _slot("pipe_type", Int)]
for _m, _sh in _GC.items():
    _FRAMES[f"{MGR}.set_geometry_constraints_{_m}"] = [_slot("_geometric_constraints", _sh)] + ([_slot("geom_type", Int)] if _m != "near_square" else [])
for _n, _fr in _FRAMES.items():
    REG.contracts[_n].assigns = list(_fr)
# the two row-wise variants are chosen at a call site by whether a ratio is passed
REG.contracts[f"{MGR}.set_geometry_constraints_rowwise#with-ratio"].applies = lambda env: env.get("perimeter_spacing_ratio") is not None
REG.contracts[f"{MGR}.set_geometry_constraints_rowwise#without-ratio"].applies = lambda env: env.get("perimeter_spacing_ratio") is None


# ---- the name setters (letter case of the names does not matter: C18) and the trivial loads setter -----------------------------------------
GEOM_ENUM = {"BIRECTANGLE": 1, "BIRECTANGLECONSTRAINED": 2, "BIZONEDRECTANGLE": 3, "NEARSQUARE": 4, "RECTANGLE": 5, "ROWWISE": 6}
NAME_SETTERS = []
for _nm, _val in PIPE_ENUM.items():
    for _spelling in (_nm, _nm.lower(), _nm.title()):
        _n = f"{MGR}.set_pipe_type#{_spelling}"
        contract(f"{MGR}.set_pipe_type", dict(self=_M0, bh_pipe_str=Const(_spelling), throw=Bool), name=_n,
                 ensures=[("arrangement-recognised-in-any-letter-case", (lambda E, _val=_val: And(E.self.pipe_type == _val, E.result == 0)))],
                 assigns=[_slot("pipe_type", Int)], returns=Int).applies = (lambda env, _s=_spelling: env.get("bh_pipe_str") == _s)
        NAME_SETTERS.append(_n)
for _nm, _val in GEOM_ENUM.items():
    for _spelling in (_nm, _nm.lower()):
        _n = f"{MGR}.set_design_geometry_type#{_spelling}"
        contract(f"{MGR}.set_design_geometry_type", dict(self=_M0, design_geometry_str=Const(_spelling), throw=Bool), name=_n,
                 ensures=[("method-recognised-in-any-letter-case", (lambda E, _val=_val: And(E.self.geom_type == _val, E.result == 0)))],
                 assigns=[_slot("geom_type", Int)], returns=Int).applies = (lambda env, _s=_spelling: env.get("design_geometry_str") == _s)
        NAME_SETTERS.append(_n)
for _fn, _par in (("set_pipe_type", "bh_pipe_str"), ("set_design_geometry_type", "design_geometry_str")):
    _n = f"{MGR}.{_fn}#unknown-name"
    contract(f"{MGR}.{_fn}", {"self": _M0, _par: Const("NO_SUCH_NAME"), "throw": Bool}, name=_n,
             raises={"ValueError": lambda E: E.throw}, ensures=[("refused", lambda E: E.result == 1)], returns=Int).applies = (lambda env, _par=_par: env.get(_par) == "NO_SUCH_NAME")
    NAME_SETTERS.append(_n)
contract(f"{MGR}.set_ground_loads_from_hourly_list", dict(self=_M0, hourly_ground_loads=ListOf(Real)),
         ensures=[("stored-as-given", lambda E: And(E.self._ground_loads.raw() is E.hourly_ground_loads.raw(), E.result == 0))],
         assigns=[_slot("_ground_loads", AliasOf(lambda P: P.hourly_ground_loads))], returns=Int)
NAME_SETTERS.append(f"{MGR}.set_ground_loads_from_hourly_list")


# ---- the command-line loading path: JSON -> setter calls (_run_manager_from_cli_worker) --------------------------------------------------
from contracts import cli as _cli  # noqa: E402,F401  (validate_input_file#caller, PathS)
from contracts import flow as _flow  # noqa: E402

contract(f"{MGR}.__init__", dict(), inline=True)  # plain field initialisation (every slot None)
for _n in _flow.SET_DESIGN:
    REG.contracts[_n].applies = lambda env: False  # verified against the body only; call sites use the view below
_DESIGN = ObjOf("ghedesigner.design:DesignNearSquare", V_flow=Real, flow_type=Int, borehole=ObjOf("ghedesigner.borehole:GHEBorehole", H=Real))
contract(f"{MGR}.set_design", dict(self=_M0, flow_rate=Real, flow_type_str=OpaqueOf("str"), throw=Bool), name=f"{MGR}.set_design#loader",
         ensures=[("design-carries-the-flow", lambda E: And(E.self._design.V_flow == E.flow_rate, E.result == 0))],
         assigns=[_slot("_design", _DESIGN)], returns=Int,
         notes="caller view of the 12 verified geometry x flow variants (flow.py): the design object gets the flow rate; which class is built is decided by geom_type").applies = lambda env: True
_FLUID = ObjOf("ghedesigner.media:GHEFluid", concentration_percent=Real, temperature=Real, name_given=OpaqueOf("str"))
contract(f"{MGR}.set_fluid", dict(self=_M0, fluid_name=OpaqueOf("str"), concentration_percent=Real, temperature=Real, throw=Bool), name=f"{MGR}.set_fluid#loader",
         ensures=[("fluid-built-from-the-three-inputs", lambda E: And(E.self._fluid.concentration_percent == E.concentration_percent, E.self._fluid.temperature == E.temperature, E.result == 0))],
         assigns=[_slot("_fluid", _FLUID)], returns=Int,
         notes="ASSUMED (body builds an scp fluid: external): GHEFluid(fluid_str, percent, temperature) keeps percent and temperature; exercised by the bounded round trip").applies = lambda env: True
_BH = ObjOf("ghedesigner.borehole:GHEBorehole", H=Real, D=Real, r_b=Real)
contract(f"{MGR}.set_borehole", dict(self=_M0, height=Real, buried_depth=Real, diameter=Real), name=f"{MGR}.set_borehole#loader",
         ensures=[("borehole-from-depth-and-half-the-diameter", lambda E: And(E.self._borehole.H == E.height, E.self._borehole.D == E.buried_depth, E.self._borehole.r_b == E.diameter / 2, E.result == 0))],
         assigns=[_slot("_borehole", _BH)], returns=Int,
         notes="caller view of set_borehole#body (ctors.py; GHEBorehole.__init__ verified down to the ASSUMED contract of pygfunction's Borehole.__init__)").applies = lambda env: True
for _m in ("find_design", "prepare_results", "write_output_files"):
    contract(f"{MGR}.{_m}", dict(self=_M0), name=f"{MGR}.{_m}#loader", raises={"Exception": None}, returns=NoneT(),
             assigns=[_slot("_search", OpaqueOf("search")), _slot("results", OpaqueOf("results")), _slot("_search_time", Real)],
             notes="abstract in the loader contract: the design run writes _search / results only (frames of find_design are proved in C13)").applies = (
                 lambda env: isinstance(env["self"].fields.get("_design"), PyObj) and "coordinates_domain" not in env["self"].fields["_design"].fields)
contract(f"{MGR}.set_geometry_constraints_bi_rectangle_constrained", dict(self=_M0, b_min=Real, b_max_x=Real, b_max_y=Real, property_boundary=OpaqueOf("list"), no_go_boundaries=OpaqueOf("list")),
         name=f"{MGR}.set_geometry_constraints_bi_rectangle_constrained#loader",
         ensures=[("stored", lambda E: And(E.self._geometric_constraints.b_min == E.b_min, E.self._geometric_constraints.b_max_x == E.b_max_x, E.self._geometric_constraints.b_max_y == E.b_max_y, E.self.geom_type == 2, E.result == 0))],
         assigns=[_slot("_geometric_constraints", ObjOf(f"{G_}:GeometricConstraintsBiRectangleConstrained", b_min=Real, b_max_x=Real, b_max_y=Real, type=Int)), _slot("geom_type", Int)],
         returns=Int, notes="ASSUMED caller view (body wraps polygons; not verified)").applies = lambda env: True

_JSON_PIPE = {
    "SINGLEUTUBE": dict(inner_diameter=Real, outer_diameter=Real, shank_spacing=Real, roughness=Real, conductivity=Real, rho_cp=Real),
    "COAXIAL": dict(inner_pipe_d_in=Real, inner_pipe_d_out=Real, outer_pipe_d_in=Real, outer_pipe_d_out=Real, roughness=Real, conductivity_inner=Real, conductivity_outer=Real, rho_cp=Real)}
_JSON_PIPE["DOUBLEUTUBEPARALLEL"] = _JSON_PIPE["DOUBLEUTUBESERIES"] = _JSON_PIPE["SINGLEUTUBE"]
_JSON_GEOM = {
    "NEARSQUARE": dict(length=Real, b=Real), "RECTANGLE": dict(length=Real, width=Real, b_min=Real, b_max=Real),
    "BIRECTANGLE": dict(length=Real, width=Real, b_min=Real, b_max_x=Real, b_max_y=Real), "BIZONEDRECTANGLE": dict(length=Real, width=Real, b_min=Real, b_max_x=Real, b_max_y=Real),
    "BIRECTANGLECONSTRAINED": dict(b_min=Real, b_max_x=Real, b_max_y=Real, property_boundary=OpaqueOf("list"), no_go_boundaries=OpaqueOf("list")),
    "ROWWISE": dict(perimeter_spacing_ratio=Real, max_spacing=Real, min_spacing=Real, spacing_step=Real, max_rotation=Real, min_rotation=Real, rotate_step=Real,
                    property_boundary=OpaqueOf("list"), no_go_boundaries=OpaqueOf("list")),
    "ROWWISE-without-ratio": dict(max_spacing=Real, min_spacing=Real, spacing_step=Real, max_rotation=Real, min_rotation=Real, rotate_step=Real,
                                  property_boundary=OpaqueOf("list"), no_go_boundaries=OpaqueOf("list"))}


def _file_shape(pipe, geom, optional):
    method = geom.split("-")[0]
    design = dict(flow_rate=Real, flow_type=OpaqueOf("str"), max_eft=Real, min_eft=Real)
    if optional:
        design.update(max_boreholes=Int, continue_if_design_unmet=Bool)
    return DictOf(version=OpaqueOf("str"), fluid=DictOf(fluid_name=OpaqueOf("str"), concentration_percent=Real, temperature=Real), grout=DictOf(conductivity=Real, rho_cp=Real),
                  soil=DictOf(conductivity=Real, rho_cp=Real, undisturbed_temp=Real), pipe=DictOf(**_JSON_PIPE[pipe], arrangement=Const(pipe)),
                  borehole=DictOf(buried_depth=Real, diameter=Real), simulation=DictOf(num_months=Int),
                  geometric_constraints=DictOf(**_JSON_GEOM[geom], max_height=Real, min_height=Real, method=Const(method)), design=DictOf(**design),
                  loads=DictOf(ground_loads=ListOf(Real)))


def _loaded(pipe, geom, optional):
    def J(E):
        return E._file_json

    def g(E):
        return E.ghe

    cl = [("media-and-borehole",
           lambda E: And(g(E)._grout.k == J(E)["grout"]["conductivity"], g(E)._grout.rhoCp == J(E)["grout"]["rho_cp"], g(E)._soil.k == J(E)["soil"]["conductivity"],
                         g(E)._soil.rhoCp == J(E)["soil"]["rho_cp"], g(E)._soil.ugt == J(E)["soil"]["undisturbed_temp"],
                         g(E)._fluid.concentration_percent == J(E)["fluid"]["concentration_percent"], g(E)._fluid.temperature == J(E)["fluid"]["temperature"],
                         g(E)._borehole.D == J(E)["borehole"]["buried_depth"], g(E)._borehole.r_b == J(E)["borehole"]["diameter"] / 2)),
          ("simulation-parameters",
           lambda E: And(g(E)._simulation_parameters.end_month == J(E)["simulation"]["num_months"], g(E)._simulation_parameters.max_EFT_allowable == J(E)["design"]["max_eft"],
                         g(E)._simulation_parameters.min_EFT_allowable == J(E)["design"]["min_eft"], g(E)._simulation_parameters.max_height == J(E)["geometric_constraints"]["max_height"],
                         g(E)._simulation_parameters.min_height == J(E)["geometric_constraints"]["min_height"])),
          ("loads-and-flow", lambda E: And(g(E)._ground_loads.raw() is J(E)["loads"]["ground_loads"].raw(), g(E)._design.V_flow == J(E)["design"]["flow_rate"])),
          ("pipe-type", lambda E: g(E).pipe_type == PIPE_ENUM[pipe]), ("geometry-type", lambda E: g(E).geom_type == GEOM_ENUM[geom.split("-")[0]])]
    if optional:
        cl.append(("optional-keys-loaded", lambda E: And(g(E)._simulation_parameters.max_boreholes == J(E)["design"]["max_boreholes"],
                                                        g(E)._simulation_parameters.continue_if_design_unmet == J(E)["design"]["continue_if_design_unmet"])))
    else:
        cl.append(("optional-keys-default", lambda E: And(g(E)._simulation_parameters.max_boreholes is None, g(E)._simulation_parameters.continue_if_design_unmet == False)))  # noqa: E712
    if pipe == "COAXIAL":
        cl.append(("coaxial-radii-are-half-the-diameters",
                   lambda E: And(g(E)._pipe.r_in[0] == J(E)["pipe"]["inner_pipe_d_in"] / 2, g(E)._pipe.r_in[1] == J(E)["pipe"]["inner_pipe_d_out"] / 2,
                                 g(E)._pipe.r_out[0] == J(E)["pipe"]["outer_pipe_d_in"] / 2, g(E)._pipe.r_out[1] == J(E)["pipe"]["outer_pipe_d_out"] / 2,
                                 g(E)._pipe.k[0] == J(E)["pipe"]["conductivity_inner"], g(E)._pipe.k[1] == J(E)["pipe"]["conductivity_outer"], g(E)._pipe.rhoCp == J(E)["pipe"]["rho_cp"],
                                 g(E)._pipe.roughness == J(E)["pipe"]["roughness"])))
    else:
        cl.append(("u-tube-radii-are-half-the-diameters",
                   lambda E: And(g(E)._pipe.r_in == J(E)["pipe"]["inner_diameter"] / 2, g(E)._pipe.r_out == J(E)["pipe"]["outer_diameter"] / 2, g(E)._pipe.s == J(E)["pipe"]["shank_spacing"],
                                 g(E)._pipe.k == J(E)["pipe"]["conductivity"], g(E)._pipe.rhoCp == J(E)["pipe"]["rho_cp"], g(E)._pipe.roughness == J(E)["pipe"]["roughness"])))
    gc = lambda E: g(E)._geometric_constraints  # noqa: E731
    G = lambda E: J(E)["geometric_constraints"]  # noqa: E731
    if geom == "NEARSQUARE":
        cl.append(("geometry", lambda E: And(gc(E).b == G(E)["b"], gc(E).length == G(E)["length"])))
    elif geom == "RECTANGLE":
        cl.append(("geometry", lambda E: And(gc(E).length == G(E)["length"], gc(E).width == G(E)["width"], gc(E).b_min == G(E)["b_min"], gc(E).b_max_x == G(E)["b_max"])))
    elif geom in ("BIRECTANGLE", "BIZONEDRECTANGLE"):
        cl.append(("geometry", lambda E: And(gc(E).length == G(E)["length"], gc(E).width == G(E)["width"], gc(E).b_min == G(E)["b_min"], gc(E).b_max_x == G(E)["b_max_x"], gc(E).b_max_y == G(E)["b_max_y"])))
    elif geom == "BIRECTANGLECONSTRAINED":
        cl.append(("geometry", lambda E: And(gc(E).b_min == G(E)["b_min"], gc(E).b_max_x == G(E)["b_max_x"], gc(E).b_max_y == G(E)["b_max_y"])))
    else:
        cl.append(("geometry-with-rotations-in-radians",
                   lambda E: And(gc(E).min_spacing == G(E)["min_spacing"], gc(E).max_spacing == G(E)["max_spacing"], gc(E).spacing_step == G(E)["spacing_step"], gc(E).rotate_step == G(E)["rotate_step"],
                                 gc(E).min_rotation == G(E)["min_rotation"] * (PI / 180), gc(E).max_rotation == G(E)["max_rotation"] * (PI / 180))))
        if geom == "ROWWISE":
            cl.append(("perimeter-ratio-loaded", lambda E: gc(E).perimeter_spacing_ratio == G(E)["perimeter_spacing_ratio"]))
        else:
            cl.append(("perimeter-ratio-absent", lambda E: gc(E).perimeter_spacing_ratio is None))
    return cl


WORKER = []
_WORKER_VARIANTS = [(p, "RECTANGLE", False) for p in PIPE_ENUM] + [("SINGLEUTUBE", gm, True) for gm in _JSON_GEOM if gm != "RECTANGLE"] + [("SINGLEUTUBE", "RECTANGLE", True)]
for _p, _g, _opt in _WORKER_VARIANTS:
    _n = f"{M_}:_run_manager_from_cli_worker#{_p}-{_g}-{'with' if _opt else 'without'}-optional-keys"
    contract(f"{M_}:_run_manager_from_cli_worker", dict(input_file_path=_cli.PathS, output_directory=_cli.PathS, _file_json=_file_shape(_p, _g, _opt)), name=_n,
             requires=[("file-passes-validation", lambda E: _cli.VALIDF(E.input_file_path.id) == 0),
                       ("schema-fact-used", lambda E: E._file_json["simulation"]["num_months"] >= 1)],  # simulation.schema.json: num_months minimum 1
             raises={"Exception": None, "KeyError": None},
             ensures=[("runs-the-design", lambda E: E.result == 0)] + _loaded(_p, _g, _opt), returns=Int).applies = lambda env: False
    WORKER.append(_n)
contract(f"{M_}:_run_manager_from_cli_worker", dict(input_file_path=_cli.PathS, output_directory=_cli.PathS), name=f"{M_}:_run_manager_from_cli_worker#invalid-file",
         requires=[("file-fails-validation", lambda E: _cli.VALIDF(E.input_file_path.id) != 0)], raises={"KeyError": None},
         ensures=[("refused-before-anything-is-loaded", lambda E: E.result == 1)], returns=Int).applies = lambda env: False
WORKER.append(f"{M_}:_run_manager_from_cli_worker#invalid-file")
