"""C07 - hybrid loads retain each month's peaks with positive, bounded durations."""
from contracts import loads
from props.common import *  # noqa: F401,F403

L = "ghedesigner.ground_loads"
FUNCTIONS = [f"{L}:HybridLoad.split_heat_and_cool", f"{L}:HybridLoad.split_loads_by_month", f"{L}:HybridLoad.process_two_day_loads",
             f"{L}:monthdays", f"{L}:first_month_hour", f"{L}:last_month_hour", f"{L}:HybridLoad.process_month_loads"]
NATIVE_FUNCTIONS = [f"{L}:HybridLoad.process_month_loads", f"{L}:HybridLoad.find_peak_durations"]
NATIVE_CASES = {"quick": 40, "thorough": 3000}
NATIVE_LIMIT_S = {"quick": 60, "thorough": 1500}
CASE_TIMEOUT = 60
LEVEL = "other"


def lemmas():
    return loads.LEMMAS


ASSUMPTIONS = [A_REAL, A_ENGINE, "numpy/list models listed in trusted_base",
               "'noon' is hour CUM(month-1) + 1 + 24*day + 12 in the tool's own hour numbering",
               "placement/ordering clauses carry the statement's premise: peak windows inside the month, not overlapping, not moved by the 'first peak hour < 0' guard"]
NOT_PROVED = ["0 < duration <= 48 h: rests on the monotonicity of the short-time g-function (C10) behind an interp1d inversion - bounded run-time check on real HybridLoad objects only",
              "the duration definition (perform_current_month_simulation / find_peak_durations) is not under a discharged contract; it is recomputed independently in the bounded run-time check"]
EXPLANATION = ("Proved: split_loads_by_month (all 8760-hour profiles): monthly totals are the sums, the peak bounds every hour of the month and is attained on the recorded peak day; "
               "process_two_day_loads: the 48-hour window is the day before the peak day plus the peak day (31 December before 1 January); process_month_loads: peak-retention "
               "months are exactly the first and last twelve, and in each of the 13 cases (retention off / 3 peak-day orders x pulse present or absent) the appended segments equal "
               "the specified sequence: average, pulse of +peak rejection or -peak extraction with its duration centred on noon (abutting noon on a common day), average to month end; "
               "an absent peak emits no pulse. Bounded: durations in (0,48] and the Cullin-Spitler duration definition on real objects.")
LEVEL_TEXT = ("Proof of peak retention, sign, placement, window selection and the monthly statistics for all profiles and horizons; the duration bound and the duration definition are "
              "numerical (interp1d inversion of the radial model's response) and are covered by a bounded run-time contract with an independent re-computation - hence level 'other'.")
LEVEL_NOTE = "Trusted: pyvc, z3, A-REAL, list/numpy models. Bounded part: real HybridLoad objects over a stated family (never counted as proved)."
