"""Discharging obligations: z3 first (parallel, per-obligation timeout), cvc5 on z3's `unknown`."""
from __future__ import annotations

import multiprocessing as mp
import os
import time

import z3

UNSAT, SAT, UNKNOWN = "unsat", "sat", "unknown"


def to_smt2(axioms, assumptions, goal):
    s = z3.Solver()
    for a in axioms:
        s.add(a)
    for a in assumptions:
        s.add(a)
    if goal is not None:
        s.add(z3.Not(goal))
    return s.to_smt2()


def _check_z3(smt2, timeout_ms, variant=0):
    t0 = time.time()
    try:
        ctx = z3.Context()
        s = z3.Solver(ctx=ctx)
        s.set("timeout", timeout_ms)
        if variant == 1:
            s.set("smt.arith.nl.nra", True)
            s.set("smt.mbqi", False)
        elif variant == 2:
            s.set("smt.arith.solver", 6)
            s.set("smt.random_seed", 7)
        s.from_string(smt2)
        r = s.check()
        res = str(r)
        reason = s.reason_unknown() if r == z3.unknown else ""
    except Exception as e:  # z3 error: undecided, never a violation
        res, reason = UNKNOWN, f"z3 exception: {e}"
    return res, time.time() - t0, reason


def _check_cvc5(smt2, timeout_ms):
    """cvc5 through its python API on the same SMT-LIB text."""
    t0 = time.time()
    try:
        import cvc5

        slv = cvc5.Solver()
        slv.setOption("tlimit-per", str(timeout_ms))
        slv.setOption("produce-models", "false")
        slv.setLogic("ALL")
        parser = cvc5.InputParser(slv)
        parser.setStringInput(cvc5.InputLanguage.SMT_LIB_2_6, smt2, "obl")
        sm = parser.getSymbolManager()
        res = UNKNOWN
        while True:
            cmd = parser.nextCommand()
            if cmd.isNull():
                break
            out = cmd.invoke(slv, sm)
            o = str(out).strip()
            if o in ("sat", "unsat", "unknown"):
                res = o
        return res, time.time() - t0, ""
    except Exception as e:
        return UNKNOWN, time.time() - t0, f"cvc5 exception: {e}"


def _work(job):
    idx, smt2, timeout_ms, use_cvc5, is_cover = job
    res, t, reason = _check_z3(smt2, timeout_ms)
    backend = "z3"
    tried = [("z3", res, round(t, 3))]
    if res == UNKNOWN and not is_cover:
        for variant in (1, 2):
            r2, t2, reason2 = _check_z3(smt2, timeout_ms, variant)
            tried.append((f"z3/v{variant}", r2, round(t2, 3)))
            t += t2
            if r2 != UNKNOWN:
                res, reason, backend = r2, reason2, f"z3/v{variant}"
                break
    if res == UNKNOWN and use_cvc5 and not is_cover:
        r3, t3, reason3 = _check_cvc5(smt2, timeout_ms)
        tried.append(("cvc5", r3, round(t3, 3)))
        t += t3
        if r3 != UNKNOWN:
            res, reason, backend = r3, reason3, "cvc5"
    return idx, res, t, backend, reason, tried


class Result:
    def __init__(self, obl, status, seconds, backend, reason="", tried=None):
        self.obl, self.status, self.seconds, self.backend, self.reason = obl, status, seconds, backend, reason
        self.tried = tried or []


def discharge(obls, axioms, timeout_ms=20000, jobs=None, use_cvc5=True):
    """Returns list of Result, same order as obls."""
    jobs = jobs or min(16, os.cpu_count() or 4)
    work = []
    results = [None] * len(obls)
    for i, o in enumerate(obls):
        if o.extra.get("trivial"):
            results[i] = Result(o, UNSAT, 0.0, "trivial")
            continue
        is_cover = o.kind == "cover"
        smt2 = to_smt2(axioms, o.assumptions, None if is_cover else o.goal)
        t_o = max(timeout_ms, int(o.extra.get("timeout_ms", 0)))
        work.append((i, smt2, t_o if not is_cover else min(t_o, 5000), use_cvc5, is_cover))
    if work:
        if jobs > 1 and len(work) > 1:
            with mp.get_context("fork").Pool(jobs) as pool:
                for idx, res, t, backend, reason, tried in pool.imap_unordered(_work, work, chunksize=1):
                    results[idx] = Result(obls[idx], res, t, backend, reason, tried)
        else:
            for job in work:
                idx, res, t, backend, reason, tried = _work(job)
                results[idx] = Result(obls[idx], res, t, backend, reason, tried)
    return results


def model_for(obl, axioms, timeout_ms=20000, drop_quantified=False):
    """Re-solve a failing obligation in-process to obtain a model.  drop_quantified: candidate search only -
    a model of the formula without its quantified assumptions must be confirmed by native replay."""
    from .engine import _has_quant

    s = z3.Solver()
    s.set("timeout", timeout_ms)
    for a in axioms:
        s.add(a)
    for a in obl.assumptions:
        if drop_quantified and _has_quant(a):
            continue
        s.add(a)
    if obl.goal is not None:
        s.add(z3.Not(obl.goal))
    r = s.check()
    if r == z3.sat:
        return s.model()
    return None
