"""Contracts for the RowWise field generator (C14)."""
import z3

from pyvc.api import *
from pyvc.run import native

RW = "ghedesigner.rowwise"


# ---- run-time form on the real generator (450 lines of float-steered trigonometric geometry: the composite is out of the engine's reach) -------------
def _poly(a):
    import math

    kind = a["kind"]
    if kind == "rect":
        w, h = a["w"], a["h"]
        pts = [[0.0, 0.0], [w, 0.0], [w, h], [0.0, h]]
    elif kind == "regular":
        n, r = a["n"], a["r"]
        pts = [[r + r * math.cos(2 * math.pi * k / n + a.get("phase", 0.0)), r + r * math.sin(2 * math.pi * k / n + a.get("phase", 0.0))] for k in range(n)]
    else:  # explicit vertex list (convex, counter-clockwise)
        pts = [list(p) for p in a["pts"]]
    if a.get("clockwise"):
        pts = pts[::-1]
    dx, dy = a.get("shift", [0.0, 0.0])
    pts = [[p[0] + dx, p[1] + dy] for p in pts]
    if a.get("ints"):  # an outline typed in whole metres: every coordinate a Python int (the tool then works on an integer array)
        pts = [[int(round(p[0])), int(round(p[1]))] for p in pts]
    return pts


def _inside_convex(pts, p, tol):
    """signed-area test: inside or on the outline (either orientation) within tol (metres)"""
    import math

    n = len(pts)
    area2 = sum(pts[i][0] * pts[(i + 1) % n][1] - pts[(i + 1) % n][0] * pts[i][1] for i in range(n))
    sgn = 1.0 if area2 > 0 else -1.0
    worst = float("inf")
    for i in range(n):
        ax, ay = pts[i]
        bx, by = pts[(i + 1) % n]
        ln = math.hypot(bx - ax, by - ay)
        d = sgn * ((bx - ax) * (p[1] - ay) - (by - ay) * (p[0] - ax)) / ln
        worst = min(worst, d)
    return worst >= -tol, worst


def _run_limited(fn, seconds):
    """(finished, result-or-diagnosis): CPU-time limit; on expiry the innermost frames are inspected - a non-terminating distribute() is diagnosed by
    the precondition its caller broke (end point not on the row through the start point / behind the start point)"""
    import math
    import signal

    class _T(Exception):
        def __init__(self, diag):
            self.diag = diag

    def h(sig, frm):
        diag = "elsewhere"
        f = frm
        while f is not None:
            if f.f_code.co_name == "distribute":
                loc = f.f_locals
                try:
                    x1, x2, rot = loc["current_x"] if "current_x" in loc else loc["x1"], loc["x2"], loc["rotate"]
                    ex, ey = x2[0] - x1[0], x2[1] - x1[1]
                    cross = ex * math.sin(rot) - ey * math.cos(rot)
                    # the start point has moved along the row direction: the offset between the row line and the end point stays what it was
                    diag = "distribute-end-point-not-on-the-row-through-the-start-point" if abs(cross) > 1e-6 else "distribute-end-point-behind-the-start-point"
                except Exception:  # noqa: BLE001
                    diag = "distribute"
                break
            f = f.f_back
        raise _T(diag)

    old = signal.signal(signal.SIGVTALRM, h)
    signal.setitimer(signal.ITIMER_VIRTUAL, seconds)
    try:
        return True, fn()
    except _T as t:
        return False, t.diag
    finally:
        signal.setitimer(signal.ITIMER_VIRTUAL, 0)
        signal.signal(signal.SIGVTALRM, old)


def _rowwise_check(a):
    import math
    import warnings

    import numpy as np

    from ghedesigner.rowwise import field_optimization_fr, field_optimization_wp_space_fr, gen_borehole_config, gen_shape
    from ghedesigner.constants import DEG_TO_RAD

    pts = _poly(a)
    s = a["spacing"]
    nogo = a.get("nogo")
    if a.get("two_zones"):  # two rectangular zones side by side inside a rectangular lot, listed left-to-right or right-to-left (a row at rotation 0 crosses both)
        x0, y0 = min(p[0] for p in pts), min(p[1] for p in pts)
        w_, h_ = max(p[0] for p in pts) - x0, max(p[1] for p in pts) - y0
        left = [[x0 + 0.15 * w_, y0 + 0.4 * h_], [x0 + 0.3 * w_, y0 + 0.4 * h_], [x0 + 0.3 * w_, y0 + 0.65 * h_], [x0 + 0.15 * w_, y0 + 0.65 * h_]]
        right = [[q[0] + 0.5 * w_, q[1]] for q in left]
        nogo = [right, left] if a["two_zones"] == "far-first" else [left, right]
    if a.get("zone"):  # a convex no-go zone strictly inside the lot: the outline shrunk about its centroid
        cx, cy = sum(p[0] for p in pts) / len(pts), sum(p[1] for p in pts) / len(pts)
        nogo = [[[cx + a["zone"] * (p[0] - cx), cy + a["zone"] * (p[1] - cy)] for p in pts]]
    budget = a.get("budget_s", 8)

    def zone_clause(fld, what, rotations=None):
        """none of the boreholes lies strictly inside a no-go zone (1e-6 m); a failure is classified by whether the row of the offending borehole runs through a vertex of the zone
        (rotations: the rotations a sweep tried - the row direction of the returned field is one of them)"""
        for z in nogo or []:
            inz = [p for p in fld if _inside_convex(z, p, -1e-6)[0]]
            if inz:
                q = inz[0]
                through_vertex = any(abs((v[0] - q[0]) * math.sin(rot_) - (v[1] - q[1]) * math.cos(rot_)) < 1e-6
                                     for rot_ in (rotations or [a.get("rot_deg", 0.0) * DEG_TO_RAD]) for v in z)
                return {"why": f"{what}: borehole inside a no-go zone", "point": q, "depth_inside": _inside_convex(z, q, 0.0)[1], "zone": z, "outline": pts, "spacing": s,
                        "rotation_deg": a.get("rot_deg", 0.0), "signature": "inside-no-go/" + ("row-through-a-zone-vertex" if through_vertex else "generic")}
        return None

    # "inside or on the outline" up to 1e-6 m per metre of lot extent (at least 1e-6 m): positions are computed from intersections of lines through points up to that far away
    tol_out = 1e-6 * max(1.0, max(max(q[0] for q in pts) - min(q[0] for q in pts), max(q[1] for q in pts) - min(q[1] for q in pts)))

    def outline_clause(fld, what):
        bad_ = [(p, _inside_convex(pts, p, tol_out)[1]) for p in fld if not _inside_convex(pts, p, tol_out)[0]]
        if bad_:
            return {"why": f"{what}: borehole outside the outline", "point": bad_[0][0], "distance_outside": -bad_[0][1], "outline": pts, "rotation_deg": a.get("rot_deg", 0.0),
                    "signature": "outside-outline" + ("/perimeter" if "perimeter" in what else "")}
        return None
    with warnings.catch_warnings():
        warnings.simplefilter("ignore")
        shapes = gen_shape(pts, ng_zones=nogo)
        rot = a.get("rot_deg", 0.0) * DEG_TO_RAD
        if nogo:
            # the lot without its zones first: a failure of the plain generator (non-termination, exception) is reported as such, so that the zone clauses
            # are judged only on lots the plain generator handles (with zones the same row mix-up surfaces as ValueError in less_than)
            ok0, d0 = _rowwise_check({k: v for k, v in a.items() if k not in ("zone", "two_zones", "nogo", "perimeter", "sweep")} | {"check_translation": False})
            if not ok0 and (d0.get("signature", "").startswith("no-termination/") or d0.get("signature", "").startswith("exception/")):
                d0["why"] += " (the lot without its no-go zone)"
                return False, d0
        try:
            done, field = _run_limited(lambda: gen_borehole_config(shapes[0], s, s, no_go=shapes[1], rotate=rot), budget)
        except (ZeroDivisionError, IndexError, KeyError, TypeError, ValueError) as e:
            import traceback

            where = traceback.extract_tb(e.__traceback__)[-1]
            return False, {"why": f"gen_borehole_config raised {type(e).__name__}: {e}", "where": f"{where.name}:{where.lineno}", "outline": pts, "spacing": s, "rotation_deg": a.get("rot_deg", 0.0),
                           "signature": f"exception/{type(e).__name__}/{where.name}"}
        if not done:
            return False, {"why": f"gen_borehole_config did not terminate within {budget} s of CPU time", "outline": pts, "spacing": s, "rotation_deg": a.get("rot_deg", 0.0),
                           "signature": "no-termination/" + field}
        field = [list(map(float, p)) for p in field]
        bad = [(p, _inside_convex(pts, p, tol_out)[1]) for p in field if not _inside_convex(pts, p, tol_out)[0]]
        if bad:
            return False, {"why": "borehole outside the outline", "point": bad[0][0], "distance_outside": -bad[0][1], "outline": pts, "rotation_deg": a.get("rot_deg", 0.0), "signature": "outside-outline"}
        if nogo:
            v = zone_clause(field, "gen_borehole_config")
            if v:
                return False, v
        else:
            best = float("inf")
            for i in range(len(field)):
                for j in range(i + 1, len(field)):
                    best = min(best, math.hypot(field[i][0] - field[j][0], field[i][1] - field[j][1]))
            if best < s - 1e-6:
                # rows that run parallel to an edge of the outline (one of them then lies ON that edge) are the recorded class
                par = any(abs((pts[(i + 1) % len(pts)][0] - pts[i][0]) * math.sin(rot) - (pts[(i + 1) % len(pts)][1] - pts[i][1]) * math.cos(rot))
                          < 1e-9 * math.hypot(pts[(i + 1) % len(pts)][0] - pts[i][0], pts[(i + 1) % len(pts)][1] - pts[i][1]) for i in range(len(pts)))
                return False, {"why": "two boreholes closer than the target spacing", "distance": best, "spacing": s, "outline": pts, "rotation_deg": a.get("rot_deg", 0.0),
                               "signature": "spacing" + ("/rows-parallel-to-an-edge" if par else "/generic")}
        if a["kind"] == "rect" and not nogo and a.get("rot_deg", 0.0) == 0.0 and not a.get("clockwise"):
            w, h = a["w"], a["h"]
            nx, ny = int(math.floor(w / s + 1e-9)) + 1, int(math.floor(h / s + 1e-9)) + 1
            if len(field) != nx * ny:
                return False, {"why": "axis-aligned rectangle at rotation 0 does not receive the (floor(W/s)+1) x (floor(H/s)+1) lattice", "want": [nx, ny], "got": len(field), "w": w, "h": h,
                               "spacing": s, "shift": a.get("shift"), "signature": "lattice-count"}
            ys = sorted({round(p[1] - a.get("shift", [0, 0])[1], 6) for p in field})
            if len(ys) != ny or any(abs(ys[k + 1] - ys[k] - s) > 1e-6 for k in range(len(ys) - 1)) and abs(h / s - round(h / s)) < 1e-9:
                return False, {"why": "rows of the rectangle are not spacing-s rows", "rows": ys[:6], "signature": "lattice-rows"}
        # perimeter placement: terminates, inside the outline, outside the zones
        if a.get("perimeter"):
            from ghedesigner.rowwise import two_space_gen_bhc

            try:
                done, pf = _run_limited(lambda: two_space_gen_bhc(shapes[0], s, s, no_go=shapes[1], rotate=rot, p_space=a["perimeter"] * s), budget)
            except (ZeroDivisionError, IndexError, KeyError, TypeError, ValueError) as e:
                import traceback

                where = traceback.extract_tb(e.__traceback__)[-1]
                return False, {"why": f"two_space_gen_bhc raised {type(e).__name__}: {e}", "where": f"{where.name}:{where.lineno}", "outline": pts, "spacing": s, "rotation_deg": a.get("rot_deg", 0.0),
                               "perimeter_ratio": a["perimeter"], "signature": f"exception/{type(e).__name__}/{where.name}"}
            if not done:
                return False, {"why": f"two_space_gen_bhc did not terminate within {budget} s of CPU time", "outline": pts, "spacing": s, "rotation_deg": a.get("rot_deg", 0.0),
                               "signature": "no-termination/" + pf}
            pf = [list(map(float, p)) for p in pf]
            v = outline_clause(pf, "two_space_gen_bhc (perimeter spacing)") or zone_clause(pf, "two_space_gen_bhc (perimeter spacing)")
            if v:
                return False, v
        # translation covariance
        if a.get("check_translation", True):
            t = a.get("translate", [13.0, 7.0])
            pts2 = [[p[0] + t[0], p[1] + t[1]] for p in pts]
            shapes2 = gen_shape(pts2, ng_zones=[[[q[0] + t[0], q[1] + t[1]] for q in z] for z in nogo] if nogo else None)
            try:
                done, f2 = _run_limited(lambda: gen_borehole_config(shapes2[0], s, s, no_go=shapes2[1], rotate=rot), budget)
            except (ZeroDivisionError, IndexError, KeyError, TypeError, ValueError) as e:
                import traceback

                where = traceback.extract_tb(e.__traceback__)[-1]
                return False, {"why": f"gen_borehole_config raised {type(e).__name__}: {e} on the translated lot", "where": f"{where.name}:{where.lineno}", "outline": pts2, "spacing": s,
                               "rotation_deg": a.get("rot_deg", 0.0), "signature": f"exception/{type(e).__name__}/{where.name}"}
            if not done:
                return False, {"why": f"gen_borehole_config did not terminate within {budget} s on the translated lot", "outline": pts2, "spacing": s, "rotation_deg": a.get("rot_deg", 0.0),
                               "signature": "no-termination/" + f2}
            f2 = sorted([round(float(p[0]) - t[0], 5), round(float(p[1]) - t[1], 5)] for p in f2)
            f1 = sorted([round(p[0], 5), round(p[1], 5)] for p in field)
            if len(f1) != len(f2) or any(abs(u[0] - v[0]) > 2e-5 or abs(u[1] - v[1]) > 2e-5 for u, v in zip(f1, f2)):
                # which boreholes differ?  The recorded finding concerns rows that meet the outline degenerately (see degenerate_row): there the tool's floating-point
                # comparisons decide differently after a translation; a difference on an ordinary row is something else
                def unmatched(fa, fb):
                    return [p for p in fa if not any(abs(p[0] - q[0]) <= 2e-5 and abs(p[1] - q[1]) <= 2e-5 for q in fb)]

                diff = unmatched(f1, f2) + unmatched(f2, f1)

                def degenerate_row(p):
                    """the row through p (direction = the rotation) meets the outline in a degenerate way: its chord is an exact multiple of the spacing (the number
                    of boreholes on it hangs on the rounding of floor(length / spacing)), it runs along an edge, or it passes through a vertex"""
                    cx_, sx_ = math.cos(rot), math.sin(rot)
                    ts, n_ = [], len(pts)
                    for i in range(n_):
                        ax, ay = pts[i]
                        bx, by = pts[(i + 1) % n_]
                        da = (ax - p[0]) * sx_ - (ay - p[1]) * cx_   # signed distance of the edge's ends from the row line
                        db = (bx - p[0]) * sx_ - (by - p[1]) * cx_
                        if abs(da) < 0.05 or abs(db) < 0.05:
                            return True  # through (or within 5 cm of) a vertex, or along an edge
                        if abs(da - db) < 0.02 * math.hypot(bx - ax, by - ay) and min(abs(da), abs(db)) < s:
                            return True  # nearly parallel (about 1 degree) to an edge less than one spacing away: the chord's ends slide far along that edge
                        if da * db < 0:
                            u = da / (da - db)
                            ts.append((ax + u * (bx - ax) - p[0]) * cx_ + (ay + u * (by - ay) - p[1]) * sx_)
                    if len(ts) != 2:
                        return True
                    length = abs(ts[1] - ts[0])
                    return abs(length / s - round(length / s)) < 1e-3

                # ... or the whole row layout is degenerate: the lot's extent perpendicular to the rows is an exact multiple of the spacing, so the number of rows
                # floor(extent / spacing) hangs on rounding and every row moves
                offs = [q[0] * math.sin(rot) - q[1] * math.cos(rot) for q in pts]
                extent = max(offs) - min(offs)
                on_outline = abs(extent / s - round(extent / s)) < 1e-6 or all(degenerate_row(p) for p in diff)
                return False, {"why": "translating the lot does not translate the field rigidly", "n": [len(f1), len(f2)], "outline": pts, "translate": t, "rotation_deg": a.get("rot_deg", 0.0),
                               "spacing": s, "differing_boreholes": diff[:6],
                               "signature": "translation/" + ("rows-that-meet-the-outline-degenerately-differ" if on_outline else ("isolated-boreholes-differ" if len(diff) <= 4 else "ordinary-rows-differ")) + ("/count" if len(f1) != len(f2) else "/positions")
                               + ("/with-no-go-zone" if nogo else "")}
        # the rotation sweep keeps the densest field
        if a.get("sweep"):
            from ghedesigner.rowwise import remove_duplicates

            step, lo, hi = a["sweep"]
            try:
                done, res = _run_limited(lambda: field_optimization_fr(s, step, shapes[0], ng_zones=shapes[1], rotate_start=lo * DEG_TO_RAD, rotate_stop=hi * DEG_TO_RAD), 8 * budget)
                if not done:
                    return False, {"why": "rotation sweep did not terminate", "outline": pts, "sweep": a["sweep"], "spacing": s, "signature": "no-termination/sweep/" + res}
                configs = []
                rt = lo * DEG_TO_RAD
                while rt < hi * DEG_TO_RAD:
                    configs.append(gen_borehole_config(shapes[0], s, s, no_go=shapes[1], rotate=rt, intersection_tolerance=1e-5))
                    rt += step * DEG_TO_RAD
            except (ZeroDivisionError, IndexError, KeyError, TypeError, ValueError) as e:
                import traceback

                where = traceback.extract_tb(e.__traceback__)[-1]
                return False, {"why": f"the rotation sweep raised {type(e).__name__}: {e}", "where": f"{where.name}:{where.lineno}", "outline": pts, "spacing": s, "sweep": a["sweep"],
                               "signature": f"exception/{type(e).__name__}/{where.name}"}
            counts = [len(c) for c in configs]
            want = remove_duplicates(configs[counts.index(max(counts))], s * 1.2) if counts else []
            got = [list(map(float, p)) for p in res[0]]
            if sorted(got) != sorted([list(map(float, p)) for p in want]):
                return False, {"why": "the optimiser did not return the field of the (first) tried rotation with the most boreholes", "returned": len(got), "counts": counts, "signature": "sweep-not-densest"}
            if nogo:
                # history: both optimisers were asked for the same lot, spacing and window WITHOUT the zones a moment ago; what they return for the lot WITH the zones
                # must respect the zones (and the outline)
                free = gen_shape(pts, ng_zones=None)
                for opt_name, with_zones, without_zones in (
                        ("field_optimization_fr", lambda: field_optimization_fr(s, step, shapes[0], ng_zones=shapes[1], rotate_start=lo * DEG_TO_RAD, rotate_stop=hi * DEG_TO_RAD),
                         lambda: field_optimization_fr(s, step, free[0], ng_zones=None, rotate_start=lo * DEG_TO_RAD, rotate_stop=hi * DEG_TO_RAD)),
                        ("field_optimization_wp_space_fr", lambda: field_optimization_wp_space_fr(0.8, s, step, shapes[0], ng_zones=shapes[1], rotate_start=lo * DEG_TO_RAD, rotate_stop=hi * DEG_TO_RAD),
                         lambda: field_optimization_wp_space_fr(0.8, s, step, free[0], ng_zones=None, rotate_start=lo * DEG_TO_RAD, rotate_stop=hi * DEG_TO_RAD))):
                    try:
                        done, _ = _run_limited(without_zones, 8 * budget)
                        done2, res2 = _run_limited(with_zones, 8 * budget) if done else (False, "skipped")
                    except (ZeroDivisionError, IndexError, KeyError, TypeError, ValueError) as e:
                        import traceback

                        where = traceback.extract_tb(e.__traceback__)[-1]
                        return False, {"why": f"{opt_name} raised {type(e).__name__}: {e}", "where": f"{where.name}:{where.lineno}", "outline": pts, "spacing": s, "sweep": a["sweep"],
                                       "signature": f"exception/{type(e).__name__}/{where.name}"}
                    if not done or not done2:
                        return False, {"why": f"{opt_name} did not terminate", "outline": pts, "sweep": a["sweep"], "spacing": s, "signature": "no-termination/sweep/" + str(_ if not done else res2)}
                    f3 = [list(map(float, p)) for p in res2[0]]
                    tried, rt_ = [], lo * DEG_TO_RAD
                    while rt_ < hi * DEG_TO_RAD:
                        tried.append(rt_)
                        rt_ += step * DEG_TO_RAD
                    v = outline_clause(f3, opt_name) or zone_clause(f3, opt_name + " (after the same sweep without zones)", rotations=tried)
                    if v:
                        v["signature"] += "/sweep"
                        return False, v
    return True, {"n": len(field)}


_rw_counter = [0]
_RW_FIXED = [
    {"kind": "rect", "w": 100.0, "h": 60.0, "spacing": 10.0, "rot_deg": -90.0},          # outline through the origin, rows along -y (D9; translation finding)
    {"kind": "regular", "n": 9, "r": 80.0, "spacing": 25.0, "rot_deg": 0.0},             # recorded finding: distribute() handed an end point of another row
    {"kind": "rect", "w": 100.0, "h": 30.0, "spacing": 25.0, "rot_deg": -90.0, "shift": [10.0, 10.0]},  # recorded finding: 15 m between two boreholes at -90 deg
    {"kind": "rect", "w": 100.0, "h": 60.0, "spacing": 10.0, "rot_deg": 0.0},
    {"kind": "pts", "pts": [[0.0, 0.0], [80.0, 0.0], [0.0, 60.0]], "spacing": 10.0, "rot_deg": -90.0},
    {"kind": "rect", "w": 100.0, "h": 60.0, "spacing": 10.0, "rot_deg": 0.0, "shift": [10.0, 10.0], "sweep": [15.0, -90.0, 90.0]},
    {"kind": "regular", "n": 6, "r": 40.0, "spacing": 10.0, "rot_deg": 30.0},
    {"kind": "rect", "w": 10.0, "h": 50.0, "spacing": 10.0, "rot_deg": 0.0, "shift": [10.0, 10.0]},      # a lot exactly one spacing wide: two columns
    {"kind": "rect", "w": 25.0, "h": 75.0, "spacing": 25.0, "rot_deg": 0.0},
    {"kind": "rect", "w": 34.0, "h": 17.0, "spacing": 17.0, "rot_deg": 0.0, "shift": [33.3, 0.0]},      # D20 (fixed): a lot exactly one spacing high raised ZeroDivisionError
    {"kind": "rect", "w": 50.0, "h": 60.0, "spacing": 10.0, "rot_deg": 0.0, "shift": [33.0, 0.0]},      # D20 (fixed): 6 rows 12 m apart instead of 7 rows 10 m apart
    {"kind": "rect", "w": 25.0, "h": 5.0, "spacing": 12.5, "rot_deg": 0.0, "shift": [33.0, 0.0]},       # recorded finding: a lot narrower than the spacing -> ZeroDivisionError
    {"kind": "regular", "spacing": 25.0, "rot_deg": 60.0, "clockwise": True, "shift": [0.0, 25.0], "n": 3, "r": 30.0},  # recorded finding: small triangle, rows perpendicular to an edge: 22.9 m between two boreholes
    {"kind": "regular", "n": 9, "r": 80.0, "spacing": 25.0, "rot_deg": 0.0, "zone": 0.5, "check_translation": False},  # recorded finding: a row through a vertex of the zone -> boreholes inside the zone
    {"kind": "rect", "w": 100.0, "h": 60.0, "spacing": 10.0, "rot_deg": 0.0, "shift": [10.0, 10.0], "zone": 0.37, "perimeter": 0.8, "sweep": [15.0, -45.0, 45.0]},  # zones + perimeter + sweep history
    {"kind": "pts", "pts": [[0.0, 10.0], [70.0, 0.0], [110.0, 45.0], [60.0, 90.0], [5.0, 60.0]], "spacing": 10.0, "rot_deg": 15.0, "zone": 0.4, "perimeter": 0.6},
    {"kind": "regular", "spacing": 25.0, "rot_deg": 15.0, "shift": [33.3, 0.0], "n": 10, "r": 30.0, "phase": 0.3, "zone": 0.4, "sweep": [15.0, -45.0, 0.0], "perimeter": 0.8},  # D18 (fixed): no rotation yields a borehole
    {"kind": "regular", "spacing": 25.0, "rot_deg": 60.0, "n": 10, "r": 30.0, "phase": 0.0, "zone": 0.25},  # recorded finding: with a zone, the lot touching the y-axis is filled differently from its translates
    {"kind": "regular", "spacing": 25.0, "rot_deg": 60.0, "n": 7, "r": 30.0, "phase": 0.0},  # recorded finding: one borehole on the outline placed 1 m away after a translation
    {"kind": "rect", "w": 100.0, "h": 60.0, "spacing": 7.5, "rot_deg": 0.0, "shift": [10.0, 10.0], "ints": True},       # outline typed in whole metres, non-integer spacing
    {"kind": "rect", "w": 100.0, "h": 60.0, "spacing": 10.0, "rot_deg": 0.0, "shift": [10.0, 10.0], "two_zones": "far-first", "check_translation": False},  # a row crosses two zones, listed far zone first
    {"kind": "rect", "w": 100.0, "h": 60.0, "spacing": 10.0, "rot_deg": 15.0, "shift": [10.0, 10.0], "two_zones": "near-first", "ints": True, "check_translation": False},
    {"kind": "rect", "spacing": 12.5, "rot_deg": 0.0, "shift": [33.3, 0.0], "w": 17.0, "h": 102.0, "ints": True, "two_zones": "far-first", "check_translation": False},  # recorded finding: borehole outside a narrow lot with two zones
    {"kind": "pts", "spacing": 5.0, "rot_deg": 15.0, "shift": [0.0, 25.0], "pts": [[0.0, 29.945353545803396], [38.376893620641965, 0.5235990886550681], [70.72003782814971, 0.0]],
     "sweep": [15.0, -45.0, 90.0], "zone": 0.5},  # recorded finding (thorough tier): sweep over a thin triangle with a zone, borehole 0.12 m outside
]


def _rowwise_gen(rng):
    import math

    k = _rw_counter[0]
    _rw_counter[0] += 1
    if k < len(_RW_FIXED):
        return dict(_RW_FIXED[k])
    kind = rng.choice(["rect", "rect", "regular", "regular", "pts"])
    a = {"kind": kind, "spacing": rng.choice([5.0, 10.0, 17.0, 25.0]), "rot_deg": rng.choice([0.0, 0.0, -90.0, -45.0, 15.0, 37.5, 60.0, 89.5]), "clockwise": rng.random() < 0.3,
         "shift": rng.choice([[0.0, 0.0], [0.0, 0.0], [10.0, 10.0], [0.0, 25.0], [33.3, 0.0]])}
    if kind == "rect":
        a.update(w=rng.choice([40.0, 65.0, 100.0, 123.4]), h=rng.choice([30.0, 60.0, 77.7]))
        if rng.random() < 0.3:  # sides that are exact multiples of the spacing, down to a lot exactly one spacing wide (boundary of floor(W/s))
            a.update(w=a["spacing"] * rng.choice([1, 1, 2, 3, 5]), h=a["spacing"] * rng.choice([1, 2, 3, 6]), rot_deg=0.0, clockwise=False)
    elif kind == "regular":
        a.update(n=rng.randint(3, 12), r=rng.choice([30.0, 50.0, 80.0]), phase=rng.choice([0.0, 0.3, math.pi / 7]))
    else:
        # random convex polygon: points on an ellipse at sorted random angles, sheared
        n = rng.randint(3, 9)
        angs = sorted(rng.uniform(0, 2 * math.pi) for _ in range(n))
        rx, ry, sh = rng.uniform(30, 80), rng.uniform(25, 60), rng.uniform(-0.4, 0.4)
        pts = [[rx * math.cos(t) + sh * ry * math.sin(t), ry * math.sin(t)] for t in angs]
        mx, my = min(p[0] for p in pts), min(p[1] for p in pts)
        a["pts"] = [[p[0] - mx, p[1] - my] for p in pts]
        # domain: the lot is at least two spacings wide in every direction (narrower lots have no row at all: the tool divides by a zero row count)
        n_ = len(a["pts"])
        width = min(max(abs((a["pts"][(i + 1) % n_][0] - a["pts"][i][0]) * (q[1] - a["pts"][i][1]) - (a["pts"][(i + 1) % n_][1] - a["pts"][i][1]) * (q[0] - a["pts"][i][0]))
                        / math.hypot(a["pts"][(i + 1) % n_][0] - a["pts"][i][0], a["pts"][(i + 1) % n_][1] - a["pts"][i][1]) for q in a["pts"]) for i in range(n_))
        if width < 2 * a["spacing"]:
            a["spacing"] = 5.0
            if width < 10.0:
                # a sliver: widen it to 12 m - unless that makes the lot kilometres long, then take a plain triangle instead
                f = 12.0 / max(width, 1e-6)
                a["pts"] = [[p[0] * f, p[1] * f] for p in a["pts"]] if f <= 4.0 else [[0.0, 0.0], [90.0, 10.0], [30.0, 70.0]]
    if rng.random() < 0.15:
        a["sweep"] = [rng.choice([5.0, 15.0]), -90.0, 90.0]
    if rng.random() < 0.3:
        a["zone"] = rng.choice([0.25, 0.4, 0.5])
        if rng.random() < 0.4:
            a["sweep"] = [15.0, rng.choice([-90.0, -45.0]), rng.choice([0.0, 90.0])]
    if rng.random() < 0.25:
        a["perimeter"] = rng.choice([0.6, 0.8, 1.0])
    if kind == "rect" and rng.random() < 0.3:
        a["ints"] = True
        new_s = rng.choice([7.5, 12.5, a["spacing"]])
        if min(a["w"], a["h"]) >= 2 * new_s:  # stay inside the domain: the lot is at least two spacings wide
            a["spacing"] = new_s
        if "zone" not in a and rng.random() < 0.5:
            a.update(two_zones=rng.choice(["far-first", "near-first"]), check_translation=False)
    return a


native(f"{RW}:gen_borehole_config", _rowwise_check, _rowwise_gen, None,
       bound="real gen_borehole_config / field_optimization_fr on convex outlines with 3..12 vertices (rectangles, regular polygons, random sheared convex polygons; both orientations; touching one or both axes or "
             "shifted), spacings 5..25 m, rotations -90..89.5 deg, sweeps of 5/15 deg: termination (8 s CPU per call; a terminating call takes under 0.2 s), inside the outline (1e-6 m per metre of lot extent), spacing, rectangle lattice count, translation covariance, densest rotation; rectangles also typed in whole metres (integer arrays) and with two rectangular zones crossed by the same row in either listing order; in about a third of the cases a convex no-go zone (the outline shrunk about its centroid by 0.25-0.5): no borehole inside it, also for the perimeter generator two_space_gen_bhc (ratios 0.6-1.0) and for both optimisers called with the zones right after the same sweep without them")


# ---- deductive part: the rotation sweep (field generator abstract) and leaf helpers ---------------------------------------------------------------
from pyvc.engine import PI  # noqa: E402
from pyvc.libmodels import SQRT  # noqa: E402

CFGN = z3.Function("CFG_COUNT", z3.RealSort(), z3.IntSort())    # number of boreholes of the field generated at a rotation (for the call's fixed lot, spacing, zones)
CFGK = z3.Function("CFG_FIELD", z3.RealSort(), z3.IntSort())    # identity of that field
RDK = z3.Function("DEDUP", z3.IntSort(), z3.RealSort(), z3.IntSort())  # identity of remove_duplicates(field, space)
KTOT = z3.Int("TRIED_ROTATIONS")                                 # number of rotations the sweep tries
DEG = PI / 180
Pt = ListOf(Real)


def _tr(j):
    return z3.RealVal(j) if isinstance(j, int) else ToReal(j)

contract(f"{RW}:gen_borehole_config", dict(field=OpaqueOf("shape"), y_space=Real, x_space=Real, no_go=OpaqueOf("zones"), rotate=Real, intersection_tolerance=Real),
         name=f"{RW}:gen_borehole_config#caller",
         ensures=[("field-of-this-rotation", lambda E: And(E.result.len == CFGN(E.rotate), E.result.key == CFGK(E.rotate), E.result.len >= 0))],
         returns=ListOf(Pt), notes="abstract in the sweep (A-DET: for fixed lot, spacing and zones the field is a function of the rotation)").applies = lambda env: True
contract(f"{RW}:two_space_gen_bhc", dict(field=OpaqueOf("shape"), y_space=Real, x_space=Real, no_go=OpaqueOf("zones"), rotate=Real, p_space=Real, intersection_tolerance=Real),
         name=f"{RW}:two_space_gen_bhc#caller",
         ensures=[("field-of-this-rotation", lambda E: And(E.result.len == CFGN(E.rotate), E.result.key == CFGK(E.rotate), E.result.len >= 0))],
         returns=ListOf(Pt), notes="abstract in the sweep").applies = lambda env: True
contract(f"{RW}:remove_duplicates", dict(borefield=ListOf(Pt), space=Real), name=f"{RW}:remove_duplicates#caller",
         ensures=[("function-of-field-and-space", lambda E: E.result.key == RDK(E.borefield.key, E.space))], returns=ListOf(Pt), notes="abstract in the sweep").applies = lambda env: True


def _rot(E, j):
    return E.old.rotate_start + _tr(j) * (E.old.rotate_step * DEG) if E.has("old") and E.old is not None else E.rotate_start + _tr(j) * (E.rotate_step * DEG)


def _sweep_requires():
    return [("window-inside-minus-90-to-90-degrees", lambda E: And(E.rotate_start >= -(PI / 2), E.rotate_start <= PI / 2, E.rotate_stop >= -(PI / 2), E.rotate_stop <= PI / 2)),
            ("positive-step", lambda E: E.rotate_step > 0),
            # Archimedes: some start + K step reaches the stop angle; K names the number of rotations tried
            ("tried-rotations", lambda E: And(KTOT >= 1, E.rotate_start + _tr(KTOT - 1) * (E.rotate_step * DEG) < E.rotate_stop, E.rotate_start + _tr(KTOT) * (E.rotate_step * DEG) >= E.rotate_stop)),
            ("some-tried-rotation-yields-a-borehole", lambda E: exists(1, lambda j: And(0 <= j, j < KTOT, CFGN(E.rotate_start + _tr(j) * (E.rotate_step * DEG)) > 0)))]


def _R(E, j):
    return E.pre.rotate_start + _tr(j) * (E.pre.rotate_step * DEG)


def _sweep_inv(E):
    k = E._k0
    best = And(E.max_l >= 0, forall(1, lambda j: Implies(And(0 <= j, j < k), CFGN(_R(E, j)) <= E.max_l)))
    if E.max_hole is None:
        return And(best, E.max_l == 0)
    # (in the arbitrary-iteration state max_hole is modelled as a list also while max_l == 0, where the code still holds None: the body never reads it)
    return And(best, Implies(E.max_l > 0, And(E.max_hole.len == E.max_l,
               exists(1, lambda j: And(0 <= j, j < k, E.max_hole.key == CFGK(_R(E, j)), CFGN(_R(E, j)) == E.max_l, forall(1, lambda i: Implies(And(0 <= i, i < j), CFGN(_R(E, i)) < E.max_l)))))))


def _densest(E, space_of):
    # the field handed to the duplicate filter is the field of the first tried rotation with the most boreholes
    return exists(1, lambda j: And(0 <= j, j < KTOT, forall(1, lambda i: Implies(And(0 <= i, i < KTOT), CFGN(_rot0(E, i)) <= CFGN(_rot0(E, j)))),
                                   forall(1, lambda i: Implies(And(0 <= i, i < j), CFGN(_rot0(E, i)) < CFGN(_rot0(E, j)))),
                                   E.result[0].key == RDK(CFGK(_rot0(E, j)), space_of(E))))


def _rot0(E, j):
    return E.old.rotate_start + _tr(j) * (E.old.rotate_step * DEG)


for _fn, _params, _space in (
        ("field_optimization_fr", dict(space_start=Real, rotate_step=Real, prop_bound=OpaqueOf("shape"), ng_zones=OpaqueOf("zones"), rotate_start=Real, rotate_stop=Real, intersection_tolerance=Real),
         lambda E: E.old.space_start * R("1.2")),
        ("field_optimization_wp_space_fr", dict(p_space=Real, space_start=Real, rotate_step=Real, prop_bound=OpaqueOf("shape"), ng_zones=OpaqueOf("zones"), rotate_start=Real, rotate_stop=Real),
         lambda E: E.old.p_space * E.old.space_start)):
    contract(f"{RW}:{_fn}", _params, requires=_sweep_requires(), name=f"{RW}:{_fn}#body",
             loops={0: LoopSpec(invariants=[("rotation-is-start-plus-k-steps", lambda E: And(E.rt == _R(E, E._k0), E._k0 <= KTOT, E.x_s == E.pre.space_start, E.y_s == E.pre.space_start)),
                                            ("densest-so-far", _sweep_inv)],
                                decreases=lambda E: KTOT - E._k0,
                                shapes={"max_hole": ListOf(Pt), "hole": ListOf(Pt), "max_l": Int, "max_rt": Real, "rt": Real})},
             ensures=[("returns-the-densest-tried-rotation", (lambda E, _space=_space: _densest(E, _space)))],
             raises={"ValueError": lambda E: False},
             returns=FixedList([ListOf(Pt), OpaqueOf("str")]), options={"timeout_ms": 60000}).applies = lambda env: False

contract(f"{RW}:sum_sq_dist", dict(p1=FixedList([Real, Real]), p2=FixedList([Real, Real])),
         ensures=[("squared-distance", lambda E: E.result == (E.p1[0] - E.p2[0]) * (E.p1[0] - E.p2[0]) + (E.p1[1] - E.p2[1]) * (E.p1[1] - E.p2[1]))], returns=Real)
contract(f"{RW}:pts_dist", dict(p1=FixedList([Real, Real]), p2=FixedList([Real, Real])),
         ensures=[("euclidean-distance", lambda E: And(E.result >= 0, E.result * E.result == (E.p1[0] - E.p2[0]) * (E.p1[0] - E.p2[0]) + (E.p1[1] - E.p2[1]) * (E.p1[1] - E.p2[1])))], returns=Real)

FUNCTIONS = [f"{RW}:field_optimization_fr#body", f"{RW}:field_optimization_wp_space_fr#body", f"{RW}:sum_sq_dist", f"{RW}:pts_dist"]
LEMMAS = []
