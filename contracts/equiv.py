"""Contracts for the equivalent single U-tube (C15)."""
import z3

from pyvc.api import *
from pyvc.engine import PI
from pyvc.libmodels import LOG
from pyvc.run import native

B_ = "ghedesigner.borehole_heat_exchangers"

# ---- the bulk quantities handed to the conversion: exactly the geometric volumes per metre and the two resistances ----------------
contract(f"{B_}:MultipleUTube.u_tube_volumes",
         dict(self=ObjOf(f"{B_}:MultipleUTube", nPipes=Int, r_in=Real, r_out=Real, h_f=Real, pipe=ObjOf("ghedesigner.media:Pipe", k=Real))),
         requires=[("physical", lambda E: And(E.self.nPipes >= 1, E.self.r_in > 0, E.self.r_out > E.self.r_in, E.self.h_f > 0, E.self.pipe.k > 0))],
         ensures=[("fluid-volume-per-metre", lambda E: E.result[0] == 2 * E.self.nPipes * PI * E.self.r_in * E.self.r_in),
                  ("pipe-wall-volume-per-metre", lambda E: E.result[1] == 2 * E.self.nPipes * PI * (E.self.r_out * E.self.r_out - E.self.r_in * E.self.r_in)),
                  ("pipe-resistance-of-all-legs-in-parallel", lambda E: E.result[3] == LOG(E.self.r_out / E.self.r_in) / (2 * E.self.nPipes * (2 * PI) * E.self.pipe.k)),
                  ("convective-resistance-of-all-legs", lambda E: And(E.result[2] > 0, E.result[2] * (E.self.h_f * (2 * E.self.nPipes * PI * ((E.self.r_in * 2) * (E.self.r_in * 2)))) == 1))],
         returns=TupleOf(Real, Real, Real, Real))

contract(f"{B_}:CoaxialPipe.concentric_tube_volumes",
         dict(self=ObjOf(f"{B_}:CoaxialPipe", r_inner=FixedList([Real, Real]), r_outer=FixedList([Real, Real]), h_f_a_in=Real, pipe=ObjOf("ghedesigner.media:Pipe", k=FixedList([Real, Real])))),
         requires=[("nested-radii", lambda E: And(0 < E.self.r_inner[0], E.self.r_inner[0] < E.self.r_inner[1], E.self.r_inner[1] < E.self.r_outer[0], E.self.r_outer[0] < E.self.r_outer[1],
                                                  E.self.h_f_a_in > 0, E.self.pipe.k[1] > 0))],
         ensures=[("fluid-volume-is-core-plus-annulus", lambda E: E.result[0] == PI * (E.self.r_inner[0] * E.self.r_inner[0] + E.self.r_outer[0] * E.self.r_outer[0] - E.self.r_inner[1] * E.self.r_inner[1])),
                  ("pipe-wall-volume-is-both-walls", lambda E: E.result[1] == PI * (E.self.r_inner[1] * E.self.r_inner[1] - E.self.r_inner[0] * E.self.r_inner[0]
                                                                                   + E.self.r_outer[1] * E.self.r_outer[1] - E.self.r_outer[0] * E.self.r_outer[0])),
                  ("volumes-positive", lambda E: And(E.result[0] > 0, E.result[1] > 0)),
                  ("convective-resistance-of-the-annulus-wall", lambda E: And(E.result[2] > 0, E.result[2] * (E.self.h_f_a_in * (PI * 2 * E.self.r_outer[0])) == 1)),
                  ("outer-wall-resistance", lambda E: E.result[3] == LOG(E.self.r_outer[1] / E.self.r_outer[0]) / ((2 * PI) * E.self.pipe.k[1]))],
         returns=TupleOf(Real, Real, Real, Real))

contract(f"{B_}:SingleUTube.to_single", dict(self=ObjOf(f"{B_}:SingleUTube", R_fp=Real)), name=f"{B_}:SingleUTube.to_single#identity",
         ensures=[("a-single-u-tube-converts-to-itself", lambda E: E.result.raw() is E.self.raw())], returns=ObjOf(f"{B_}:SingleUTube")).applies = lambda env: False


def lemma_equal_volume_radii():
    """the radii chosen by equivalent_single_u_tube (r' = sqrt(V/(2 pi))) give a two-leg tube with exactly the same volumes"""
    vf, vp, ri, ro = z3.Reals("vol_fluid vol_pipe r_in_eq r_out_eq")
    hyp = [vf > 0, vp > 0, ri >= 0, ro >= 0, ri * ri == vf / (2 * PI), ro * ro == (vf + vp) / (2 * PI)]
    return hyp, And(2 * PI * ri * ri == vf, 2 * PI * (ro * ro - ri * ri) == vp, ro > ri)


LEMMAS = [("equal-volume-radii-preserve-fluid-and-pipe-volume", lemma_equal_volume_radii)]


# ---- run-time form on the real exchangers (pygfunction's multipole numerics behind two root solves: out of the engine's reach) ---------
def _make_bhe(a):
    from ghedesigner.borehole import GHEBorehole
    from ghedesigner.borehole_heat_exchangers import CoaxialPipe, MultipleUTube, SingleUTube
    from ghedesigner.enums import DoubleUTubeConnType
    from ghedesigner.media import GHEFluid, Grout, Pipe, Soil

    fluid = GHEFluid(a.get("fluid", "Water"), a.get("conc", 0.0))
    m = a["flow"] / 1000.0 * fluid.rho
    soil, grout = Soil(a["k_soil"], 2343493.0, 18.3), Grout(a["k_grout"], 3901000.0)
    bh = GHEBorehole(a.get("H", 100.0), 2.0, a["r_b"], 0.0, 0.0)
    kind = a["kind"]
    if kind == "coaxial":
        pipe = Pipe((0, 0), [a["r_ii"], a["r_io"]], [a["r_oi"], a["r_oo"]], 0, 1.0e-6, (a["k_pipe"], a["k_pipe"]), 1542000.0)
        return CoaxialPipe(m, fluid, bh, pipe, grout, soil)
    n = 1 if kind == "single" else 2
    pipe = Pipe(Pipe.place_pipes(a["s"], a["r_out"], n), a["r_in"], a["r_out"], a["s"], 1.0e-6, a["k_pipe"], 1542000.0)
    if kind == "single":
        return SingleUTube(m, fluid, bh, pipe, grout, soil)
    return MultipleUTube(m, fluid, bh, pipe, grout, soil, config=DoubleUTubeConnType.SERIES if kind == "double_series" else DoubleUTubeConnType.PARALLEL)


def _equiv_check(a):
    import warnings
    from math import pi

    with warnings.catch_warnings():
        warnings.simplefilter("ignore")
        if a["kind"] != "single":
            # history: an exchanger with the same tubes but another flow rate and pipe conductivity is converted first in the same interpreter; the bulk
            # quantities of `a` must not depend on it
            try:
                _make_bhe(dict(a, flow=a["flow"] * 2.0 if a["flow"] < 1.0 else a["flow"] / 2.0, k_pipe=a["k_pipe"] + 0.1)).to_single()
            except Exception:  # noqa: BLE001 - the decoy only creates history
                pass
        bhe = _make_bhe(a)
        before = (bhe.b.r_b, bhe.grout.k, bhe.pipe.k if not isinstance(bhe.pipe.k, (list, tuple)) else tuple(bhe.pipe.k), bhe.calc_effective_borehole_resistance())
        eq = bhe.to_single()
        if a["kind"] == "single":
            return (eq is bhe), {"why": "a single U-tube does not convert to itself"}
        rel = lambda x, y: abs(x - y) / max(abs(y), 1e-300)  # noqa: E731
        # the bulk quantities of the original, computed here from its geometry (not with the tool's own helper: the contract is about the exchanger, not about the helper)
        from math import log as _ln

        if a["kind"].startswith("double"):
            n_legs = 4
            vf, vp = n_legs * pi * a["r_in"] ** 2, n_legs * pi * (a["r_out"] ** 2 - a["r_in"] ** 2)
            rc, rp = 1.0 / (bhe.h_f * n_legs * pi * (2 * a["r_in"]) ** 2), _ln(a["r_out"] / a["r_in"]) / (n_legs * 2 * pi * a["k_pipe"])
        else:
            vf = pi * (a["r_ii"] ** 2 + a["r_oi"] ** 2 - a["r_io"] ** 2)
            vp = pi * (a["r_io"] ** 2 - a["r_ii"] ** 2 + a["r_oo"] ** 2 - a["r_oi"] ** 2)
            rc, rp = 1.0 / (bhe.h_f_a_in * 2 * pi * a["r_oi"]), _ln(a["r_oo"] / a["r_oi"]) / (2 * pi * a["k_pipe"])
        tv = bhe.u_tube_volumes() if a["kind"].startswith("double") else bhe.concentric_tube_volumes()
        if any(rel(x, y) > 1e-12 for x, y in zip(tv, (vf, vp, rc, rp))):
            return False, {"why": "the bulk quantities handed to the conversion are not those of this exchanger (volumes per metre, convective and pipe resistance from its own geometry, flow and conductivity)",
                           "tool": list(tv), "from_geometry": [vf, vp, rc, rp], "signature": "bulk-quantities"}
        if rel(2 * pi * eq.r_in ** 2, vf) > 1e-9 or rel(2 * pi * (eq.r_out ** 2 - eq.r_in ** 2), vp) > 1e-9:
            return False, {"why": "fluid / pipe-wall volume per metre not preserved", "want": [vf, vp], "got": [2 * pi * eq.r_in ** 2, 2 * pi * (eq.r_out ** 2 - eq.r_in ** 2)], "signature": "volumes"}
        if rel(eq.pipe.r_in, eq.r_in) > 0 or rel(eq.pipe.r_out, eq.r_out) > 0:
            return False, {"why": "equivalent tube's pipe record disagrees with its radii", "signature": "volumes"}
        if rel(eq.R_fp, rc + rp) > 1e-4:
            from math import log

            k_prelim = log(eq.r_out / eq.r_in) / (2 * pi * 2 * rp)  # the conductivity the pipe-conductivity solve starts from; its bracket is [k/100, 10 k]
            clamped = rel(eq.pipe.k, 10 * k_prelim) < 1e-9 or rel(eq.pipe.k, k_prelim / 100) < 1e-9
            return False, {"why": "combined convective-plus-pipe resistance not reproduced", "want": rc + rp, "got": eq.R_fp, "k_pipe_eq": eq.pipe.k, "k_pipe_preliminary": k_prelim,
                           "convective_resistance_of_the_equivalent_tube_alone": eq.R_f,
                           "signature": "fluid-pipe-resistance/no-root-in-bracket-conductivity-clamped" if clamped else "fluid-pipe-resistance/other"}
        after = (bhe.b.r_b, bhe.grout.k, bhe.pipe.k if not isinstance(bhe.pipe.k, (list, tuple)) else tuple(bhe.pipe.k), bhe.calc_effective_borehole_resistance())
        if after != before:
            return False, {"why": "the conversion changed the original exchanger", "before": before, "after": after, "signature": "original-modified"}
        rb, rb_eq = before[3], eq.calc_effective_borehole_resistance()
        if rel(rb_eq, rb) > 1e-3:
            # which defect? the tube handed back still carries the delta-circuit of the preliminary grout conductivity
            eq.update_thermal_resistances(eq.R_fp)
            rb_refreshed = eq.calc_effective_borehole_resistance()
            stale = rel(rb_refreshed, rb_eq) > 1e-9
            return False, {"why": "effective borehole resistance of the equivalent tube differs from the original's by more than 0.1 %", "rb": rb, "rb_equivalent": rb_eq,
                           "relative_error": rel(rb_eq, rb), "k_grout_equivalent": eq.grout.k, "rb_after_refreshing_the_delta_circuit": rb_refreshed,
                           "signature": "rb-mismatch/stale-delta-circuit-and-clamped-grout-conductivity" if stale and eq.grout.k in (7.0, 1e-2) else "rb-mismatch/other"}
    return True, {}


_eq_counter = [0]


def _equiv_gen(rng):
    k = _eq_counter[0]
    _eq_counter[0] += 1
    kind = ["double_parallel", "double_series", "coaxial", "single", "coaxial", "double_parallel", "double_parallel"][k] if k < 7 else rng.choice(["double_parallel", "double_series", "coaxial", "coaxial", "single"])
    a = {"kind": kind, "flow": rng.choice([0.05, 0.1, 0.1, 0.3, 0.5, 0.8, 1.5]), "k_soil": round(rng.uniform(1.0, 4.0), 2), "k_grout": round(rng.uniform(0.6, 2.4), 2), "k_pipe": round(rng.uniform(0.3, 0.6), 2),
         "fluid": rng.choice(["Water", "Water", "PropyleneGlycol"]), "H": rng.choice([50.0, 100.0, 200.0])}
    a["conc"] = 20.0 if a["fluid"] != "Water" else 0.0
    if k in (2, 4):  # the two recorded findings' inputs come first: coaxial at 0.1 L/s (no root for the pipe conductivity) and at 0.8 L/s (stale delta-circuit)
        a["flow"] = 0.1 if k == 2 else 0.8
    if k in (5, 6):  # laminar flow in the tubes of a parallel double U-tube: the convective term dominates and the matching pipe conductivity is far below the equal-volume estimate
        a.update(flow=0.1 if k == 5 else 0.05, fluid="Water", conc=0.0)
    if kind == "coaxial":
        r_ii = rng.uniform(0.018, 0.024)
        a.update(r_ii=r_ii, r_io=r_ii + rng.uniform(0.002, 0.004), r_oi=r_ii + rng.uniform(0.02, 0.03))
        a["r_oo"] = a["r_oi"] + rng.uniform(0.004, 0.008)
        a["r_b"] = a["r_oo"] + rng.uniform(0.01, 0.03)
    else:
        a.update(r_in=rng.uniform(0.011, 0.017) if k not in (5, 6) else 0.01702, s=rng.uniform(0.012, 0.03))
        a["r_out"] = a["r_in"] + rng.uniform(0.002, 0.005)
        a["s"] = max(a["s"], 0.9 * a["r_out"])  # the four legs of a double U-tube must not overlap: s >= 2 (sqrt 2 - 1) r_out
        a["r_b"] = max(0.055, 2 * a["r_out"] + a["s"] / 2 + 0.012) + rng.uniform(0.0, 0.03)
    return a


native(f"{B_}:GHEDesignerBoreholeWithMultiplePipes.equivalent_single_u_tube", _equiv_check, _equiv_gen, None,
       bound="real double-U (series/parallel), coaxial and single exchangers: radii/spacings that fit, r_b 55..110 mm, k_soil 1..4, k_grout 0.6..2.4, k_pipe 0.3..0.6, water / 20 % propylene glycol, 0.05..1.5 L/s (laminar tube flow included), "
             "H 50..200 m: volumes (1e-9), R_fp (1e-4), original untouched, R_b* (0.1 %)")


# ---- the conversion itself: equivalent_single_u_tube (volumes, copies, frame) and match_effective_borehole_resistance (coherent delta-circuit) ---------
from pyvc.libmodels import SQRT  # noqa: E402

RFPF = z3.Function("R_FP", z3.RealSort(), z3.RealSort(), z3.RealSort(), z3.RealSort())  # fluid-to-pipe-wall resistance of a single U-tube (r_in, r_out, pipe conductivity) for the call's fluid and flow: A-DET
RBEFF = z3.Function("RB_EFF", z3.IntSort(), z3.RealSort(), z3.RealSort(), z3.RealSort())  # effective borehole resistance (identity, grout conductivity and R_fp the delta-circuit was built with)


TUBEID = z3.Function("TUBE_ID", z3.RealSort(), z3.RealSort(), z3.IntSort())  # identity of the single U-tube built for these radii (within one conversion: same borehole, media, flow)


def EqTube():
    """the preliminary single U-tube as the conversion sees it: its own record plus ghosts naming what its delta-circuit was last computed from"""
    return ObjOf(f"{B_}:SingleUTube", g_id=Int, m_flow_borehole=Real, R_fp=Real, k_g=Real, g_rd_kg=Real, g_rd_rfp=Real,
                 pipe=ObjOf("ghedesigner.media:Pipe", k=Real, r_in=Real, r_out=Real, s=Real, roughness=Real, rhoCp=Real), grout=ObjOf("ghedesigner.media:Grout", k=Real, rhoCp=Real),
                 b=ObjOf("ghedesigner.borehole:GHEBorehole", r_b=Real, H=Real, D=Real), fluid=ObjOf("fluid", cp=Real), soil=ObjOf("soil", k=Real))


# pygfunction-facing methods of the preliminary tube (ASSUMED caller views, named after what the library does; listed in the evidence)
contract(f"{B_}:SingleUTube.calc_fluid_pipe_resistance", dict(self=EqTube()), name=f"{B_}:SingleUTube.calc_fluid_pipe_resistance#eq",
         ensures=[("function-of-the-pipe-conductivity", lambda E: And(E.self.R_fp == RFPF(E.self.pipe.r_in, E.self.pipe.r_out, E.self.pipe.k), E.result == E.self.R_fp))],
         assigns=[(lambda P: (P.self, "R_fp"), Real)], returns=Real,
         notes="ASSUMED: R_fp = R_f + R_p is a function of the exchanger and its pipe conductivity (pygfunction convection / conduction formulas: A-DET)").applies = lambda env: "g_rd_kg" in env["self"].fields
contract(f"{B_}:SingleUTube.calc_effective_borehole_resistance", dict(self=EqTube()), name=f"{B_}:SingleUTube.calc_effective_borehole_resistance#eq",
         ensures=[("reads-the-stored-delta-circuit", lambda E: E.result == RBEFF(E.self.g_id, E.self.g_rd_kg, E.self.g_rd_rfp))], returns=Real,
         notes="ASSUMED (pygfunction): effective_borehole_thermal_resistance reads the delta-circuit _Rd, which only update_thermal_resistances recomputes "
               "(from k_g and R_fp); _initialize_stored_coefficients only clears caches").applies = lambda env: "g_rd_kg" in env["self"].fields


def coherent(t):
    """the tube's delta-circuit is the one of its current grout conductivity and fluid-to-pipe resistance"""
    return And(t.g_rd_kg == t.k_g, t.k_g == t.grout.k, t.g_rd_rfp == t.R_fp)

# the constructor of the preliminary tube (flow.py's trusted view stores the arguments); here it additionally names the resistances pygfunction computes in it
_ctor = REG.contracts[f"{B_}:SingleUTube.__init__"]
_ctor.assigns = list(_ctor.assigns) + [((lambda P, k=k: (P.self, k)), sh) for k, sh in dict(g_id=Int, R_fp=Real, k_g=Real, g_rd_kg=Real, g_rd_rfp=Real, r_in=Real, r_out=Real).items()]
_ctor.ensures = list(_ctor.ensures) + [
    ("constructed-coherent (ASSUMED: the constructor ends with update_thermal_resistances(R_fp))",
     lambda E: And(E.self.g_id == TUBEID(E.pipe.r_in, E.pipe.r_out), E.self.R_fp == RFPF(E.pipe.r_in, E.pipe.r_out, E.pipe.k), E.self.k_g == E.grout.k, E.self.g_rd_kg == E.grout.k, E.self.g_rd_rfp == E.self.R_fp,
                   E.self.r_in == E.pipe.r_in, E.self.r_out == E.pipe.r_out) if E.pipe.raw().fields.get("k") is not None and E.grout.raw().fields.get("k") is not None else True)]

MultiSelf = lambda: ObjOf(f"{B_}:MultipleUTube", g_id=Int, m_flow_borehole=Real, b=ObjOf("ghedesigner.borehole:GHEBorehole", r_b=Real, H=Real, D=Real),  # noqa: E731
                          pipe=ObjOf("ghedesigner.media:Pipe", roughness=Real, rhoCp=Real, k=Real), grout=ObjOf("ghedesigner.media:Grout", k=Real, rhoCp=Real),
                          fluid=ObjOf("fluid", cp=Real), soil=ObjOf("soil", k=Real))
RB_ORIG = z3.Function("RB_ORIGINAL", z3.IntSort(), z3.RealSort())
contract(f"{B_}:MultipleUTube.calc_effective_borehole_resistance", dict(self=MultiSelf()), name=f"{B_}:MultipleUTube.calc_effective_borehole_resistance#orig",
         ensures=[("function-of-the-original-exchanger", lambda E: E.result == RB_ORIG(E.self.g_id))], returns=Real,
         notes="ASSUMED: the original exchanger's effective resistance is a function of its (unchanged) state").applies = lambda env: "g_id" in env["self"].fields

def _eq_tube_of_self():
    t = EqTube()
    t.fields["fluid"] = AliasOf(lambda P: P.self.fields["fluid"])  # the equivalent tube shares fluid and soil with the original
    t.fields["soil"] = AliasOf(lambda P: P.self.fields["soil"])
    return t


contract(f"{B_}:GHEDesignerBoreholeWithMultiplePipes.equivalent_single_u_tube",
         dict(self=MultiSelf(), vol_fluid=Real, vol_pipe=Real, resist_conv=Real, resist_pipe=Real),
         requires=[("positive-bulk-quantities", lambda E: And(E.vol_fluid > 0, E.vol_pipe > 0, E.resist_conv > 0, E.resist_pipe > 0, E.self.b.r_b > 0)),
                   ("residual-nonzero-at-the-bracket-ends (solve_root's own precondition)", lambda E: _residual_nonzero(E))],
         ensures=[("fluid-volume-preserved", lambda E: 2 * PI * E.result.pipe.r_in * E.result.pipe.r_in == E.vol_fluid),
                  ("pipe-wall-volume-preserved", lambda E: 2 * PI * (E.result.pipe.r_out * E.result.pipe.r_out - E.result.pipe.r_in * E.result.pipe.r_in) == E.vol_pipe),
                  ("same-flow-fluid-soil-and-pipe-capacity", lambda E: And(E.result.m_flow_borehole == E.self.m_flow_borehole, E.result.fluid.raw() is E.self.fluid.raw(), E.result.soil.raw() is E.self.soil.raw(),
                                                                            E.result.pipe.roughness == E.self.pipe.roughness, E.result.pipe.rhoCp == E.self.pipe.rhoCp)),
                  ("borehole-and-grout-are-copies", lambda E: And(E.result.b.raw() is not E.self.b.raw(), E.result.grout.raw() is not E.self.grout.raw(), E.result.grout.k == E.self.grout.k,
                                                                   E.result.b.r_b >= E.self.b.r_b, E.result.b.H == E.self.b.H)),
                  ("fluid-pipe-resistance-is-the-one-of-the-final-pipe-conductivity", lambda E: E.result.R_fp == RFPF(E.result.pipe.r_in, E.result.pipe.r_out, E.result.pipe.k)),
                  ("delta-circuit-still-the-constructor's", lambda E: And(E.result.g_id == TUBEID(E.result.pipe.r_in, E.result.pipe.r_out), E.result.g_rd_kg == E.self.grout.k, E.result.k_g == E.self.grout.k,
                                                                          E.result.g_rd_rfp == RFPF(E.result.pipe.r_in, E.result.pipe.r_out, _kp(E)),
                                                                          E.result.pipe.r_in == SQRT(E.vol_fluid / (2 * PI)), E.result.pipe.r_out == SQRT((E.vol_fluid + E.vol_pipe) / (2 * PI))))],
         returns=_eq_tube_of_self(), options={"timeout_ms": 60000, "log_sign_facts": True})


def _kp(E):
    ri, ro = SQRT(E.vol_fluid / (2 * PI)), SQRT((E.vol_fluid + E.vol_pipe) / (2 * PI))
    return LOG(ro / ri) / ((2 * PI) * 2 * E.resist_pipe)


def _residual_nonzero(E):
    ri, ro = SQRT(E.vol_fluid / (2 * PI)), SQRT((E.vol_fluid + E.vol_pipe) / (2 * PI))
    kp = LOG(ro / ri) / ((2 * PI) * 2 * E.resist_pipe)
    target = E.resist_conv + E.resist_pipe
    return And(RFPF(ri, ro, kp / 100) - target != 0, RFPF(ri, ro, kp * 10) - target != 0)

contract(f"{B_}:SingleUTube.update_thermal_resistances", dict(self=EqTube(), R_fp=Real), name=f"{B_}:SingleUTube.update_thermal_resistances#eq",
         ensures=[("delta-circuit-recomputed-from-current-k_g-and-R_fp", lambda E: And(E.self.g_rd_kg == E.self.k_g, E.self.g_rd_rfp == E.R_fp, E.self.R_fp == E.R_fp))],
         assigns=[(lambda P: (P.self, "g_rd_kg"), Real), (lambda P: (P.self, "g_rd_rfp"), Real), (lambda P: (P.self, "R_fp"), Real)], returns=NoneT(),
         notes="ASSUMED (pygfunction source): update_thermal_resistances(R_fp) stores R_fp and recomputes _Rd from (pos, r_out, r_b, k_s, k_g, R_fp)").applies = lambda env: "g_rd_kg" in env["self"].fields


def _match_requires(E):
    t = E.preliminary_new_single_u_tube
    lo, hi = RealVal("1/100"), RealVal(7)
    return And(t.g_rd_kg == t.k_g, t.k_g == t.grout.k, RB_ORIG(E.self.g_id) - RBEFF(t.g_id, t.g_rd_kg, t.g_rd_rfp) != 0,
               RB_ORIG(E.self.g_id) - RBEFF(t.g_id, RealVal("1/100"), t.R_fp) != 0, RB_ORIG(E.self.g_id) - RBEFF(t.g_id, RealVal(7), t.R_fp) != 0,
               # had the objective refreshed the delta-circuit these would be the residuals at the bracket ends
               RB_ORIG(E.self.g_id) - RBEFF(t.g_id, lo, t.g_rd_rfp) != 0, RB_ORIG(E.self.g_id) - RBEFF(t.g_id, hi, t.g_rd_rfp) != 0)


contract(f"{B_}:GHEDesignerBoreholeWithMultiplePipes.match_effective_borehole_resistance", dict(self=MultiSelf(), preliminary_new_single_u_tube=EqTube()),
         requires=[("preliminary-tube-coherent-and-residuals-nonzero", _match_requires)],
         ensures=[("returns-the-tube-it-was-given", lambda E: E.result.raw() is E.preliminary_new_single_u_tube.raw()),
                  ("grout-conductivity-within-its-bracket", lambda E: And(E.result.grout.k >= RealVal("1/100"), E.result.grout.k <= 7, E.result.k_g == E.result.grout.k)),
                  ("returned-tube-is-coherent: its delta-circuit is the one of its grout conductivity", lambda E: coherent(E.result)),
                  ("only-the-grout-conductivity-of-the-tube-changes", lambda E: And(E.result.pipe.k == E.old.preliminary_new_single_u_tube.pipe.k, E.result.R_fp == E.old.preliminary_new_single_u_tube.R_fp,
                                                                                   E.result.b.r_b == E.old.preliminary_new_single_u_tube.b.r_b))],
         assigns=[(lambda P: (P.preliminary_new_single_u_tube, "k_g"), Real), (lambda P: (P.preliminary_new_single_u_tube.fields["grout"], "k"), Real),
                  (lambda P: (P.preliminary_new_single_u_tube, "g_rd_kg"), Real), (lambda P: (P.preliminary_new_single_u_tube, "g_rd_rfp"), Real)],
         returns=AliasOf(lambda P: P.preliminary_new_single_u_tube), options={"timeout_ms": 60000})

# the composition for a double U-tube: the tube handed to the short-time model has the original's volumes and a coherent delta-circuit
contract(f"{B_}:MultipleUTube.to_single",
         dict(self=ObjOf(f"{B_}:MultipleUTube", g_id=Int, nPipes=Int, r_in=Real, r_out=Real, h_f=Real, m_flow_borehole=Real, b=ObjOf("ghedesigner.borehole:GHEBorehole", r_b=Real, H=Real, D=Real),
                         pipe=ObjOf("ghedesigner.media:Pipe", roughness=Real, rhoCp=Real, k=Real), grout=ObjOf("ghedesigner.media:Grout", k=Real, rhoCp=Real),
                         fluid=ObjOf("fluid", cp=Real), soil=ObjOf("soil", k=Real))),
         requires=[("physical", lambda E: And(E.self.nPipes >= 1, E.self.r_in > 0, E.self.r_out > E.self.r_in, E.self.h_f > 0, E.self.pipe.k > 0, E.self.b.r_b > 0)),
                   ("A-LOG instance: ln(r_out/r_in) > 0 for r_out > r_in", lambda E: LOG(E.self.r_out / E.self.r_in) > 0),
                   ("residuals-nonzero-at-the-bracket-ends (solve_root's precondition, both solves)", lambda E: _to_single_residuals(E))],
         ensures=[("fluid-volume-per-metre-preserved", lambda E: 2 * PI * E.result.pipe.r_in * E.result.pipe.r_in == 2 * E.self.nPipes * PI * E.self.r_in * E.self.r_in),
                  ("pipe-wall-volume-per-metre-preserved", lambda E: 2 * PI * (E.result.pipe.r_out * E.result.pipe.r_out - E.result.pipe.r_in * E.result.pipe.r_in)
                   == 2 * E.self.nPipes * PI * (E.self.r_out * E.self.r_out - E.self.r_in * E.self.r_in)),
                  ("equivalent-tube-coherent", lambda E: coherent(E.result))],
         returns=EqTube(), options={"timeout_ms": 60000})


def _to_single_residuals(E):
    n = 2 * E.self.nPipes
    vf = n * PI * E.self.r_in * E.self.r_in
    vp = n * PI * (E.self.r_out * E.self.r_out - E.self.r_in * E.self.r_in)
    ri, ro = SQRT(vf / (2 * PI)), SQRT((vf + vp) / (2 * PI))
    rpipe = LOG(E.self.r_out / E.self.r_in) / (n * (2 * PI) * E.self.pipe.k)
    kp = LOG(ro / ri) / ((2 * PI) * 2 * rpipe)
    tid, rfp0 = TUBEID(ri, ro), RFPF(ri, ro, kp)
    # (the convective resistance enters the target of the first solve; its residuals are nonzero for every positive convective resistance)
    return And(ForAll([z3.Real("rc!")], Implies(z3.Real("rc!") > 0, And(RFPF(ri, ro, kp / 100) - (z3.Real("rc!") + rpipe) != 0, RFPF(ri, ro, kp * 10) - (z3.Real("rc!") + rpipe) != 0))),
               RB_ORIG(E.self.g_id) - RBEFF(tid, E.self.grout.k, rfp0) != 0,
               # residuals of the grout solve at its bracket ends for whatever R_fp the first solve ends with
               ForAll([z3.Real("rfp!")], And(RB_ORIG(E.self.g_id) - RBEFF(tid, RealVal("1/100"), z3.Real("rfp!")) != 0, RB_ORIG(E.self.g_id) - RBEFF(tid, RealVal(7), z3.Real("rfp!")) != 0)))


EQUIV_FUNCS = [f"{B_}:GHEDesignerBoreholeWithMultiplePipes.equivalent_single_u_tube", f"{B_}:GHEDesignerBoreholeWithMultiplePipes.match_effective_borehole_resistance", f"{B_}:MultipleUTube.to_single"]

# the composition for a coaxial exchanger
contract(f"{B_}:CoaxialPipe.calc_effective_borehole_resistance", dict(self=ObjOf(f"{B_}:CoaxialPipe", g_id=Int)), name=f"{B_}:CoaxialPipe.calc_effective_borehole_resistance#orig",
         ensures=[("function-of-the-original-exchanger", lambda E: E.result == RB_ORIG(E.self.g_id))], returns=Real,
         notes="ASSUMED: the original exchanger's effective resistance is a function of its (unchanged) state").applies = lambda env: "g_id" in env["self"].fields


def _coax_residuals(E):
    rii, rio = E.self.r_inner[0], E.self.r_inner[1]
    roi, roo = E.self.r_outer[0], E.self.r_outer[1]
    vf = PI * (rii * rii + roi * roi - rio * rio)
    vp = PI * (rio * rio - rii * rii + roo * roo - roi * roi)
    ri, ro = SQRT(vf / (2 * PI)), SQRT((vf + vp) / (2 * PI))
    rpipe = LOG(roo / roi) / ((2 * PI) * E.self.pipe.k[1])
    kp = LOG(ro / ri) / ((2 * PI) * 2 * rpipe)
    tid, rfp0 = TUBEID(ri, ro), RFPF(ri, ro, kp)
    return And(ForAll([z3.Real("rc!")], Implies(z3.Real("rc!") > 0, And(RFPF(ri, ro, kp / 100) - (z3.Real("rc!") + rpipe) != 0, RFPF(ri, ro, kp * 10) - (z3.Real("rc!") + rpipe) != 0))),
               RB_ORIG(E.self.g_id) - RBEFF(tid, E.self.grout.k, rfp0) != 0,
               ForAll([z3.Real("rfp!")], And(RB_ORIG(E.self.g_id) - RBEFF(tid, RealVal("1/100"), z3.Real("rfp!")) != 0, RB_ORIG(E.self.g_id) - RBEFF(tid, RealVal(7), z3.Real("rfp!")) != 0)))


contract(f"{B_}:CoaxialPipe.to_single",
         dict(self=ObjOf(f"{B_}:CoaxialPipe", g_id=Int, r_inner=FixedList([Real, Real]), r_outer=FixedList([Real, Real]), h_f_a_in=Real, m_flow_borehole=Real,
                         b=ObjOf("ghedesigner.borehole:GHEBorehole", r_b=Real, H=Real, D=Real),
                         pipe=ObjOf("ghedesigner.media:Pipe", roughness=Real, rhoCp=Real, k=FixedList([Real, Real])), grout=ObjOf("ghedesigner.media:Grout", k=Real, rhoCp=Real),
                         fluid=ObjOf("fluid", cp=Real), soil=ObjOf("soil", k=Real))),
         requires=[("nested-radii", lambda E: And(0 < E.self.r_inner[0], E.self.r_inner[0] < E.self.r_inner[1], E.self.r_inner[1] < E.self.r_outer[0], E.self.r_outer[0] < E.self.r_outer[1],
                                                  E.self.h_f_a_in > 0, E.self.pipe.k[1] > 0, E.self.b.r_b > 0)),
                   ("A-LOG instance: ln(r_oo/r_oi) > 0", lambda E: LOG(E.self.r_outer[1] / E.self.r_outer[0]) > 0),
                   ("residuals-nonzero-at-the-bracket-ends (solve_root's precondition, both solves)", _coax_residuals)],
         ensures=[("fluid-volume-per-metre-preserved", lambda E: 2 * PI * E.result.pipe.r_in * E.result.pipe.r_in
                   == PI * (E.self.r_inner[0] * E.self.r_inner[0] + E.self.r_outer[0] * E.self.r_outer[0] - E.self.r_inner[1] * E.self.r_inner[1])),
                  ("pipe-wall-volume-per-metre-preserved", lambda E: 2 * PI * (E.result.pipe.r_out * E.result.pipe.r_out - E.result.pipe.r_in * E.result.pipe.r_in)
                   == PI * (E.self.r_inner[1] * E.self.r_inner[1] - E.self.r_inner[0] * E.self.r_inner[0] + E.self.r_outer[1] * E.self.r_outer[1] - E.self.r_outer[0] * E.self.r_outer[0])),
                  ("equivalent-tube-coherent", lambda E: coherent(E.result))],
         returns=EqTube(), options={"timeout_ms": 60000})
EQUIV_FUNCS.append(f"{B_}:CoaxialPipe.to_single")
