import sys, importlib, time
sys.path.insert(0, '/verif')
import z3
from pyvc.api import REG
from pyvc.engine import Exec
from pyvc.program import Program
from pyvc import solve
[importlib.import_module('contracts.' + m) for m in __import__('contracts').MODULES]
ex = Exec(Program('/repo'), REG)
obls = ex.verify(sys.argv[1])
for o in obls:
    if sys.argv[2] in o.name and (len(sys.argv) < 4 or sys.argv[3] in o.path) and o.kind != "cover":
        smt = solve.to_smt2(ex.axioms, o.assumptions, o.goal)
        for v in (0, 2, 1):
            ctx = z3.Context(); s = z3.Solver(ctx=ctx); s.set("timeout", 60000)
            if v == 2: s.set("smt.arith.solver", 6); s.set("smt.random_seed", 7)
            if v == 1: s.set("smt.arith.nl.nra", True); s.set("smt.mbqi", False)
            s.from_string(smt); t = time.time(); r = s.check(); dt = time.time() - t
            st = s.statistics(); rl = [st.get_key_value(k) for k in st.keys() if k == "rlimit count"]
            print(o.name[-40:], o.path, v, r, round(dt, 2), rl, flush=True)
