"""C15 - the equivalent single U-tube preserves the exchanger's bulk properties."""
from contracts import equiv
from props.common import *  # noqa: F401,F403

B_ = "ghedesigner.borehole_heat_exchangers"
FUNCTIONS = [f"{B_}:MultipleUTube.u_tube_volumes", f"{B_}:CoaxialPipe.concentric_tube_volumes", f"{B_}:SingleUTube.to_single#identity",
             f"{U}:sign", f"{U}:check_bracket", f"{U}:solve_root"]
NATIVE_FUNCTIONS = [f"{B_}:GHEDesignerBoreholeWithMultiplePipes.equivalent_single_u_tube", f"{U}:solve_root"]
NATIVE_CASES = {"quick": 40, "thorough": 1500}
NATIVE_LIMIT_S = {"quick": 120, "thorough": 3000}
CASE_TIMEOUT = 100
LEVEL = "other"


def lemmas():
    return equiv.LEMMAS


ASSUMPTIONS = [A_REAL, A_ENGINE, "A-BRENT: scipy.optimize.brentq returns a point within 4*(xtol + rtol*|r|) of a sign change of the objective (solve_root's contract)",
               "log as an uninterpreted function (only log(r_out/r_in) appears, symbolically equal on both sides)",
               "equivalent_single_u_tube / match_effective_borehole_resistance are NOT under a discharged contract: their bodies construct pygfunction exchangers (external base classes) and drive two root "
               "solves through closures that mutate them; they are covered by the bounded run-time contract only"]
NOT_PROVED = ["volume preservation of the equivalent tube as built by equivalent_single_u_tube: proved for the formula r' = sqrt(V/(2 pi)) as a lemma over the leaf contracts (the radii "
              "the lemma speaks of are the ones the code computes, but the code path itself is checked at run time only)",
              "R_fp reproduced and R_b* within 0.1 %: pygfunction multipole numerics behind brentq - bounded run-time contract; R_b* clause is violated on the unchanged tree (known finding D16)"]
EXPLANATION = ("The bulk quantities handed to the conversion are proved to be the geometric ones: double U-tube n pi r_in^2 and n pi (r_out^2 - r_in^2) with n = 2 nPipes legs, "
               "pipe resistance ln(r_out/r_in)/(n 2 pi k); coaxial: core plus annulus, both walls, outer-wall resistance. A lemma shows the equal-volume radii sqrt(V/(2 pi)) reproduce "
               "both volumes exactly with r_out' > r_in'. SingleUTube.to_single returns the object itself. solve_root (the root helper of both matching steps) is proved against A-BRENT: "
               "bracketed root within tolerance, otherwise the bracket end on the side of the sign. The real conversion is exercised at run time: volumes to 1e-9, R_fp to 1e-4, "
               "the original exchanger (radius, grout, pipe, R_b*) untouched, R_b* to 0.1 % - the last clause fails for every double-U / coaxial input (known finding D16: stale delta-circuit).")
LEVEL_TEXT = ("Proof of the leaf quantities, the equal-volume lemma, the identity case and the root helper; the conversion itself (pygfunction objects, two root solves) is a bounded run-time "
              "contract - hence level 'other'.")
LEVEL_NOTE = "Trusted: pyvc, z3, A-BRENT. Bounded: real exchangers over generated geometries (never counted as proved)."
