import sys, time, importlib
sys.path.insert(0,'/verif')
from pyvc.api import REG
from pyvc.engine import Exec
from pyvc.program import Program
from pyvc import solve
[importlib.import_module('contracts.'+m) for m in __import__('contracts').MODULES]
prog = Program(sys.argv[1])
for q in sys.argv[2:]:
    ex = Exec(prog, REG)
    try:
        obls = ex.verify(q)
    except Exception as e:
        print('ENGINE', type(e).__name__, e); continue
    res = solve.discharge(obls, ex.axioms, jobs=16, timeout_ms=20000)
    bad = sorted({(r.obl.name, r.status) for r in res if r.obl.kind!='cover' and r.status!='unsat'})
    print(q, len(res), 'FAILED:' if bad else 'all discharged', bad)
