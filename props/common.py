"""Shared text for the property modules."""
TECHNIQUE = "contract-based deductive verification: sidecar contracts + ast->VC generator (pyvc), loop invariants, z3/cvc5; native replay; bounded run-time contract checks labelled as such"
A_REAL = "A-REAL: machine floats treated as mathematical reals (discontinuity sites listed per function in the evidence)"
A_ENGINE = "pyvc's encoding of the Python subset (sidecar invariants, library models listed in trusted_base) and the SMT solvers are trusted"
A_DET = "A-DET: pygfunction/scipy/numpy calls are deterministic functions of their arguments (configuration ids are named by constructor arguments)"
A_ORACLE = ("abstract oracle: EX(field, h) = excess temperature of the GHE that initialize_ghe(field, h) builds, simulated at h; "
            "OBJ(cfg, h) = excess of configuration cfg at height h (all loads/soils/pipes/limits are inside these functions, so the proof covers every such input)")
S = "ghedesigner.search_routines"
M = "ghedesigner.manager"
D = "ghedesigner.design"
G = "ghedesigner.ground_heat_exchangers"
U = "ghedesigner.utilities"
SEARCH_FUNCS = [f"{U}:sign", f"{U}:check_bracket", f"{U}:solve_root", f"{G}:BaseGHE.cost", f"{G}:GHE.size",
                f"{S}:Bisection1D.calculate_excess", f"{S}:Bisection1D.initialize_ghe",
                f"{S}:Bisection1D.search#nocap", f"{S}:Bisection1D.search#cap",
                f"{S}:Bisection1D.__init__#search-nocap", f"{S}:Bisection1D.__init__#search-cap", f"{S}:Bisection1D.__init__#nosearch",
                f"{S}:Bisection2D.__init__#nocap", f"{S}:Bisection2D.__init__#cap",
                f"{S}:BisectionZD.search_successive#nocap", f"{S}:BisectionZD.search_successive#cap",
                f"{S}:BisectionZD.__init__#nocap", f"{S}:BisectionZD.__init__#cap"]
DESIGN_FUNCS = [f"{D}:DesignNearSquare.find_design#nocap", f"{D}:DesignNearSquare.find_design#cap",
                f"{D}:DesignRectangle.find_design#nocap", f"{D}:DesignRectangle.find_design#cap",
                f"{M}:GHEManager.find_design#DesignNearSquare-nocap", f"{M}:GHEManager.find_design#DesignNearSquare-cap",
                f"{M}:GHEManager.find_design#DesignRectangle-nocap", f"{M}:GHEManager.find_design#DesignRectangle-cap"]
SEARCH_NATIVES = [f"{S}:RowWiseModifiedBisectionSearch.search", f"{U}:sign", f"{U}:solve_root", f"{S}:Bisection1D.search#nocap", f"{S}:Bisection1D.search#cap",
                  f"{S}:BisectionZD.search_successive#nocap", f"{G}:BaseGHE.cost"]
