"""Contracts for ghedesigner/output.py (C19, C12)."""
import z3

from pyvc.api import *
from pyvc.run import native

DAYS = [31, 28, 31, 30, 31, 30, 31, 31, 30, 31, 30, 31]  # the non-leap calendar (the specification, not the code's table)
CUM = [0]
for _d in DAYS:
    CUM.append(CUM[-1] + 24 * _d)
assert CUM[-1] == 8760

OM = "ghedesigner.output:OutputManager"


def time_convert_spec(h, res):
    """(month, day, hour) of hour-of-year h in the non-leap calendar, all 1-based."""
    cases = []
    for m in range(1, 13):
        off = h - CUM[m - 1]
        cases.append(And(CUM[m - 1] <= h, h < CUM[m], res[0] == m, res[1] == off / 24 + 1, res[2] == off % 24 + 1))
    return Or(*cases)


contract(
    f"{OM}.ghe_time_convert", dict(hours=Int),
    requires=[("hour-of-year", lambda E: And(E.hours >= 0, E.hours < 8760))],
    ensures=[("calendar", lambda E: time_convert_spec(E.hours, E.result))],
    returns=TupleOf(Int, Int, Int),
)


def h2m(t):
    """Closed form of the fractional month: 12*years + m + (t' - C_m)/(C_{m+1} - C_m) on C_m < t' <= C_{m+1}."""
    n = ToInt(t / 8760)
    tp = t - ToReal(n) * 8760
    out = ToReal(n) * 12 + 11 + (tp - CUM[11]) / (CUM[12] - CUM[11])
    for m in range(10, -1, -1):
        out = If(tp <= CUM[m + 1], ToReal(n) * 12 + m + (tp - CUM[m]) / (CUM[m + 1] - CUM[m]), out)
    return out


contract(
    f"{OM}.hours_to_month", dict(hours=Real),
    requires=[("non-negative", lambda E: E.hours >= 0)],
    ensures=[("closed-form", lambda E: E.result == h2m(E.hours))],
    returns=Real,
)


def _F(r):
    """piecewise-linear month fraction within one year, 0 <= r <= 8760"""
    out = 11 + (r - CUM[11]) / (CUM[12] - CUM[11])
    for m in range(10, -1, -1):
        out = If(r <= CUM[m + 1], m + (r - CUM[m]) / (CUM[m + 1] - CUM[m]), out)
    return out


def lemma_h2m_decomposition():
    """h2m(8760 n + r) == 12 n + F(r) for whole years n and 0 <= r < 8760 (removes the floor)."""
    n = z3.Int("n")
    r = z3.Real("r")
    return [n >= 0, r >= 0, r < 8760], h2m(ToReal(n) * 8760 + r) == ToReal(n) * 12 + _F(r)


def _within(r1, r2):
    """statement of lemma within-year at (r1, r2)"""
    return Implies(And(r1 >= 0, r2 <= 8760, r1 <= r2), And(_F(r1) <= _F(r2), _F(r2) - _F(r1) <= (r2 - r1) / 672))


def lemma_F_within_year():
    """0 <= r1 <= r2 <= 8760 -> 0 <= F(r2) - F(r1) <= (r2 - r1)/672 (monotone and Lipschitz inside a year)."""
    r1, r2 = z3.Reals("r1 r2")
    return [], _within(r1, r2)


def lemma_h2m_monotone_lipschitz():
    """t1 <= t2 -> 0 <= H(t2) - H(t1) <= (t2 - t1)/672 in the (n, r) form.  The only facts used about F are three
    instances of lemma within-year (assumptions below are exactly those instances, proved universally above)."""
    n1, n2 = z3.Ints("n1 n2")
    r1, r2 = z3.Reals("r1 r2")
    f1, f2 = z3.Reals("f1 f2")  # f_i stands for F(r_i)
    t1, t2 = ToReal(n1) * 8760 + r1, ToReal(n2) * 8760 + r2
    h1, h2 = ToReal(n1) * 12 + f1, ToReal(n2) * 12 + f2
    inst = [
        Implies(r1 <= r2, And(f1 <= f2, f2 - f1 <= (r2 - r1) / 672)),  # within-year at (r1, r2)
        And(f1 <= 12, 12 - f1 <= (8760 - r1) / 672),  # within-year at (r1, 8760), F(8760) = 12
        And(0 <= f2, f2 <= r2 / 672),  # within-year at (0, r2), F(0) = 0
    ]
    # n1 <= n2 is lemma year-order (same hypotheses), handed to the solver as a cut
    return [n1 >= 0, n2 >= 0, r1 >= 0, r1 < 8760, r2 >= 0, r2 < 8760, t1 <= t2, n1 <= n2] + inst, And(h1 <= h2, h2 - h1 <= (t2 - t1) / 672)


def lemma_year_order():
    n1, n2 = z3.Ints("n1 n2")
    r1, r2 = z3.Reals("r1 r2")
    t1, t2 = ToReal(n1) * 8760 + r1, ToReal(n2) * 8760 + r2
    return [n1 >= 0, n2 >= 0, r1 >= 0, r1 < 8760, r2 >= 0, r2 < 8760, t1 <= t2], n1 <= n2


def lemma_F_ends():
    return [], And(_F(z3.RealVal(0)) == 0, _F(z3.RealVal(8760)) == 12)


def lemma_h2m_month_ends():
    n = z3.Int("n")
    cases = [Implies(n >= 0, h2m(ToReal(n) * 8760 + CUM[m]) == ToReal(n) * 12 + m) for m in range(0, 13)]
    return [], And(*cases)


LEMMAS = [("hours_to_month-year-decomposition", lemma_h2m_decomposition), ("hours_to_month-within-year", lemma_F_within_year), ("hours_to_month-F-ends", lemma_F_ends), ("hours_to_month-year-order", lemma_year_order), ("hours_to_month-monotone-continuous", lemma_h2m_monotone_lipschitz), ("hours_to_month-month-ends-integer", lemma_h2m_month_ends)]

# ---- row builders ---------------------------------------------------------------------------------------

LoadRow = FixedList([Int, Int, Int, Int, Real])
Design = lambda **ghe: ObjOf("design", ghe=ObjOf("ghedesigner.ground_heat_exchangers:GHE", **ghe))  # noqa: E731


def _load_rows(E, rows, upto):
    if isinstance(upto, int) and upto == 0:
        return True  # no data row yet (the header row is not described by the contract)
    return forall(1, lambda j: Implies(And(j >= 0, j < upto),
                                       And(time_convert_spec(j, (rows[j + 1][0], rows[j + 1][1], rows[j + 1][2])),
                                           rows[j + 1][3] == j, rows[j + 1][4] == E.design.ghe.hourly_extraction_ground_loads[j])),
                  pats=lambda j: [rows[j + 1][3]])


contract(
    f"{OM}.get_hourly_loading_data",
    dict(self=ObjOf(OM), design=Design(hourly_extraction_ground_loads=ListOf(Real))),
    requires=[("one-year", lambda E: E.design.ghe.hourly_extraction_ground_loads.len <= 8760)],
    loops={0: LoopSpec(invariants=[("length", lambda E: E.csv_array.len == E._k0 + 1),
                                   ("rows", lambda E: _load_rows(E, E.csv_array, E._k0))],
                       shapes={"csv_array": ListOf(LoadRow)})},
    ensures=[("length", lambda E: E.result.len == E.design.ghe.hourly_extraction_ground_loads.len + 1),
             ("rows-echo-loads-with-labels", lambda E: _load_rows(E, E.result, E.design.ghe.hourly_extraction_ground_loads.len))],
    returns=ListOf(LoadRow),
)

Point = TupleOf(Real, Real)


def _bore_rows(E, rows, upto):
    bl = E.design.ghe.gFunction.bore_locations
    if isinstance(upto, int) and upto == 0:
        return True
    return forall(1, lambda j: Implies(And(j >= 0, j < upto), And(rows[j + 1][0] == bl[j][0], rows[j + 1][1] == bl[j][1])), pats=lambda j: [rows[j + 1][0]])


contract(
    f"{OM}.get_borehole_location_data",
    dict(design=Design(gFunction=ObjOf("ghedesigner.gfunction:GFunction", bore_locations=ListOf(Point)))),
    loops={0: LoopSpec(invariants=[("length", lambda E: E.csv_array.len == E._k0 + 1),
                                   ("rows", lambda E: _bore_rows(E, E.csv_array, E._k0))],
                       shapes={"csv_array": ListOf(FixedList([Real, Real]))})},
    ensures=[("length", lambda E: E.result.len == E.design.ghe.gFunction.bore_locations.len + 1),
             ("rows-are-the-field", lambda E: _bore_rows(E, E.result, E.design.ghe.gFunction.bore_locations.len))],
    returns=ListOf(FixedList([Real, Real])),
)


# ---- run-time forms ------------------------------------------------------------------------------------
def _calendar(h):
    import datetime

    d = datetime.datetime(2019, 1, 1) + datetime.timedelta(hours=h)
    return d.month, d.day, d.hour + 1


def _tc_check(args):
    from ghedesigner.output import OutputManager

    h = args["hours"]
    got = OutputManager.ghe_time_convert(h)
    want = _calendar(h)
    return tuple(got) == want, {"got": list(got), "want": list(want)}


native(f"{OM}.ghe_time_convert", _tc_check, lambda rng: {"hours": rng.randrange(8760)}, lambda inp: {"hours": int(inp["hours"])},
       bound="random hours of the year against datetime (the thorough tier enumerates all 8760 in props/C19.bounded)")


def _h2m_want(t):
    from fractions import Fraction as F

    t = F(t)
    n = t // 8760
    tp = t - n * 8760
    for m in range(12):
        if tp <= CUM[m + 1]:
            return float(12 * n + m + (tp - CUM[m]) / (CUM[m + 1] - CUM[m]))
    raise AssertionError


def _h2m_check(args):
    from ghedesigner.output import OutputManager

    t = args["hours"]
    got = OutputManager.hours_to_month(t)
    want = _h2m_want(t)
    return abs(got - want) <= 1e-9 * max(1.0, abs(want)), {"got": got, "want": want}


def _h2m_gen(rng):
    r = rng.random()
    if r < 0.3:
        return {"hours": float(rng.randrange(0, 30 * 8760))}
    if r < 0.5:
        y, m = rng.randrange(30), rng.randrange(13)
        return {"hours": float(y * 8760 + CUM[m]) + rng.choice([0.0, 0.25, -0.25 if (y or m) else 0.0])}
    return {"hours": round(rng.uniform(0, 30 * 8760), 2)}


native(f"{OM}.hours_to_month", _h2m_check, _h2m_gen, lambda inp: {"hours": float(inp["hours"])},
       bound="random elapsed times up to 30 years (integers, month ends +-0.25 h, 0.01 h grid) against the exact rational closed form")


class _NS:
    def __init__(self, **kw):
        self.__dict__.update(kw)


def _rows_check(args):
    from ghedesigner.output import OutputManager

    loads = args["loads"]
    coords = [tuple(c) for c in args["coords"]]
    # the design object as the table builders see it; the load analysis of the GHE may belong to a leap year (load_years=[2020]) - the table's labels are the
    # non-leap calendar all the same
    leap = [0, 31, 29, 31, 30, 31, 30, 31, 31, 30, 31, 30, 31]
    design = _NS(ghe=_NS(hourly_extraction_ground_loads=loads, gFunction=_NS(bore_locations=coords), hybrid_load=_NS(days_in_month=leap, years=[2020]), load_years=[2020]),
                 load_years=[2020])
    om = OutputManager.__new__(OutputManager)
    rows = om.get_hourly_loading_data(design)
    if len(rows) != len(loads) + 1:
        return False, {"rows": len(rows)}
    for k, ld in enumerate(loads):
        if rows[k + 1] != [*_calendar(k), k, ld]:
            return False, {"row": k, "got": rows[k + 1]}
    brows = OutputManager.get_borehole_location_data(design)
    if brows[1:] != [[c[0], c[1]] for c in coords] or len(brows) != len(coords) + 1:
        return False, {"bore_rows": brows[:4]}
    return True, {}


def _rows_gen(rng):
    n = rng.choice([0, 1, 25, 745, 8760])
    return {"loads": [round(rng.uniform(-1e5, 1e5), 1) for _ in range(n)], "coords": [(rng.uniform(0, 100), rng.uniform(0, 100)) for _ in range(rng.randint(1, 40))]}


native(f"{OM}.get_hourly_loading_data", _rows_check, _rows_gen, None, bound="random load lists of 0/1/25/745/8760 entries and random fields of 1..40 boreholes; the GHE's load analysis belongs to a leap year")


# ---- get_summary_object (C12) ---------------------------------------------------------------------------------
from pyvc.values import EnumVal  # noqa: E402

B_ = "ghedesigner.borehole_heat_exchangers"
contract(f"{B_}:GHEDesignerBoreholeBase.compute_reynolds", dict(m_flow_pipe=Real, r_in=Real, fluid=ObjOf("fluid", rho=Real, mu=Real)), inline=True)
contract(f"{OM}.get_timestep_str", dict(load_method=Const(EnumVal("TimestepType", "HYBRID", 2))), inline=True)
contract(f"{B_}:SingleUTube.calc_effective_borehole_resistance", dict(self=ObjOf(f"{B_}:SingleUTube")), returns=Real, notes="abstract: pygfunction (A-DET)",
         name=f"{B_}:SingleUTube.calc_effective_borehole_resistance#abstract").applies = lambda env: "g_rb" not in env["self"].fields and "g_rd_kg" not in env["self"].fields
contract("ghedesigner.gfunction:GFunction.g_function_interpolation", dict(self=ObjOf("ghedesigner.gfunction:GFunction"), b_over_h=Real),
         returns=TupleOf(ListOf(Real), Real, Real, Real), notes="abstract here; C11", name="ghedesigner.gfunction:GFunction.g_function_interpolation#abstract").applies = lambda env: "log_time" not in env["self"].fields

SummaryRow = FixedList([OpaqueOf("str"), Real, Real, Real])


def _summary_design():
    fluid = ObjOf("fluid", rho=Real, mu=Real, k=Real, cp=Real, rhoCp=Real, dynamic_viscosity=FnOf(0), fluid=ObjOf("scp", fluid_name=OpaqueOf("str")))
    pipe = ObjOf("pipe", r_out=Real, r_in=Real, s=Real, roughness=Real, k=Real, rhoCp=Real)
    bhe = ObjOf(f"{B_}:SingleUTube", b=ObjOf("borehole", H=Real, r_b=Real, D=Real), pipe=pipe, fluid=fluid, m_flow_borehole=Real,
                grout=ObjOf("grout", k=Real, rhoCp=Real), soil=ObjOf("soil", k=Real, rhoCp=Real, ugt=Real), h_f=Real)
    gf = ObjOf("ghedesigner.gfunction:GFunction", g_lts=OpaqueOf("dict"), log_time=ListOf(Real), bore_locations=ListOf(Point, minlen=1))
    sim = ObjOf("sim", start_month=Int, end_month=Int, max_EFT_allowable=Real, min_EFT_allowable=Real, max_height=Real, min_height=Real)
    hl = ObjOf("hybrid", monthly_cl=ListOf(Real, minlen=1), monthly_hl=ListOf(Real), monthly_peak_hl=ListOf(Real), monthly_peak_hl_duration=ListOf(Real),
               monthly_peak_cl=ListOf(Real), monthly_peak_cl_duration=ListOf(Real))
    ghe = ObjOf("ghedesigner.ground_heat_exchangers:GHE", gFunction=gf, bhe=bhe, B_spacing=Real, fieldType=OpaqueOf("str"), fieldSpecifier=OpaqueOf("str"),
                sim_params=sim, hybrid_load=hl, times=ListOf(Real, np=True), dTb=ListOf(Real), hp_eft=ListOf(Real, minlen=1))
    return ObjOf("search", ghe=ghe, searchTracker=ListOf(SummaryRow))


def _is_max(lst, v):
    return And(exists(1, lambda j: And(0 <= j, j < lst.len, lst[j] == v)), forall(1, lambda j: Implies(And(0 <= j, j < lst.len), lst[j] <= v)))


def _is_min(lst, v):
    return And(exists(1, lambda j: And(0 <= j, j < lst.len, lst[j] == v)), forall(1, lambda j: Implies(And(0 <= j, j < lst.len), lst[j] >= v)))


_abs = LoopSpec(abstract=True, shapes={"g_function_col_titles": ListOf(OpaqueOf("str")), "g_function_data": ListOf(ListOf(Real)), "gf_row": ListOf(Real),
                                         "monthly_load_values": ListOf(ListOf(Real)), "out_array": ListOf(ListOf(Real)), "month_tb_vals": ListOf(Real),
                                         "month_eft_vals": ListOf(Real)})

contract(
    f"{OM}.get_summary_object",
    dict(self=ObjOf(OM), design=_summary_design(), time=Real, project_name=OpaqueOf("str"), notes=OpaqueOf("str"), author=OpaqueOf("str"),
         model_name=OpaqueOf("str"), load_method=Const(EnumVal("TimestepType", "HYBRID", 2))),
    requires=[("equal-lengths", lambda E: And(E.design.ghe.times.len == E.design.ghe.hp_eft.len, E.design.ghe.dTb.len == E.design.ghe.hp_eft.len)),
              ("positive-height", lambda E: E.design.ghe.bhe.b.H > 0),
              ("valid-fluid-and-pipe", lambda E: And(E.design.ghe.bhe.fluid.rho > 0, E.design.ghe.bhe.fluid.mu > 0, E.design.ghe.bhe.pipe.r_in > 0)),
              ("times-non-negative", lambda E: forall(1, lambda j: Implies(And(0 <= j, j < E.design.ghe.times.len), E.design.ghe.times[j] >= 0)))],
    loops={k: _abs for k in range(5)},
    ensures=[
        ("number-of-boreholes-is-the-field-size", lambda E: E.result["ghe_system"]["number_of_boreholes"] == E.design.ghe.gFunction.bore_locations.len),
        ("total-drilling-is-count-times-height", lambda E: E.result["ghe_system"]["total_drilling"]["value"] == E.design.ghe.bhe.b.H * ToReal(E.design.ghe.gFunction.bore_locations.len)),
        ("active-length-is-the-height", lambda E: E.result["ghe_system"]["active_borehole_length"]["value"] == E.design.ghe.bhe.b.H),
        ("max-eft-is-the-maximum-of-the-stored-temperatures", lambda E: _is_max(E.design.ghe.hp_eft, E.result["simulation_results"]["max_hp_eft"]["value"])),
        ("min-eft-is-the-minimum-of-the-stored-temperatures", lambda E: _is_min(E.design.ghe.hp_eft, E.result["simulation_results"]["min_hp_eft"]["value"])),
        ("search-log-is-the-search-tracker", lambda E: And(E.result["design_selection_search_log"]["data"].len == E.design.searchTracker.len,
                                                           forall(1, lambda j: Implies(And(0 <= j, j < E.design.searchTracker.len),
                                                                                       And(*[E.result["design_selection_search_log"]["data"][j][c] == E.design.searchTracker[j][c] for c in (1, 2, 3)]))))),
    ],
    returns=OpaqueOf("dict"),
)
