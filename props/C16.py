"""C16 - point-in-polygon classification is exact."""
from contracts import shape

FUNCTIONS = ["ghedesigner.shape:point_polygon_check"]
LEVEL = "proof"


def lemmas():
    return shape.LEMMAS


ASSUMPTIONS = [
    "A-REAL: machine floats treated as mathematical reals (discontinuity sites listed per function)",
    "spec: 'on-edge' is the tool's documented criterion |d(v1,p)+d(v2,p)-d(v1,v2)| < tol, or the point lying exactly on an edge",
]
EXPLANATION = ("point_polygon_check is verified against the crossing-number definition for every closed polyline of any length: "
               "loop invariants (no on-edge edge so far / parity of crossings so far), postconditions on-edge-iff and crossing-parity; "
               "lemma cross-product-form ties the cross-product sign test to x_edge(py) > px over the reals (QF_NRA). "
               "The lattice enumeration of the quantifier text runs as the bounded run-time contract check of the same spec.")
NATIVE_CASES = {"quick": 400, "thorough": 20000}
LEVEL_TEXT = ("Deductive proof, for closed polylines of every length and all real coordinates, that point_polygon_check returns 0 exactly when some "
              "edge satisfies the documented on-edge criterion (or the point lies exactly on an edge) and otherwise +1/-1 by the parity of the "
              "crossing-number definition; all loop iterations covered by invariants, no unrolling. Orientation/start-vertex independence follows "
              "from the definition being a parity over the edge set; it is additionally exercised by the bounded run-time contract check.")
LEVEL_NOTE = ("Trusted: pyvc's encoding of the Python subset; floats as reals (A-REAL); z3. sqrt is uninterpreted (no sqrt fact is needed). "
              "The lattice/real-valued enumeration with the exact rational oracle is a bounded run-time check, not counted as proved.")
TECHNIQUE = "contract-based deductive verification: ast->VC generator (pyvc) with loop invariants, z3/cvc5 back ends, native replay"
