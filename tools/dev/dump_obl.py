import sys, importlib
sys.path.insert(0,'/verif')
from pyvc.api import REG
from pyvc.engine import Exec
from pyvc.program import Program
[importlib.import_module('contracts.'+m) for m in __import__('contracts').MODULES]
ex = Exec(Program(__import__('os').environ.get('VERIF_REPO','/repo')), REG)
obls = ex.verify(sys.argv[1])
for o in obls:
    if sys.argv[2] in o.name:
        print('GOAL', o.goal)
        for a in o.assumptions[-int(sys.argv[3]):]: print('ASSUME', str(a)[:1500]); print()
        break
