#!/usr/bin/env python3
"""Assemble DESIGN.md: docs/design_head.md + generated sections (5, 7.1, 7.2, 10) + docs/design_*.md (run with ./.venv/bin/python tools/mkdesign.py)."""
import glob
import importlib
import json
import os
import sys
import textwrap

VERIF = os.path.dirname(os.path.dirname(os.path.abspath(__file__)))
sys.path.insert(0, VERIF)
import contracts  # noqa: E402

for m in contracts.MODULES:
    importlib.import_module(f"contracts.{m}")
from pyvc.run import NATIVES  # noqa: E402

props = {json.loads(l)["id"]: json.loads(l) for l in open(os.path.join(VERIF, "properties.jsonl"))}


def wrap(s, indent=""):
    return "\n".join(textwrap.fill(p, 100, initial_indent=indent, subsequent_indent=indent) for p in s.split("\n"))


def section5():
    out = ["## 5. Per-property: functions under contract, what is proved, what is bounded, what is assumed", "",
           "Generated from `props/Cxx.py` (the same texts go into the evidence files). *Level* is the level claimed in MANIFEST.json: `proof` only where every clause of the "
           "statement is covered by discharged obligations (relative to the listed assumptions); `other` where at least one clause rests on a bounded run-time contract.", ""]
    for pid in sorted(props):
        path = os.path.join(VERIF, "props", f"{pid}.py")
        out.append(f"### {pid} — {props[pid]['title']}")
        out.append("")
        if not os.path.exists(path):
            out.append("Not claimed (see MANIFEST.not_applicable).")
            out.append("")
            continue
        m = importlib.import_module(f"props.{pid}")
        ev = None
        try:
            ev = json.load(open(os.path.join(VERIF, "evidence", f"{pid}.json")))
        except Exception:
            pass
        out.append(f"*Level:* `{m.LEVEL}`." + (f" Quick tier on the unchanged tree: {ev['coverage']['obligations']} obligations, {ev['coverage']['discharged']} discharged, "
                                                f"{ev['coverage']['obligation_instances']} path instances, solver {ev['coverage']['solver_s']} s." if ev else ""))
        out.append("")
        fns = list(m.FUNCTIONS)
        out.append(wrap("*Functions under a discharged contract (" + str(len(fns)) + "):* " + ", ".join(f"`{q.split(':', 1)[1]}`" for q in fns) + "."))
        out.append("")
        nats = [q for q in getattr(m, "NATIVE_FUNCTIONS", fns) if q in NATIVES and NATIVES[q].gen is not None]
        if nats:
            out.append("*Bounded run-time contracts (never counted as proved):*")
            for q in nats:
                out.append(wrap(f"`{q.split(':', 1)[1]}` — {NATIVES[q].bound}", "  - ")[0:] if False else "  - " + wrap(f"`{q.split(':', 1)[1]}` — {NATIVES[q].bound}", "    ").lstrip())
            out.append("")
        out.append(wrap("*Proved:* " + m.EXPLANATION))
        out.append("")
        if getattr(m, "NOT_PROVED", None):
            out.append("*Not proved (bounded or assumed):*")
            for t in m.NOT_PROVED:
                out.append("  - " + wrap(t, "    ").lstrip())
            out.append("")
        out.append("*Assumptions:*")
        for t in m.ASSUMPTIONS:
            out.append("  - " + wrap(t, "    ").lstrip())
        out.append("")
    return "\n".join(out)


def section7():
    fixed, open_ = [], []
    for line in open(os.path.join(VERIF, "KNOWN_FINDINGS.jsonl")):
        line = line.strip()
        if line.startswith("fixed:"):
            fixed.append(line[len("fixed:"):].strip())
        elif line.startswith("{"):
            open_.append(json.loads(line))
    out = ["### 7.1 Repaired defects (one unguarded `fix:` commit each in /repo; recorded as `fixed:` lines in KNOWN_FINDINGS.jsonl)", ""]
    for f in fixed:
        pid, commit, what = f.split(" ", 2)
        out.append("  - " + wrap(f"**{pid.split('=')[1]}** `{commit}` — {what}", "    ").lstrip())
    out += ["", "### 7.2 Recorded findings (not repaired; the checks print `KNOWN-FINDING:` for them and exit 0, any other violation of the same property is still reported)", ""]
    for k in open_:
        out.append("  - " + wrap(f"**{k['property']}** (matched by {k['match']}) — {k['what']}", "    ").lstrip())
    out.append("")
    return "\n".join(out)


def section10():
    rows = []
    for d in sorted(glob.glob(os.path.join(VERIF, "seeded", "*", "meta.json"))):
        sid = os.path.basename(os.path.dirname(d))
        m = json.load(open(d))
        c = m.get("confirmed_by_builder") or {}
        files = ", ".join(os.path.basename(f) for f in m.get("files_changed", []))
        summ = " ".join(str(m.get("summary", "")).split())
        if len(summ) > 330:
            summ = summ[:327] + "..."
        import re

        def obl(v):
            mm = re.search(r"obligation=(\S+)", v)
            return mm.group(1) if mm else (v.split(" ", 1)[1] if " " in v else v)

        caught = "; ".join(sorted({obl(v) for v in c.get("violations", [])})[:4]) or ("(not caught)" if not c.get("caught") else "")
        note = c.get("note", "")
        rows.append((sid, files, summ, caught, note))
    out = ["## 10. Seeded changes: which checks catch which changes", "",
           "Three rounds (ids `_a/_b`, `_c/_d`, `_e/_f`). Each change was written by a fresh agent that was given only the property's text and its own git worktree (nothing from /verif), had to keep the existing test suite green, "
           "and supplied a demo that fails only with the change. `seeded/<id>/` holds `patch.diff`, `demo.py`, `meta.json` and the output of the run "
           "(`tools/seeded_run.sh <id> <properties>` applies the patch to /repo, runs the demo and the checks, undoes it). *Caught by* lists the violated obligations "
           "(`…/runtime-contract` = a bounded run-time contract found a concrete failing input; everything else is a named deductive obligation). "
           f"{sum(1 for r in rows if r[3] != '(not caught)')} of {len(rows)} are caught at the current commit; the *first run* column says what had to be strengthened.", ""]
    for sid, files, summ, caught, note in rows:
        out.append(f"  - **{sid}** ({files}): " + wrap(summ, "    ").lstrip())
        out.append("    " + wrap("*Caught by:* " + caught, "    ").lstrip())
        if note:
            out.append("    " + wrap("*First run:* " + note, "    ").lstrip())
    out.append("")
    return "\n".join(out)


parts = [open(os.path.join(VERIF, "docs", "design_head.md")).read(), section5(), "---------------------------------------------------------------------------------------------\n",
         open(os.path.join(VERIF, "docs", "design_6.md")).read(), "## 7. Defects found\n", section7(), open(os.path.join(VERIF, "docs", "design_7_observations.md")).read(),
         open(os.path.join(VERIF, "docs", "design_8_9.md")).read(), section10()]
open(os.path.join(VERIF, "DESIGN.md"), "w").write("\n".join(parts))
print("DESIGN.md written:", sum(p.count("\n") for p in parts), "lines")
