"""C12 - reported results are self-consistent and describe the returned design."""
from props.common import *  # noqa: F401,F403

OM = "ghedesigner.output:OutputManager"
FUNCTIONS = [f"{G}:GHE.size", f"{G}:GHE.size#hourly", f"{U}:solve_root", f"{G}:BaseGHE.cost", f"{S}:Bisection1D.calculate_excess", f"{S}:RowWiseModifiedBisectionSearch.calculate_excess", f"{S}:RowWiseModifiedBisectionSearch.search#without-perimeter-ratio", f"{S}:RowWiseModifiedBisectionSearch.search#with-perimeter-ratio",
             f"{S}:Bisection1D.search#nocap", f"{S}:Bisection1D.search#cap", f"{S}:BisectionZD.search_successive#nocap", f"{S}:BisectionZD.search_successive#cap",
             f"{OM}.get_summary_object", f"{OM}.get_borehole_location_data"]
NATIVE_FUNCTIONS = [f"{G}:GHE.size", f"{G}:GHE.size#hourly"]
NATIVE_CASES_BY_FUNCTION = {f"{G}:GHE.size#hourly": {"quick": 6, "thorough": 200}}
NATIVE_CASES = {"quick": 6, "thorough": 150}
NATIVE_LIMIT_S = {"quick": 150, "thorough": 1500}
CASE_TIMEOUT = 120
LEVEL = "proof"
ASSUMPTIONS = [A_REAL, A_ENGINE, A_DET,
               "A-BRENT (last evaluation of brentq within 4*(xtol+rtol*|r|) of the returned root)",
               "ghost g_Hsim: GHE.simulate leaves the temperatures of the height it was called at (caller view of simulate; its body is verified against the superposition formula in C09)",
               "get_summary_object: the five table-building loops are abstracted (write sets havocked, bodies not verified) - the clauses proved do not depend on them",
               "RowWise calculate_excess is a textual twin of Bisection1D.calculate_excess (not separately verified)"]
NOT_PROVED = ["'within the sizing tolerance' in Kelvin needs A-LIP; the contract states it in metres of height (|H_sim - H| <= 4*(1e-6+1e-6*H))",
              "that bore_locations of the final GHE equal the selected coordinates is carried by the constructor frames (GFunction stores the coordinates it is given: A-DET/abstract)"]
EXPLANATION = ("GHE.size: ghost g_Hsim (height of the last simulate) ends within the root tolerance of the returned height in every arm of solve_root - this obligation failed on the "
               "pinned tree in the clamped-at-minimum arm (defect D7, fixed by re-simulating). calculate_excess appends one row [spec, t, max, min] with t = cost(max, min) and "
               "search()/search_successive() preserve 'every row satisfies excess = max(maxEFT - Tmax, Tmin - minEFT)'. get_summary_object: number_of_boreholes == len(bore_locations), "
               "total_drilling == H * count, active length == H, max/min EFT are the max/min of the stored hp_eft, the search log is the tracker; get_borehole_location_data rows == field.")
LEVEL_TEXT = ("Deductive proof of the summary identities and of the search-log row relation for all designs and all outcomes (bracketed, clamped at either bound, unmet-but-continued), "
              "and that the temperatures left on the GHE object are those of the returned height up to the root-solver tolerance. End-to-end runs of the real manager are a bounded cross-check.")
LEVEL_NOTE = "Trusted: pyvc, z3, A-REAL, brentq model, abstracted table loops of get_summary_object, constructor frames."
