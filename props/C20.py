"""C20 - per-borehole and system flow specifications are equivalent."""
from contracts import ctors, fields, flow  # noqa: F401
from props.common import *  # noqa: F401,F403

B = "ghedesigner.borehole_heat_exchangers"
FUNCTIONS = [f"{S}:Bisection1D.retrieve_flow", f"{S}:RowWiseModifiedBisectionSearch.retrieve_flow", f"{S}:Bisection1D.initialize_ghe",
             f"{S}:RowWiseModifiedBisectionSearch.initialize_ghe#body", f"{G}:BaseGHE.__init__#body", f"{B}:get_bhe_object",
             f"{B}:GHEDesignerBoreholeBase.__init__", f"{D}:DesignBase.__init__#body", f"{D}:DesignRowWise.__init__#body",
             f"{D}:DesignNearSquare.__init__#body", f"{D}:DesignRectangle.__init__#body"] + ctors.DESIGN_CTORS + ctors.FIND_DESIGN_FLOW + flow.SET_DESIGN
NATIVE_FUNCTIONS = [f"{S}:Bisection1D.retrieve_flow", f"{S}:Bisection1D.initialize_ghe"]
NATIVE_CASES = {"quick": 12, "thorough": 400}
LEVEL = "proof"


def lemmas():
    return flow.LEMMAS


ASSUMPTIONS = [A_REAL, A_ENGINE, A_DET,
               "exchanger constructors (SingleUTube/MultipleUTube/CoaxialPipe.__init__) store the mass flow they are given (their bodies call pygfunction; GHEDesignerBoreholeBase.__init__ is verified)",
               "equal per-borehole mass flow => equal borehole resistance, g-function and temperatures: by A-DET (same arguments to the same deterministic library calls); cross-checked at run time on real GHE objects",
               "Bisection2D/BisectionZD inherit retrieve_flow and initialize_ghe from Bisection1D (resolved through the class hierarchy by the engine), so all five search classes are covered by the two verified pairs"]
EXPLANATION = ("retrieve_flow (both classes): BOREHOLE -> (V*N, V/1000*rho), SYSTEM -> (V, V/N/1000*rho), anything else raises ValueError; initialize_ghe (both classes) forwards the "
               "retrieve_flow values to the g-function computation and to the GHE constructor; BaseGHE.__init__ recomputes v_sys/N/1000*rho and hands it unchanged to get_bhe_object. "
               "All six design-class constructors hand the flow rate and flow type they were given to DesignBase.__init__, which stores them (bodies verified; domain generators abstract). "
               "Every Design*.find_design builds its search object with the design's own flow rate and flow type, and RowWiseModifiedBisectionSearch.__init__ stores them "
               "(Bisection1D/2D/ZD.__init__ carry the same clause on their bodies, verified in C01/C05). "
               "Lemmas over these contracts: the two specifications give identical flows at both places; with a system flow, flow x N is constant along the candidate list.")
LEVEL_TEXT = ("Deductive proof for all flows, densities and borehole counts >= 1 that both flow specifications reach the g-function and the exchanger with the same per-borehole mass flow "
              "V/1000*rho, and that a system flow splits as 1/N; equality of resistance/temperatures then follows from determinism (A-DET) and is cross-checked on real objects (bounded).")
LEVEL_NOTE = "Trusted: pyvc, z3, A-REAL (V*N/N == V is exact over the reals; in doubles it may differ by an ulp - the run-time check allows 4 ulp), A-DET, constructor frames."
