"""Models of Python builtins and of the library functions the verified code calls.

Every model here is an *assumed contract* on code outside the repository (the trusted base); the
names of the models actually used by a run are collected in Exec.used_models and reported in the
evidence.
"""
from __future__ import annotations

import ast
from fractions import Fraction

import z3

from .values import (
    Builtin,
    ClassRef,
    Closure,
    EnumVal,
    FuncRef,
    Inf,
    IntMap,
    ModuleRef,
    Opaque,
    PyDict,
    PyList,
    PyObj,
    Seq,
    UFun,
    Unsupported,
    VCError,
    is_conc_num,
    is_int_valued,
    is_num,
    is_real_valued,
    is_scalar,
    is_z3,
    ite_val,
    select_conc,
    to_bool,
    to_real,
    to_z3,
    uid,
)

BUILTINS = {
    "len", "range", "enumerate", "zip", "sorted", "max", "min", "sum", "abs", "int", "float", "list", "tuple",
    "isinstance", "print", "str", "bool", "map", "round", "dict", "reversed", "super", "all", "any", "hasattr", "open", "type",
}

FIELD_SLICE = z3.Function("FIELD_SLICE", z3.IntSort(), z3.IntSort(), z3.IntSort(), z3.IntSort())
# uninterpreted real functions with a few axioms, instantiated on demand
LOG = z3.Function("LOG", z3.RealSort(), z3.RealSort())
EXP = z3.Function("EXP", z3.RealSort(), z3.RealSort())
SIN = z3.Function("SIN", z3.RealSort(), z3.RealSort())
COS = z3.Function("COS", z3.RealSort(), z3.RealSort())
ATAN = z3.Function("ATAN", z3.RealSort(), z3.RealSort())
SQRT = z3.Function("SQRT", z3.RealSort(), z3.RealSort())


def used(ex, name):
    ex.used_models.add(name)


# --------------------------------------------------------------------------------------------
# names from library modules


def lib_name(ex, src, orig):
    if src in ("math", "numpy"):
        if orig == "pi":
            from .engine import PI

            used(ex, "math.pi (3.14159265358 < PI < 3.14159265359)")
            return PI
        return Builtin(f"{src}.{orig}")
    if src in ("numpy", "scipy.optimize", "scipy.interpolate", "scipy.linalg.lapack", "json", "pathlib", "typing", "enum", "warnings", "calendar", "copy"):
        return Builtin(f"{src}.{orig}")
    if src.startswith("pygfunction"):
        return Builtin(f"{src}.{orig}")
    return Builtin(f"{src}.{orig}")


def module_attr(ex, m: ModuleRef, attr, mod):
    if ex.prog.has_module(m.name):
        return ex._global_name(attr, ex.prog.module(m.name), None)
    name = m.name
    if name == "numpy" and attr == "pi":
        return lib_name(ex, "math", "pi")
    return Builtin(f"{name}.{attr}")


# --------------------------------------------------------------------------------------------
# builtins


def call_builtin(ex, st, name, args, kwargs, node, mod):
    if name in ("datetime.datetime.now", "datetime.now"):
        return Opaque("datetime", {})
    if name in ("copy.deepcopy", "copy.copy") and len(args) == 1:
        # a structurally equal object graph that shares nothing mutable with the original (deepcopy; copy of a flat record behaves the same for its own fields)
        from .engine import _clone

        used(ex, f"{name}: fresh object graph equal to the argument")
        return _clone(args[0], {})
    if name == "pathlib.Path":
        a0 = args[0] if args else None
        return a0 if isinstance(a0, Opaque) and a0.kind == "path" else Opaque("path", {"id": z3.Int(uid("path"))})
    if name == "open":
        return Opaque("file", {})
    if name in ("json.dumps",):
        # the serialised text is opaque; the object it serialises is kept as ghost attribute `json_of`
        return Opaque("str", {"json_of": args[0]} if args else {})
    if name == "logging.getLogger":
        return Opaque("logger", {})
    if name in ("json.loads",):
        # a contract may name the content of the file it reads as ghost parameter `_file_json`
        if "_file_json" in st.env:
            return st.env["_file_json"]
        return Opaque("json", {})
    if name == "jsonschema.validate":
        # external: raises ValidationError exactly when the instance does not satisfy the schema.  The verdict is a ghost Bool of this activation
        # (`_schema_accepts`), so that a contract can say "returns 0 exactly when jsonschema accepts"
        used(ex, "jsonschema.validate(instance, schema): raises ValidationError exactly when the instance does not satisfy the schema (ghost verdict _schema_accepts)")
        ok = z3.Bool(uid("schema_accepts"))
        st.env["_schema_accepts"] = ok
        cs = st.clone()
        cs.pc.append(z3.Not(ok))
        st.forks.append(("raise", cs, "ValidationError"))
        st.pc.append(ok)
        return None
    if name in ("sys.exit", "exit"):
        # process exit: a SystemExit carrying the status (A-CLICK: in standalone mode click turns it into the process exit status)
        st.env["_exit_status"] = args[0] if args else 0
        cs = st.clone()
        st.forks.append(("raise", cs, "SystemExit"))
        st.dead = True  # the normal continuation does not exist
        return None
    fn = _TABLE.get(name)
    if fn is None:
        raise Unsupported(f"library function {name} has no model (line {getattr(node, 'lineno', '?')})")
    return fn(ex, st, args, kwargs, node)


def b_len(ex, st, args, kwargs, node):
    (v,) = args
    if isinstance(v, PyList):
        return v.length()
    if isinstance(v, tuple):
        return len(v)
    if isinstance(v, Seq):
        return v.length
    if isinstance(v, PyDict):
        return len(v.d)
    if isinstance(v, IntMap):
        return v.n
    if isinstance(v, str):
        return len(v)
    if isinstance(v, Opaque) and "len" in v.attrs:
        return v.attrs["len"]
    if v is None:
        ex.safety(st, "len-none", False, node)
        return 0
    if isinstance(v, ClassRef):
        members, _ = ex.enum_members(v)
        if members is not None:
            return len(members)
    raise Unsupported(f"len of {type(v).__name__}")


def b_range(ex, st, args, kwargs, node):
    if len(args) == 1:
        a, b, s = 0, args[0], 1
    elif len(args) == 2:
        a, b = args
        s = 1
    else:
        a, b, s = args
    if not isinstance(s, int) or s <= 0:
        raise Unsupported("range step must be a positive concrete int")
    if isinstance(a, int) and isinstance(b, int):
        r = range(a, b, s)
        return Seq(len(r), lambda i, a=a, s=s: a + i * s, tag=("range", a, b, s))
    za, zb = to_z3(a), to_z3(b)
    if z3.is_real(za) or z3.is_real(zb):
        ex.safety(st, "range-float", False, node)
    if s == 1:
        n = z3.If(zb > za, zb - za, z3.IntVal(0))
    else:
        n = z3.If(zb > za, (zb - za + (s - 1)) / s, z3.IntVal(0))
    return Seq(n, lambda i, za=za, s=s: za + to_z3(i) * s if s != 1 else za + to_z3(i), tag=("range", a, b, s))


def b_enumerate(ex, st, args, kwargs, node):
    s = ex.iter_seq(args[0], st, node)
    start = args[1] if len(args) > 1 else kwargs.get("start", 0)
    return Seq(s.length, lambda i: ((i + start) if not (isinstance(i, int) and isinstance(start, int)) else i + start, s.get(i)), tag=("enumerate",))


def _min_len(lens):
    if all(isinstance(n, int) for n in lens):
        return min(lens)
    out = to_z3(lens[0])
    for n in lens[1:]:
        nz = to_z3(n)
        out = z3.If(nz < out, nz, out)
    return z3.simplify(out)


def b_zip(ex, st, args, kwargs, node):
    seqs = [ex.iter_seq(a, st, node) for a in args]
    if not seqs:
        return Seq(0, lambda i: ())
    n = _min_len([s.length for s in seqs])
    return Seq(n, lambda i: tuple(s.get(i) for s in seqs), tag=("zip", seqs))


def zip_star(ex, st, sq, node):
    """zip(*L) for a symbolic-length list L of k-tuples: the k column sequences (transposition)."""
    e0 = sq.get(z3.IntVal(0))
    if not isinstance(e0, tuple):
        raise Unsupported("zip(*x) over non-tuple elements")
    k = len(e0)
    used(ex, "zip(*L): transposition of a list of tuples into its columns (non-empty L is a safety obligation)")
    ex.safety(st, "zip-star-empty", to_z3(sq.length) > 0, node)
    cols = [Seq(sq.length, (lambda i, c=c: sq.get(i)[c]), tag=("column", sq, c)) for c in range(k)]
    return Seq(k, lambda i: cols[i])


def b_list(ex, st, args, kwargs, node):
    if not args:
        return PyList([])
    v = args[0]
    s = ex.iter_seq(v, st, node)
    if isinstance(s.length, int):
        return PyList([s.get(k) for k in range(s.length)])
    if isinstance(v, IntMap):
        add_intmap_axioms(ex, st, v)
    return PyList(Seq(s.length, s.get, tag=s.tag))


def b_tuple(ex, st, args, kwargs, node):
    if not args:
        return ()
    s = ex.iter_seq(args[0], st, node)
    if isinstance(s.length, int):
        return tuple(s.get(k) for k in range(s.length))
    # symbolic length: the value domain has no symbolic tuples; an (unaliased) list with the same elements stands in for it
    return PyList(Seq(s.length, s.get, tag=getattr(s, "tag", None)))


def _maxmin(ex, st, items, is_max, node):
    out = items[0]
    for x in items[1:]:
        if isinstance(x, Inf) or isinstance(out, Inf):
            from .engine import _cmp_inf

            c = _cmp_inf(ast.Gt() if is_max else ast.Lt(), x, out)
        else:
            c = ex.compare(ast.Gt() if is_max else ast.Lt(), x, out, st, node)
        out = ite_val(c, x, out)
    return out


def b_max(ex, st, args, kwargs, node, is_max=True):
    keyf = kwargs.get("key")
    if len(args) >= 2:
        if keyf is not None:
            raise Unsupported("max/min of several arguments with key")
        return _maxmin(ex, st, list(args), is_max, node)
    v = args[0]
    s = ex.iter_seq(v, st, node)
    n = s.length
    if isinstance(n, int) and keyf is None and n <= LONG:
        if n == 0:
            ex.safety(st, "max-empty", False, node)
            return 0
        return _maxmin(ex, st, [s.get(k) for k in range(n)], is_max, node)
    # symbolic length (or key=): result is an element and its key bounds every element's key (first such element)
    used(ex, "builtin max/min over a list (optionally with key=): result is an element whose key bounds every element's key; ValueError on empty")
    ex.safety(st, "max-empty", to_z3(n) > 0, node)
    e0 = s.get(z3.IntVal(0))
    if not is_scalar(e0):
        raise Unsupported("max of non-scalar symbolic list")
    r = z3.Const(uid("max" if is_max else "min"), to_z3(e0).sort())
    w = z3.Int(uid("argmax" if is_max else "argmin"))
    j = z3.Int(uid("j"))
    ej = to_z3(s.get(j))
    st.pc.append(z3.And(w >= 0, w < to_z3(n), to_z3(s.get(w)) == r))
    ex.const_cache.setdefault(("witness", r.get_id()), []).append((s, w))

    def keyof(x, quiet):
        if keyf is None:
            return x
        if quiet:
            ex.quiet += 1
        try:
            return ex.call(keyf, [x], {}, st, None, node)
        finally:
            if quiet:
                ex.quiet -= 1

    if keyf is not None:
        # obligations inside the key function: once, for an arbitrary element
        ii = z3.Int(uid("ki"))
        pc0 = len(st.pc)
        st.pc.append(z3.And(ii >= 0, ii < to_z3(n)))
        keyof(s.get(ii), False)
        del st.pc[pc0:]
    if s.tag and s.tag[0] == "slice" and keyf is None:
        # state the bound over the indices of the underlying sequence (a usable trigger: base[g], no arithmetic inside)
        base, off = s.tag[1], to_z3(s.tag[2])
        eg = to_z3(base.get(j))
        cmpz = ex.compare(ast.LtE() if is_max else ast.GtE(), eg, r, st, node)
        st.pc.append(_forall_pats([j], z3.Implies(z3.And(j >= off, j < off + to_z3(n)), cmpz), [[eg]]))
        return r
    kr, kj = keyof(r, True), keyof(s.get(j), True)
    cmpz = ex.compare(ast.LtE() if is_max else ast.GtE(), kj, kr, st, node)
    cmpz = z3.BoolVal(cmpz) if isinstance(cmpz, bool) else cmpz
    st.pc.append(_forall_pats([j], z3.Implies(z3.And(j >= 0, j < to_z3(n)), cmpz), [[ej]]))
    return r


def b_min(ex, st, args, kwargs, node):
    return b_max(ex, st, args, kwargs, node, is_max=False)


LONG = 64  # concrete-length sequences longer than this are handled by the quantified models, not unrolled
SUMF_COUNTER = [0]


def b_sum(ex, st, args, kwargs, node):
    s = ex.iter_seq(args[0], st, node)
    n = s.length
    start = args[1] if len(args) > 1 else 0
    if isinstance(n, int) and n <= LONG:
        out = start
        for k in range(n):
            out = ex.binop(ast.Add(), out, s.get(k), st, node)
        return out
    return ex.binop(ast.Add(), start, seq_sum(ex, st, s, 0, n), st, node)


def seq_sum(ex, st, s, lo, hi):
    """Sum_{lo<=k<hi} s[k] as a prefix-sum spec function with its unfold axiom."""
    used(ex, "sum/dot over a symbolic range: prefix-sum function with PS(0)=0, PS(k+1)=PS(k)+a[k]")
    if s.tag and s.tag[0] == "slice":
        base, off = s.tag[1], s.tag[2]
        return seq_sum(ex, st, base, to_z3(off) + to_z3(lo), to_z3(off) + to_z3(hi))
    key = ("prefix", id(s))
    if key in ex.const_cache:
        ps = ex.const_cache[key][0]
    else:
        ps = z3.Function(uid("PS"), z3.IntSort(), z3.RealSort())
        ex.const_cache[key] = (ps, s)
        k = z3.Int(uid("k"))
        ek = to_real(s.get(k))
        st.pc.append(ps(z3.IntVal(0)) == 0)
        st.pc.append(z3.ForAll([k], z3.Implies(k >= 0, ps(k + 1) == ps(k) + ek), patterns=[ps(k + 1)]))
        # extensionality with the sum functions a contract declares (theorem by induction on m, stated once as an axiom):
        # if the summands agree below m, the prefix sums agree at m
        c = ex.fn_stack[0][1] if ex.fn_stack else None
        for (P, term) in (c.options.get("sum_specs", []) if c is not None else []):
            a, m, j = z3.Int(uid("a")), z3.Int(uid("m")), z3.Int(uid("j"))
            used(ex, "extensionality of finite sums (induction on the upper bound): pointwise equal summands give equal prefix sums")
            agree = z3.ForAll([j], z3.Implies(z3.And(j >= 0, j < m), to_real(s.get(j)) == term(a, j)))
            st.pc.append(z3.ForAll([a, m], z3.Implies(z3.And(m >= 0, agree), ps(m) == P(a, m)), patterns=[z3.MultiPattern(ps(m), P(a, m))]))
    return ps(to_z3(hi)) - ps(to_z3(lo))


def b_abs(ex, st, args, kwargs, node):
    (v,) = args
    if isinstance(v, PyList) and v.np:
        return np_map(ex, v, lambda x: b_abs(ex, st, [x], {}, node))
    if is_conc_num(v) or isinstance(v, bool):
        return abs(v)
    z = to_z3(v)
    return z3.If(z >= 0, z, -z)


def b_int(ex, st, args, kwargs, node):
    (v,) = args
    if isinstance(v, bool):
        return int(v)
    if isinstance(v, int):
        return v
    if isinstance(v, Fraction):
        return int(v)
    if isinstance(v, EnumVal):
        raise Unsupported("int(enum)")
    z = to_z3(v)
    if z3.is_bool(z):
        return z3.If(z, z3.IntVal(1), z3.IntVal(0))
    if z3.is_int(z):
        return z
    ex.discont.append((ex.fn_stack[0][0], getattr(node, "lineno", 0), "int() of a real"))
    return z3.If(z >= 0, z3.ToInt(z), -z3.ToInt(-z))


def b_float(ex, st, args, kwargs, node):
    (v,) = args
    if isinstance(v, str):
        if v in ("inf", "+inf"):
            return Inf(1)
        if v == "-inf":
            return Inf(-1)
        return Fraction(v)
    if isinstance(v, (int, Fraction)) and not isinstance(v, bool):
        return Fraction(v)
    return to_real(v)


def b_round(ex, st, args, kwargs, node):
    """round(x) for a real x: nearest integer, ties to even (Python 3)"""
    if len(args) != 1:
        raise Unsupported("round with ndigits")
    v = args[0]
    if isinstance(v, int):
        return v
    if isinstance(v, Fraction):
        return round(v)
    z = to_real(v)
    ex.discont.append((ex.fn_stack[0][0], getattr(node, "lineno", 0), "round() of a real"))
    f = z3.ToInt(z + z3.RealVal("1/2"))
    tie = z3.ToReal(f) == z + z3.RealVal("1/2")
    return z3.If(z3.And(tie, f % 2 != 0), f - 1, f)


def b_isinstance(ex, st, args, kwargs, node):
    v, t = args
    names = []
    for x in t if isinstance(t, tuple) else (t,):
        if isinstance(x, Builtin):
            names.append(x.name)
        elif isinstance(x, ClassRef):
            names.append(x.name)
        else:
            raise Unsupported("isinstance type")
    is_i = is_int_valued(v) or isinstance(v, bool)
    is_f = is_real_valued(v)
    res = False
    for n in names:
        if n == "int" and is_i:
            res = True
        if n == "float" and is_f:
            res = True
        if n == "list" and isinstance(v, PyList) and not v.np:
            res = True
        if n == "tuple" and isinstance(v, tuple):
            res = True
        if n == "str" and isinstance(v, str):
            res = True
        if isinstance(v, PyObj) and v.cls.endswith(":" + n):
            res = True
    return res


def b_type(ex, st, args, kwargs, node):
    """type(x) for the cases the code asks about (`type(pos) is list`): values whose Python type the value domain fixes"""
    (v,) = args
    if isinstance(v, PyList) and not v.np or (isinstance(v, Opaque) and v.kind == "list"):
        return Builtin("list")
    if isinstance(v, tuple):
        return Builtin("tuple")
    if isinstance(v, bool):
        return Builtin("bool")
    if is_int_valued(v):
        return Builtin("int")
    if is_real_valued(v):
        return Builtin("float")
    if isinstance(v, str):
        return Builtin("str")
    raise Unsupported("type() of this value")


def b_print(ex, st, args, kwargs, node):
    return None


def b_str(ex, st, args, kwargs, node):
    if args and isinstance(args[0], str):
        return args[0]
    return Opaque("str", {})


def b_bool(ex, st, args, kwargs, node):
    return to_bool(args[0])


def b_sorted(ex, st, args, kwargs, node):
    """sorted(): a stable permutation ordered by key (assumed contract on the builtin)."""
    s = ex.iter_seq(args[0], st, node)
    keyf = kwargs.get("key")
    reverse = kwargs.get("reverse", False)
    if reverse is not False:
        raise Unsupported("sorted(reverse=True)")
    n = s.length
    if isinstance(n, int) and n <= 1:
        return PyList([s.get(k) for k in range(n)])
    used(ex, "builtin sorted: result is a permutation of the input, ordered by (key, then tuple order), stable")
    nz = to_z3(n)
    perm = z3.Function(uid("perm"), z3.IntSort(), z3.IntSort())  # output position -> input position
    inv = z3.Function(uid("perminv"), z3.IntSort(), z3.IntSort())
    j = z3.Int(uid("j"))
    i2 = z3.Int(uid("i"))
    st.pc.append(z3.ForAll([j], z3.Implies(z3.And(j >= 0, j < nz), z3.And(perm(j) >= 0, perm(j) < nz, inv(perm(j)) == j)), patterns=[perm(j)]))
    st.pc.append(_forall_pats([j], z3.Implies(z3.And(j >= 0, j < nz), z3.And(inv(j) >= 0, inv(j) < nz, perm(inv(j)) == j)), [[inv(j)], [_first_scalar(s.get(j))]]))

    def out_get(p):
        return s.get(perm(to_z3(p)))

    def keyof(v):
        if keyf is None:
            return v
        return ex.call(keyf, [v], {}, st, None, node)

    ka, kb = keyof(out_get(i2)), keyof(out_get(j))
    le = ex.compare(ast.LtE(), ka, kb, st, node)
    eq = ex.equals(ka, kb)
    le = z3.BoolVal(le) if isinstance(le, bool) else le
    eq = z3.BoolVal(eq) if isinstance(eq, bool) else eq
    # ordered (transitive form) and stable
    st.pc.append(_forall_pats([i2, j], z3.Implies(z3.And(i2 >= 0, i2 < j, j < nz), z3.And(le, z3.Implies(eq, perm(i2) < perm(j)))), [[perm(i2), perm(j)]]))
    out = PyList(Seq(n, out_get, tag=("sorted", s, perm, inv)))
    return out


def b_map(ex, st, args, kwargs, node):
    f, v = args
    s = ex.iter_seq(v, st, node)
    return Seq(s.length, lambda i: ex.call(f, [s.get(i)], {}, st, None, node))


def m_brentq(ex, st, args, kwargs, node):
    """scipy.optimize.brentq(f, a, b, xtol, rtol, maxiter) -- assumed contract A-BRENT:
    requires f(a)*f(b) < 0 (else ValueError); returns r in [a,b] with a sign change of f within
    delta = 4*(xtol + rtol*|r|) of r; f is called finitely often and the LAST call is at a point within delta of r
    (not necessarily at r: brentq may return the other end of its final bracket)."""
    f, a, b = args[:3]
    xtol = kwargs.get("xtol", Fraction(2, 10**12))
    rtol = kwargs.get("rtol", Fraction(1, 10**11))
    used(ex, "scipy.optimize.brentq (A-BRENT): root r in [a,b], sign change of f within 4*(xtol+rtol*|r|) of r, last evaluation within that distance of r; ValueError unless f(a)*f(b)<0")
    fa, fb = ex.pure_call(f, [a], st, node), ex.pure_call(f, [b], st, node)
    za, zb = to_real(a), to_real(b)
    ex.safety(st, "brentq-bracket", z3.Or(z3.And(to_real(fa) < 0, to_real(fb) > 0), z3.And(to_real(fa) > 0, to_real(fb) < 0)), node)
    r = z3.Real(uid("brent_root"))
    p, q, last = z3.Real(uid("brent_p")), z3.Real(uid("brent_q")), z3.Real(uid("brent_last"))
    absr = z3.If(r >= 0, r, -r)
    delta = 4 * (to_real(xtol) + to_real(rtol) * absr)
    st.pc.append(z3.And(za <= r, r <= zb))
    for t in (p, q, last):
        st.pc.append(z3.And(za <= t, t <= zb, t - r <= delta, r - t <= delta))
    fp, fq = ex.pure_call(f, [p], st, node), ex.pure_call(f, [q], st, node)
    st.pc.append(z3.And(to_real(fp) <= 0, to_real(fq) >= 0))
    # the state left behind is the state after the last evaluation
    ex.call(f, [last], {}, st, None, node)
    st.env["_brent_last"] = last
    return r


INTERP = z3.Function("INTERP1D", z3.IntSort(), z3.RealSort(), z3.RealSort())  # (interpolant id, x) -> value


def m_interp1d(ex, st, args, kwargs, node):
    """scipy.interpolate.interp1d(x, y, kind=..., fill_value=...): assumed contract - an object with .x, .y holding the data and
    (A-NODE) f(x_k) == y_k at every node when the abscissae are strictly increasing; nothing else about its values."""
    x, y = args[0], args[1]
    used(ex, "scipy.interpolate.interp1d: object with .x/.y = the data; f(x_k) = y_k at the nodes (strictly increasing x); other values uninterpreted")
    xs = x if isinstance(x, PyList) else PyList(ex.iter_seq(x, st, node))
    ys = y if isinstance(y, PyList) else PyList(ex.iter_seq(y, st, node))
    nx, ny = xs.length(), ys.length()
    if isinstance(nx, int) and isinstance(ny, int):
        if nx != ny:
            ex.safety(st, "interp1d-shape", False, node)
    else:
        ex.safety(st, "interp1d-shape", to_z3(nx) == to_z3(ny), node)
    fid = z3.Int(uid("interp"))
    k = z3.Int(uid("k"))
    xk, yk = to_real(xs.get(k)), to_real(ys.get(k))
    st.pc.append(_forall_pats([k], z3.Implies(z3.And(k >= 0, k < to_z3(nx)), INTERP(fid, xk) == yk), [[xk], [yk]]))
    xa = PyList(xs.v if not xs.is_conc() else list(xs.v), np=True)
    ya = PyList(ys.v if not ys.is_conc() else list(ys.v), np=True)
    return UFun("interp1d", lambda v: INTERP(fid, to_real(v)), attrs={"x": xa, "y": ya, "id": fid})


def b_all(ex, st, args, kwargs, node, is_all=True):
    s = ex.iter_seq(args[0], st, node)
    if not isinstance(s.length, int):
        # symbolic length: a quantified formula over the positions of the sequence
        k = z3.Int(uid("allk"))
        body = to_bool(s.get(k))
        body = z3.BoolVal(body) if isinstance(body, bool) else body
        rng_k = z3.And(0 <= k, k < to_z3(s.length))
        if is_all:
            return z3.ForAll([k], z3.Implies(rng_k, body))
        return z3.Exists([k], z3.And(rng_k, body))
    ts = [to_bool(s.get(k)) for k in range(s.length)]
    if all(isinstance(t, bool) for t in ts):
        return all(ts) if is_all else any(ts)
    zs = [z3.BoolVal(t) if isinstance(t, bool) else t for t in ts]
    return z3.And(*zs) if is_all else z3.Or(*zs)


def b_hasattr(ex, st, args, kwargs, node):
    o, name = args
    if isinstance(o, PyObj):
        return name in o.fields or ex.method_of(o.cls, name) is not None
    raise Unsupported("hasattr on a non-object")


def b_dict(ex, st, args, kwargs, node):
    if args:
        raise Unsupported("dict(...)")
    return PyDict(kwargs)


# --------------------------------------------------------------------------------------------
# math


def m_ceil(ex, st, args, kwargs, node):
    (v,) = args
    if isinstance(v, int):
        return v
    if isinstance(v, Fraction):
        return -((-v.numerator) // v.denominator) * 1 if False else -((-v.numerator) // v.denominator)
    z = to_z3(v)
    if z3.is_int(z):
        return z
    ex.discont.append((ex.fn_stack[0][0], getattr(node, "lineno", 0), "ceil of a real"))
    return -z3.ToInt(-z)


def m_isclose(ex, st, args, kwargs, node):
    """math.isclose over the reals: |a - b| <= max(rel_tol * max(|a|, |b|), abs_tol)"""
    a, b = to_real(to_z3(args[0])), to_real(to_z3(args[1]))
    rel = to_real(to_z3(kwargs.get("rel_tol", Fraction(1, 10**9))))
    abs_tol = to_real(to_z3(kwargs.get("abs_tol", 0)))
    ab = lambda x: z3.If(x >= 0, x, -x)  # noqa: E731
    mx = lambda x, y: z3.If(x >= y, x, y)  # noqa: E731
    ex.discont.append((ex.fn_stack[0][0], getattr(node, "lineno", 0), "isclose of reals"))
    return ab(a - b) <= mx(rel * mx(ab(a), ab(b)), abs_tol)


def m_floor(ex, st, args, kwargs, node):
    (v,) = args
    if isinstance(v, int):
        return v
    if isinstance(v, Fraction):
        return v.numerator // v.denominator
    z = to_z3(v)
    if z3.is_int(z):
        return z
    ex.discont.append((ex.fn_stack[0][0], getattr(node, "lineno", 0), "floor of a real"))
    return z3.ToInt(z)


def m_sqrt(ex, st, args, kwargs, node):
    (v,) = args
    used(ex, "math.sqrt: s >= 0 and s*s == x (requires x >= 0)")
    if is_conc_num(v):
        f = Fraction(v)
        if f < 0:
            ex.safety(st, "sqrt-negative", False, node)
            return Fraction(0)
        import math

        rn, rd = math.isqrt(f.numerator), math.isqrt(f.denominator)
        if rn * rn == f.numerator and rd * rd == f.denominator:
            return Fraction(rn, rd)
    z = to_real(v)
    ex.safety(st, "sqrt-negative", z >= 0, node)
    s = SQRT(z)
    c = ex.fn_stack[0][1]
    if c is None or c.options.get("sqrt_facts", True):
        st.pc.append(z3.And(s >= 0, s * s == z))
    else:
        used(ex, "math.sqrt left uninterpreted in this function (no property of sqrt is needed)")
    return s


def m_log(ex, st, args, kwargs, node):
    (v,) = args
    if isinstance(v, PyList):
        if not v.is_conc() and not ex.quiet:
            ii = z3.Int(uid("li"))
            pc0 = len(st.pc)
            st.pc.append(z3.And(ii >= 0, ii < to_z3(v.length())))
            ex.quiet += 1
            try:
                e = v.get(ii)
            finally:
                ex.quiet -= 1
            ex.safety(st, "log-domain", to_real(e) > 0, node)
            del st.pc[pc0:]
            return np_map(ex, v, _lazy(ex, lambda x: m_log(ex, st, [x], {}, node)))
        return np_map(ex, v, lambda x: m_log(ex, st, [x], {}, node))
    used(ex, "math.log / numpy.log: uninterpreted LOG with LOG(1)=0 (domain x>0 is a safety obligation)")
    if is_conc_num(v) and v == 1:
        return Fraction(0)
    z = to_real(v)
    ex.safety(st, "log-domain", z > 0, node)
    c = ex.fn_stack[0][1] if ex.fn_stack else None
    if c is not None and c.options.get("log_sign_facts"):
        # sign of the natural logarithm (a property of ln, instantiated at this argument)
        used(ex, "math.log: sign facts ln x > 0 for x > 1, ln 1 = 0, ln x < 0 for 0 < x < 1 (instantiated per call)")
        st.pc.append(z3.And(z3.Implies(z > 1, LOG(z) > 0), z3.Implies(z == 1, LOG(z) == 0), z3.Implies(z3.And(z > 0, z < 1), LOG(z) < 0)))
    return LOG(z)


def m_exp(ex, st, args, kwargs, node):
    (v,) = args
    if isinstance(v, PyList):
        return np_map(ex, v, lambda x: m_exp(ex, st, [x], {}, node))
    used(ex, "math.exp: uninterpreted EXP")
    return EXP(to_real(v))


def m_trig(fn, nm):
    def f(ex, st, args, kwargs, node):
        used(ex, f"math.{nm}: uninterpreted")
        return fn(to_real(args[0]))

    return f


# --------------------------------------------------------------------------------------------
# lists / numpy arrays


def np_map(ex, v: PyList, f):
    if v.is_conc():
        return PyList([f(x) for x in v.v], np=True)
    s = v.v
    return PyList(Seq(s.length, lambda i: f(s.get(i)), np=True), np=True)


def list_binop(ex, st, op, a, b, node):
    la, lb = isinstance(a, PyList), isinstance(b, PyList)
    npa = (la and a.np) or (lb and b.np)
    if not npa:
        if isinstance(op, ast.Add) and la and lb:
            return list_concat(a, b)
        if isinstance(op, ast.Mult) and (la != lb):
            lst, k = (a, b) if la else (b, a)
            return list_repeat(ex, st, lst, k, node)
        raise Unsupported(f"list {type(op).__name__}")
    # numpy element-wise with scalar broadcasting
    used(ex, "numpy element-wise arithmetic with scalar broadcasting (equal lengths is a safety obligation)")
    if la and lb:
        na, nb = a.length(), b.length()
        if isinstance(na, int) and isinstance(nb, int):
            if na != nb:
                ex.safety(st, "broadcast", False, node)
        else:
            ex.safety(st, "broadcast", to_z3(na) == to_z3(nb), node)
        if a.is_conc() and b.is_conc():
            return PyList([ex.binop(op, x, y, st, node) for x, y in zip(a.v, b.v)], np=True)
        sa, sb = a.as_seq(), b.as_seq()
        return PyList(Seq(sa.length, _lazy(ex, lambda i: ex.binop(op, sa.get(i), sb.get(i), st, node)), np=True), np=True)
    if la:
        if a.is_conc():
            return PyList([ex.binop(op, x, b, st, node) for x in a.v], np=True)
        sa = a.as_seq()
        if isinstance(op, (ast.Div, ast.FloorDiv, ast.Mod)):
            ex.binop(op, 1, b, st, node)  # division safety once, on the scalar divisor
        return PyList(Seq(sa.length, _lazy(ex, lambda i: ex.binop(op, sa.get(i), b, st, node)), np=True), np=True)
    if b.is_conc():
        return PyList([ex.binop(op, a, y, st, node) for y in b.v], np=True)
    sb = b.as_seq()
    return PyList(Seq(sb.length, _lazy(ex, lambda i: ex.binop(op, a, sb.get(i), st, node)), np=True), np=True)


class _QuietState:
    """State stand-in for lazily evaluated element expressions: obligations inside are not recorded."""

    def __init__(self, st):
        self.pc = list(st.pc)
        self.env = st.env
        self.forks = []
        self.roots = st.roots
        self.trace = st.trace
        self.quiet = True


def _quiet(st):
    return st


def _lazy(ex, f):
    """Element getter evaluated lazily: obligations inside are suppressed (they are generated once, eagerly)."""

    def g(i):
        ex.quiet += 1
        try:
            return f(i)
        finally:
            ex.quiet -= 1

    return g


def list_concat(a: PyList, b: PyList):
    if a.is_conc() and b.is_conc():
        return PyList(a.v + b.v)
    if a.is_conc() and not a.v:
        return PyList(b.v, np=b.np)
    if b.is_conc() and not b.v:
        return PyList(a.v, np=a.np)
    sa, sb = a.as_seq(), b.as_seq()
    na, nb = sa.length, sb.length
    if isinstance(na, int) and isinstance(nb, int):
        n = na + nb
    else:
        n = to_z3(na) + to_z3(nb)
    if isinstance(na, int) and isinstance(nb, int):
        return PyList([sa.get(k) for k in range(na)] + [sb.get(k) for k in range(nb)])

    def get(i):
        if isinstance(i, int) and isinstance(na, int):
            return sa.get(i) if i < na else sb.get(i - na)
        iz = to_z3(i)
        from .engine import _ite_lazy

        return _ite_lazy(iz < to_z3(na), lambda: sa.get(i), lambda: sb.get(iz - to_z3(na)))

    return PyList(Seq(n, get))


def list_repeat(ex, st, lst: PyList, k, node):
    if isinstance(k, int) and lst.is_conc():
        return PyList(lst.v * k, np=False)
    if lst.is_conc() and len(lst.v) == 1:
        x = lst.v[0]
        kz = to_z3(k)
        n = z3.If(kz > 0, kz, z3.IntVal(0))
        return PyList(Seq(z3.simplify(n), lambda i: x))
    s = lst.as_seq()
    m = s.length
    kz = to_z3(k)
    n = z3.If(kz > 0, kz * to_z3(m), z3.IntVal(0))
    if isinstance(m, int) and m > 0:
        return PyList(Seq(n, lambda i: s.get(to_z3(i) % m)))
    raise Unsupported("repeat of symbolic-length list")


def do_slice(ex, st, o, lo, hi, node):
    if isinstance(o, tuple):
        if (lo is None or isinstance(lo, int)) and (hi is None or isinstance(hi, int)):
            return o[lo:hi]
        raise Unsupported("symbolic slice of tuple")
    if isinstance(o, Seq):
        o = PyList(o)
    if isinstance(o, Opaque) and o.kind == "field" and "len" in o.attrs and "id" in o.attrs:
        # slice of an abstract candidate field: another abstract field, named by (field, lo, hi), with Python's clamped length
        n = to_z3(o.attrs["len"])
        lo_z = z3.IntVal(0) if lo is None else to_z3(lo)
        hi_z = n if hi is None else to_z3(hi)
        clamp = lambda b: z3.If(b < 0, z3.If(b + n < 0, z3.IntVal(0), b + n), z3.If(b > n, n, b))  # noqa: E731
        lo_c, hi_c = clamp(lo_z), clamp(hi_z)
        used(ex, "slice of an abstract field: FIELD_SLICE(id, lo, hi) with Python's clamped length")
        return Opaque("field", {"id": FIELD_SLICE(to_z3(o.attrs["id"]), lo_c, hi_c), "len": z3.If(hi_c > lo_c, hi_c - lo_c, z3.IntVal(0))})
    if not isinstance(o, PyList):
        raise Unsupported(f"slice of {type(o).__name__}")
    n = o.length()
    if o.is_conc() and (lo is None or isinstance(lo, int)) and (hi is None or isinstance(hi, int)):
        return PyList(o.v[lo:hi], np=o.np)
    # normalise bounds as Python does: negative wrap, clamp to [0, n]
    nz = to_z3(n)

    def norm(b, default):
        if b is None:
            return default
        bz = to_z3(b)
        if isinstance(b, int):
            if b >= 0:
                return z3.If(nz < b, nz, z3.IntVal(b))
            w = nz + b
            return z3.If(w < 0, z3.IntVal(0), w)
        w = z3.If(bz < 0, bz + nz, bz)
        return z3.If(w < 0, z3.IntVal(0), z3.If(w > nz, nz, w))

    lo_z = z3.IntVal(0) if lo is None else to_z3(lo)
    hi_z = nz if hi is None else to_z3(hi)
    if ex.provable(st, z3.And(lo_z >= 0, lo_z <= hi_z, hi_z <= nz)):
        # bounds are inside the list on this path: no wrap, no clamp
        l, h = z3.simplify(lo_z), z3.simplify(hi_z)
    else:
        l = norm(lo, z3.IntVal(0))
        h = norm(hi, nz)
    ln = z3.simplify(h - l) if ex.provable(st, h >= l) else z3.simplify(z3.If(h > l, h - l, z3.IntVal(0)))
    l = z3.simplify(l)
    s = o.as_seq()
    if z3.is_int_value(ln) and z3.is_int_value(l):
        lc, ll = ln.as_long(), l.as_long()
        if lc <= LONG:
            return PyList([s.get(ll + k) for k in range(lc)], np=o.np)
        return PyList(Seq(lc, lambda i: s.get(ll + i if isinstance(i, int) else ll + to_z3(i)), np=o.np, tag=("slice", s, ll)), np=o.np)
    return PyList(Seq(ln, lambda i: s.get(l + to_z3(i)), np=o.np, tag=("slice", s, l)), np=o.np)


def list_extend(ex, st, lst: PyList, v):
    other = v if isinstance(v, PyList) else PyList(ex.iter_seq(v, st, None))
    r = list_concat(lst, other)
    lst.v = r.v


def list_append(lst: PyList, x):
    if lst.is_conc():
        lst.v = lst.v + [x]
        return
    s = lst.v
    n = s.length
    nz = to_z3(n)
    from .engine import _ite_lazy

    def get(i):
        iz = to_z3(i)
        return _ite_lazy(z3.simplify(iz == nz), lambda: x, lambda: s.get(i))

    lst.v = Seq(z3.simplify(nz + 1), get, np=s.np, tag=("append", s, x))


def add_intmap_axioms(ex, st, m: IntMap):
    """Facts relating an IntMap's key order to its domain (used when keys()/values() are listed)."""
    key = ("intmap-ax", id(m), m.n.get_id() if is_z3(m.n) else m.n)
    if key in ex.const_cache:
        return
    ex.const_cache[key] = True
    used(ex, "dict iteration order = insertion order; keys()/values() aligned")
    p = z3.Int(uid("p"))
    k = z3.Int(uid("k"))
    nz = to_z3(m.n)
    kp = m.key_at(p)
    st.pc.append(_forall_pats([p], z3.Implies(z3.And(p >= 0, p < nz), z3.And(m.dom(kp), m.pos_of(kp) == p)), [[kp]]))
    dk = m.dom(k)
    st.pc.append(_forall_pats([k], z3.Implies(dk, z3.And(m.pos_of(k) >= 0, m.pos_of(k) < nz, m.key_at(m.pos_of(k)) == k)), [[m.pos_of(k)], [dk]]))


def container_attr(ex, st, o, attr, node):
    if isinstance(o, PyList):
        if attr == "append":
            def f(ex_, st_, args, kwargs, node_):
                list_append(o, args[0])
                return None
            return UFunM(f)
        if attr == "extend":
            def f(ex_, st_, args, kwargs, node_):
                list_extend(ex_, st_, o, args[0])
                return None
            return UFunM(f)
        if attr == "index":
            def f(ex_, st_, args, kwargs, node_):
                return list_index(ex_, st_, o, args[0], node_)
            return UFunM(f)
        if attr == "tolist":
            return UFunM(lambda ex_, st_, args, kwargs, node_: PyList(o.v if not o.is_conc() else list(o.v), np=False) if True else None)
        if attr == "copy":
            return UFunM(lambda ex_, st_, args, kwargs, node_: o.copy())
        if attr == "size" and o.np:
            return o.length()
        if attr == "dot" and o.np:
            def f(ex_, st_, args, kwargs, node_):
                return np_dot(ex_, st_, o, args[0], node_)
            return UFunM(f)
        if attr == "pop":
            def f(ex_, st_, args, kwargs, node_):
                if o.is_conc() and (not args or isinstance(args[0], int)):
                    if not o.v:
                        ex_.safety(st_, "pop-empty", False, node_)
                        return None
                    return o.v.pop(*args)
                raise Unsupported("pop on symbolic list")
            return UFunM(f)
    if isinstance(o, PyDict):
        if attr == "keys":
            return UFunM(lambda ex_, st_, args, kwargs, node_: Seq(len(o.d), lambda i, ks=list(o.d.keys()): ks[i] if isinstance(i, int) else select_conc(ks, i)))
        if attr == "values":
            return UFunM(lambda ex_, st_, args, kwargs, node_: Seq(len(o.d), lambda i, vs=list(o.d.values()): vs[i] if isinstance(i, int) else select_conc(vs, i)))
        if attr == "items":
            return UFunM(lambda ex_, st_, args, kwargs, node_: Seq(len(o.d), lambda i, it=list(o.d.items()): it[i]))
        if attr == "get":
            return UFunM(lambda ex_, st_, args, kwargs, node_: o.d.get(args[0], args[1] if len(args) > 1 else None))
    if isinstance(o, IntMap):
        if attr == "keys":
            def f(ex_, st_, args, kwargs, node_):
                add_intmap_axioms(ex_, st_, o)
                ka = o.key_at
                return Seq(o.n, lambda p: ka(to_z3(p)), tag=("keys", o))
            return UFunM(f)
        if attr == "values":
            def f(ex_, st_, args, kwargs, node_):
                add_intmap_axioms(ex_, st_, o)
                ka, va = o.key_at, o.val
                return Seq(o.n, lambda p: va(ka(to_z3(p))), tag=("values", o))
            return UFunM(f)
    if isinstance(o, tuple) and attr == "index":
        return UFunM(lambda ex_, st_, args, kwargs, node_: list_index(ex_, st_, PyList(list(o)), args[0], node_))
    raise Unsupported(f"attribute {attr} of {type(o).__name__}")


class UFunM(UFun):
    """A bound library method implemented by a model function."""

    def __init__(self, impl):
        super().__init__("method", None)
        self.impl = impl


def list_index(ex, st, lst: PyList, x, node):
    """list.index(x): the first position holding a value == x; ValueError when absent (safety obligation)."""
    if lst.is_conc() and len(lst.v) <= LONG:
        items = lst.v
        eqs = [ex.equals(y, x) for y in items]
        if all(isinstance(e, bool) for e in eqs):
            if True in eqs:
                return eqs.index(True)
            ex.safety(st, "index-absent", False, node)
            return 0
        zs = [z3.BoolVal(e) if isinstance(e, bool) else e for e in eqs]
        ex.safety(st, "index-absent", z3.Or(*zs), node)
        out = len(items) - 1
        for k in range(len(items) - 2, -1, -1):
            out = z3.If(zs[k], z3.IntVal(k), to_z3(out))
        return out
    used(ex, "list.index: first position with ==; ValueError when absent")
    s = lst.as_seq()
    nz = to_z3(s.length)
    r = z3.Int(uid("index"))
    j = z3.Int(uid("j"))
    ej = ex.equals(s.get(j), x)
    ej = z3.BoolVal(ej) if isinstance(ej, bool) else ej
    present = z3.Exists([j], z3.And(j >= 0, j < nz, ej))
    if is_z3(x):
        # the searched value is known to occur (it was obtained as max/min of this very sequence): name the witness
        for (ws, ww) in ex.const_cache.get(("witness", x.get_id()), []):
            if ws is s or ws is lst.v:
                present = z3.Or(present, z3.And(ww >= 0, ww < nz, to_z3(s.get(ww)) == x))
    ex.safety(st, "index-absent", present, node)
    er = ex.equals(s.get(r), x)
    st.pc.append(z3.And(r >= 0, r < nz, er if not isinstance(er, bool) else z3.BoolVal(er)))
    st.pc.append(z3.ForAll([j], z3.Implies(z3.And(j >= 0, j < r), z3.Not(ej))))
    return r


def np_dot(ex, st, a: PyList, b, node):
    if not isinstance(b, PyList):
        raise Unsupported("dot with non-array")
    na, nb = a.length(), b.length()
    if isinstance(na, int) and isinstance(nb, int):
        if na != nb:
            ex.safety(st, "dot-shape", False, node)
            return Fraction(0)
        out = 0
        for k in range(na):
            out = ex.binop(ast.Add(), out, ex.binop(ast.Mult(), a.get(k), b.get(k), st, node), st, node)
        return out
    ex.safety(st, "dot-shape", to_z3(na) == to_z3(nb), node)
    sa, sb = a.as_seq(), b.as_seq()
    prod = Seq(na, lambda i: ex.binop(ast.Mult(), sa.get(i), sb.get(i), st, node))
    return seq_sum(ex, st, prod, 0, na)


def n_append(ex, st, args, kwargs, node):
    arr, x = args
    used(ex, "numpy.append(arr, x): new 1-D array = arr followed by x (a 0-d array counts as one element)")
    if is_scalar(arr):
        arr = PyList([arr], np=True)
    out = PyList(arr.v if not arr.is_conc() else list(arr.v), np=True)
    if isinstance(x, PyList):
        return PyList(list_concat(out, x).v, np=True)
    list_append(out, x)
    return out


def n_array(ex, st, args, kwargs, node):
    (v,) = args[:1]
    if is_scalar(v):
        return v  # 0-d array: behaves as the scalar; np.append treats it as one element
    if isinstance(v, PyList):
        return PyList(v.v if not v.is_conc() else list(v.v), np=True)
    s = ex.iter_seq(v, st, node)
    if isinstance(s.length, int):
        return PyList([s.get(k) for k in range(s.length)], np=True)
    return PyList(Seq(s.length, s.get, np=True), np=True)


def n_asarray(ex, st, args, kwargs, node):
    (v,) = args[:1]
    if isinstance(v, PyList) and v.np:
        used(ex, "numpy.asarray of an array returns that array (no copy; a dtype argument that would force a conversion is not modelled: stored loads are float arrays)")
        return v
    return n_array(ex, st, args, kwargs, node)


def n_hstack(ex, st, args, kwargs, node):
    (v,) = args
    used(ex, "numpy.hstack: concatenation of 1-D arrays / scalars")
    if isinstance(v, PyList):
        # hstack of a 1-D array of scalars is that array
        return PyList(v.v if not v.is_conc() else list(v.v), np=True)
    out = PyList([], np=True)
    for part in v:
        if isinstance(part, PyList):
            out = PyList(list_concat(out, part).v, np=True)
        else:
            list_append(out, part)
    out.np = True
    return out


def n_arange(ex, st, args, kwargs, node):
    s = b_range(ex, st, args, kwargs, node)
    return PyList(Seq(s.length, s.get, np=True), np=True)


def n_zeros(ex, st, args, kwargs, node):
    n = args[0] if args else kwargs.get("shape")
    if isinstance(n, tuple) and len(n) == 2 and all(isinstance(x, int) for x in n):
        return PyList([PyList([Fraction(0)] * n[1], np=True) for _ in range(n[0])], np=True)
    if isinstance(n, tuple) and len(n) == 1:
        n = n[0]
    if isinstance(n, int):
        return PyList([Fraction(0)] * n, np=True)
    return PyList(Seq(n, lambda i: Fraction(0), np=True), np=True)


def construct(ex, st, cref: ClassRef, args, kwargs, node, mod):
    if cref.module == "builtins":
        return Opaque("exception", {"cls": cref.name})
    init = ex.prog.resolve_method(cref.module, cref.name, "__init__")
    obj = PyObj(f"{cref.module}:{cref.name}")
    if init is None:
        return obj
    ex.call_function(init, [obj] + list(args), kwargs, st, node)
    return obj


def opaque_attr(ex, st, o, attr, node):
    if o.kind in ("datetime", "str"):
        return UFunM(lambda ex_, st_, args, kwargs, node_: Opaque("str", {}))
    if o.kind == "path":
        if attr in ("resolve", "absolute"):
            return UFunM(lambda ex_, st_, args, kwargs, node_: o)
        if attr == "read_text":
            return UFunM(lambda ex_, st_, args, kwargs, node_: Opaque("text", {"of": o.attrs.get("id")}))
        if attr == "parent":
            return Opaque("path", {"id": z3.Int(uid("path"))})
    if o.kind == "file" and attr == "write":
        # ghost: the last thing written to any file in this activation is visible to contracts as `_written`
        def _write(ex_, st_, args, kwargs, node_):
            st_.env["_written"] = args[0] if args else None
            return None
        return UFunM(_write)
    if o.kind in ("logger", "file"):
        return UFunM(lambda ex_, st_, args, kwargs, node_: None)
    if o.kind == "json":
        if attr == "get":
            return UFunM(lambda ex_, st_, args, kwargs, node_: Opaque("json", {}))
    raise Unsupported(f"attribute {attr} of opaque {o.kind}")


def scalar_attr(ex, st, o, attr, node):
    if attr == "tolist":
        return UFunM(lambda ex_, st_, args, kwargs, node_: o)
    raise Unsupported(f"attribute {attr} of a scalar")


def comprehension(ex, st, mod, node):
    if len(node.generators) != 1:
        raise Unsupported("nested comprehension")
    g = node.generators[0]
    if g.is_async:
        raise Unsupported("async comprehension")
    it = ex.iter_seq(ex.eval(g.iter, st, mod), st, g.iter)
    n = it.length
    saved = {}

    def names(t):
        if isinstance(t, ast.Name):
            return [t.id]
        if isinstance(t, (ast.Tuple, ast.List)):
            return [x for e in t.elts for x in names(e)]
        return []

    tnames = names(g.target)
    missing = object()
    for nm in tnames:
        saved[nm] = st.env.get(nm, missing) if nm in st.env else missing

    def restore():
        for nm, v in saved.items():
            if v is missing:
                if dict.__contains__(st.env, nm):
                    dict.__delitem__(st.env, nm)
            else:
                st.env[nm] = v

    try:
        if isinstance(n, int):
            out = []
            for k in range(n):
                ex.assign(g.target, it.get(k), st, mod)
                keep = True
                for cond in g.ifs:
                    c = ex.truth(ex.eval(cond, st, mod), st, cond)
                    if isinstance(c, bool):
                        keep = keep and c
                    else:
                        raise Unsupported("filter comprehension with a symbolic condition over a concrete list")
                if keep:
                    out.append(ex.eval(node.elt, st, mod))
            return PyList(out)
        # symbolic length
        if not g.ifs:
            env0 = st.env

            def get(i, env0=env0, quiet=True):
                saved_env = st.env
                st.env = _overlay(env0)
                if quiet:
                    ex.quiet += 1
                pc0 = len(st.pc)
                try:
                    ex.assign(g.target, it.get(i), st, mod)
                    return ex.eval(node.elt, st, mod)
                finally:
                    st.env = saved_env
                    if quiet:
                        ex.quiet -= 1
                        del st.pc[pc0:]

            # safety obligations of the element expression: once, for an arbitrary index
            ii = z3.Int(uid("ci"))
            pc0 = len(st.pc)
            st.pc.append(z3.And(ii >= 0, ii < to_z3(n)))
            get(ii, quiet=False)
            del st.pc[pc0:]
            return PyList(Seq(n, get, tag=("map", it)))
        # filter comprehension: fresh list + (sound and complete) membership axioms
        used(ex, "filter comprehension: order-preserving sub-list (src: strictly increasing position map)")
        nz = to_z3(n)
        m = z3.Int(uid("flen"))
        src = z3.Function(uid("fsrc"), z3.IntSort(), z3.IntSort())  # output position -> input position
        dst = z3.Function(uid("fdst"), z3.IntSort(), z3.IntSort())  # input position (kept) -> output position
        env0 = st.env

        def with_elem(i, f, quiet=True):
            saved_env = st.env
            st.env = _overlay(env0)
            if quiet:
                ex.quiet += 1
            pc0 = len(st.pc)
            try:
                ex.assign(g.target, it.get(i), st, mod)
                return f()
            finally:
                st.env = saved_env
                if quiet:
                    ex.quiet -= 1
                    del st.pc[pc0:]

        ii = z3.Int(uid("ci"))
        pc00 = len(st.pc)
        st.pc.append(z3.And(ii >= 0, ii < to_z3(n)))
        with_elem(ii, lambda: [ex.eval(cond, st, mod) for cond in g.ifs] + [ex.eval(node.elt, st, mod)], quiet=False)
        del st.pc[pc00:]

        def cond_at(i):
            cs = []
            for cond in g.ifs:
                c = with_elem(i, lambda: ex.truth(ex.eval(cond, st, mod), st, cond))
                cs.append(z3.BoolVal(c) if isinstance(c, bool) else c)
            return z3.And(*cs)

        j = z3.Int(uid("j"))
        i2 = z3.Int(uid("i"))
        st.pc.append(z3.And(m >= 0, m <= nz))
        st.pc.append(z3.ForAll([j], z3.Implies(z3.And(j >= 0, j < m), z3.And(src(j) >= 0, src(j) < nz, cond_at(src(j)), dst(src(j)) == j)), patterns=[src(j)]))
        st.pc.append(z3.ForAll([i2, j], z3.Implies(z3.And(i2 >= 0, i2 < j, j < m), src(i2) < src(j)), patterns=[z3.MultiPattern(src(i2), src(j))]))
        ci = cond_at(i2)
        body3 = z3.Implies(z3.And(i2 >= 0, i2 < nz, ci), z3.And(dst(i2) >= 0, dst(i2) < m, src(dst(i2)) == i2))
        st.pc.append(_forall_pats([i2], body3, [[dst(i2)], [_first_scalar(it.get(i2))]]))

        def get(p):
            return with_elem(src(to_z3(p)), lambda: ex.eval(node.elt, st, mod))

        return PyList(Seq(m, get, tag=("filter", it, src, dst)))
    finally:
        restore()


def _first_scalar(v):
    while isinstance(v, tuple) and v:
        v = v[-1]
    return v if is_z3(v) else None


_BAD_IN_PATTERN = {z3.Z3_OP_ITE, z3.Z3_OP_AND, z3.Z3_OP_OR, z3.Z3_OP_NOT, z3.Z3_OP_IMPLIES, z3.Z3_OP_EQ, z3.Z3_OP_LE, z3.Z3_OP_LT,
                   z3.Z3_OP_GE, z3.Z3_OP_GT, z3.Z3_OP_DISTINCT, z3.Z3_OP_TRUE, z3.Z3_OP_FALSE, z3.Z3_OP_IFF if hasattr(z3, "Z3_OP_IFF") else z3.Z3_OP_EQ}


def legal_pattern(t, vs):
    """A usable trigger: an uninterpreted application, no connectives/ite inside, mentions every bound variable."""
    if t is None or not is_z3(t) or not z3.is_app(t) or t.decl().kind() != z3.Z3_OP_UNINTERPRETED or t.num_args() == 0:
        return False
    seen_vars = set()
    stack = [t]
    while stack:
        x = stack.pop()
        if z3.is_app(x):
            if x.decl().kind() in _BAD_IN_PATTERN:
                return False
            if x.num_args() == 0 and x.decl().kind() == z3.Z3_OP_UNINTERPRETED:
                seen_vars.add(x.get_id())
            stack.extend(x.children())
        else:
            return False
    return all(v.get_id() in seen_vars for v in vs)


def _forall_pats(vs, body, pattern_sets):
    """ForAll with several alternative triggers; illegal triggers are skipped."""
    pats = []
    for ps in pattern_sets:
        if any(p is None for p in ps):
            continue
        if len(ps) == 1:
            if legal_pattern(ps[0], vs):
                pats.append(ps[0])
        else:
            allv = set()
            ok = all(p is not None and is_z3(p) and legal_pattern(p, []) for p in ps)
            if ok:
                pats.append(z3.MultiPattern(*ps))
    if pats:
        try:
            return z3.ForAll(vs, body, patterns=pats)
        except z3.Z3Exception:
            pass
    return z3.ForAll(vs, body)


class _overlay(dict):
    def __init__(self, outer):
        super().__init__()
        self.outer = outer

    def __contains__(self, k):
        return dict.__contains__(self, k) or k in self.outer

    def __getitem__(self, k):
        if dict.__contains__(self, k):
            return dict.__getitem__(self, k)
        return self.outer[k]

    def get(self, k, d=None):
        return self[k] if k in self else d


_TABLE = {
    "len": b_len, "range": b_range, "enumerate": b_enumerate, "zip": b_zip, "list": b_list, "tuple": b_tuple,
    "max": b_max, "min": b_min, "sum": b_sum, "abs": b_abs, "int": b_int, "float": b_float,
    "isinstance": b_isinstance, "print": b_print, "str": b_str, "bool": b_bool, "sorted": b_sorted, "map": b_map,
    "dict": b_dict, "type": b_type,
    "math.isclose": m_isclose, "numpy.isclose": m_isclose, "math.ceil": m_ceil, "math.floor": m_floor, "math.sqrt": m_sqrt, "math.log": m_log, "math.exp": m_exp,
    "math.sin": m_trig(SIN, "sin"), "math.cos": m_trig(COS, "cos"), "math.atan": m_trig(ATAN, "atan"),
    "numpy.append": n_append, "numpy.array": n_array, "numpy.asarray": n_asarray, "numpy.asanyarray": n_asarray, "numpy.hstack": n_hstack, "numpy.log": m_log,
    "numpy.arange": n_arange, "numpy.zeros": n_zeros, "numpy.sqrt": m_sqrt, "numpy.exp": m_exp,
    "warnings.warn": b_print,
    "scipy.optimize.brentq": m_brentq,
    "scipy.interpolate.interp1d": m_interp1d,
    "all": b_all, "any": lambda ex, st, args, kwargs, node: b_all(ex, st, args, kwargs, node, is_all=False),
    "hasattr": b_hasattr,
    "round": b_round,
    "datetime.datetime": None,
    "time.time": lambda ex, st, args, kwargs, node: z3.Real(uid("time")),
}
