"""Contracts for ghedesigner/utilities.py."""
import z3

from pyvc.api import *
from pyvc.run import native

U = "ghedesigner.utilities"

contract(f"{U}:sign", dict(x=Real),
         requires=[("nonzero", lambda E: E.x != 0)],
         ensures=[("value", lambda E: E.result == If(E.x > 0, 1, -1))], returns=Int)

contract(f"{U}:check_bracket", dict(sign_x_l=Int, sign_x_r=Int),
         ensures=[("value", lambda E: E.result == Or(And(E.sign_x_l < 0, 0 < E.sign_x_r), And(E.sign_x_r < 0, 0 < E.sign_x_l)))],
         returns=Bool)

contract(f"{U}:length_of_side", dict(n=Int, b=Real), ensures=[("value", lambda E: E.result == ToReal(E.n - 1) * E.b)], returns=Real)

# borehole_spacing: distance between the first two boreholes, at least the radius (abstract for callers)
Field = OpaqueOf("field", id=Int, len=Int)
SPACING = z3.Function("SPACING", z3.IntSort(), z3.RealSort(), z3.RealSort())  # (field id, r_b) -> B


def _sign_check(args):
    from ghedesigner.utilities import check_bracket, sign

    x = args["x"]
    ok = sign(x) == (1 if x > 0 else -1)
    y = args["y"]
    ok = ok and check_bracket(sign(x), sign(y)) == ((x < 0 < y) or (y < 0 < x))
    return ok, {"x": x, "y": y}


native(f"{U}:sign", _sign_check, lambda rng: {"x": rng.choice([-1, 1]) * 10 ** rng.uniform(-12, 6), "y": rng.choice([-1, 1]) * 10 ** rng.uniform(-12, 6)},
       lambda inp: {"x": float(inp["x"]) or 1.0, "y": 1.0}, bound="random non-zero doubles over 18 decades")


# ---- solve_root -------------------------------------------------------------------------------------------
def _delta(r, xtol, rtol):
    return 4 * (xtol + rtol * If(r >= 0, r, -r))


def _near_sign_change(F, r, lo, hi, xtol, rtol, skolem=False):
    """A-BRENT's conclusion: f changes sign within delta of r (inside the bracket).
    skolem=True: the assumed (caller) form with the two witnesses as fresh constants instead of an existential."""
    p, q = z3.Real(uid("p")), z3.Real(uid("q"))
    d = _delta(r, xtol, rtol)
    inb = lambda t: And(lo <= t, t <= hi, t - r <= d, r - t <= d)  # noqa: E731
    body = And(inb(p), inb(q), F(p) <= 0, F(q) >= 0)
    return body if skolem else Exists([p, q], body)


def _solve_root_clauses(F, lo, hi, r, last, xtol, rtol, skolem=False):
    fl, fh = F(lo), F(hi)
    differ = Or(And(fl < 0, fh > 0), And(fl > 0, fh < 0))
    return [
        ("within-bracket", And(lo <= r, r <= hi)),
        ("root-when-bracketed", Implies(differ, _near_sign_change(F, r, lo, hi, xtol, rtol, skolem))),
        ("clamped-low-when-both-negative", Implies(And(fl < 0, fh < 0), r == lo)),
        ("clamped-high-when-both-positive", Implies(And(fl > 0, fh > 0), r == hi)),
        ("last-evaluation", And(lo <= last, last <= hi, Implies(Not(differ), last == hi),
                                 Implies(differ, And(last - r <= _delta(r, xtol, rtol), r - last <= _delta(r, xtol, rtol))))),
    ]


def _sr_effects(ex, st, env, result, node):
    # the state the callee leaves behind is the state after its last evaluation of the objective
    ex.call(env["objective_function"], [result[1]], {}, st, None, node)


_c = contract(
    f"{U}:solve_root",
    dict(x=Real, objective_function=FnOf(1, track="_last"), lower=Real, upper=Real, abs_tol=Real, rel_tol=Real, max_iter=Int),
    requires=[("ordered-bracket", lambda E: E.lower < E.upper),
              ("tolerances", lambda E: And(E.abs_tol > 0, E.rel_tol > 0)),
              ("non-degenerate-ends", lambda E: And(E.objective_function(E.lower) != 0, E.objective_function(E.upper) != 0))],
    ensures=[(n, (lambda E, n=n: dict(_solve_root_clauses(E.objective_function, E.lower, E.upper, E.result, E._last, E.abs_tol, E.rel_tol))[n]))
             for n in ("within-bracket", "root-when-bracketed", "clamped-low-when-both-negative", "clamped-high-when-both-positive", "last-evaluation")],
    ensures_caller=[(n, (lambda E, n=n: dict(_solve_root_clauses(E.objective_function, E.lower, E.upper, E.result[0], E.result[1], E.abs_tol, E.rel_tol, skolem=True))[n]))
                    for n in ("within-bracket", "root-when-bracketed", "clamped-low-when-both-negative", "clamped-high-when-both-positive", "last-evaluation")],
    returns=TupleOf(Real, Real),
)
_c.ghost_results = 1
_c.effects = _sr_effects


def _solve_root_check(args):
    from ghedesigner.utilities import solve_root

    a, b, c, lo, hi = args["a"], args["b"], args["c"], args["lo"], args["hi"]
    calls = []

    def f(x):
        calls.append(x)
        return a * (x - c) ** 3 + b * (x - c)

    r = solve_root((lo + hi) / 2, f, lower=lo, upper=hi, abs_tol=1e-6, rel_tol=1e-6, max_iter=50)
    log = list(calls)  # the evaluations made by solve_root itself
    fl, fh = f(lo), f(hi)
    if not lo <= r <= hi:
        return False, {"r": r}
    d = 4 * (1e-6 + 1e-6 * abs(r))
    if fl * fh < 0:
        # sign change within d of r: sample the neighbourhood
        xs = [max(lo, r - d), r, min(hi, r + d)]
        if not (min(f(x) for x in xs) <= 0 <= max(f(x) for x in xs)):
            return False, {"r": r, "f": [f(x) for x in xs]}
        if abs(log[-1] - r) > d:
            return False, {"last": log[-1], "r": r}
    elif fl < 0:
        if r != lo or log[-1] != hi:
            return False, {"r": r, "want": lo}
    elif r != hi or log[-1] != hi:
        return False, {"r": r, "want": hi}
    return True, {}


def _solve_root_gen(rng):
    lo = rng.uniform(10, 100)
    hi = lo + rng.uniform(5, 300)
    c = rng.uniform(lo - 50, hi + 50)
    if abs(c - lo) < 1e-3 or abs(c - hi) < 1e-3:
        c += 1.0
    sgn = rng.choice([-1, 1])
    return {"a": sgn * rng.uniform(0, 1e-3), "b": sgn * rng.uniform(1e-3, 1.0), "c": c, "lo": lo, "hi": hi}


native(f"{U}:solve_root", _solve_root_check, _solve_root_gen, None,
       bound="monotone cubic objectives with the root inside / below / above the bracket; call log inspected")
