"""C14 - RowWise on convex lots terminates, stays inside, keeps spacing, fills the lot."""
from contracts import rowwise
from props.common import *  # noqa: F401,F403

RW = "ghedesigner.rowwise"
FUNCTIONS = rowwise.FUNCTIONS
NATIVE_FUNCTIONS = [f"{RW}:gen_borehole_config"]
NATIVE_CASES = {"quick": 40, "thorough": 1500}
NATIVE_LIMIT_S = {"quick": 200, "thorough": 3400}
CASE_TIMEOUT = 200
LEVEL = "other"


def lemmas():
    return rowwise.LEMMAS


ASSUMPTIONS = [A_REAL, A_ENGINE, "gen_borehole_config / two_space_gen_bhc are abstract in the sweep contracts: CFG(rotation) is an arbitrary field-valued function (A-DET)",
               "gen_borehole_config, process_rows, distribute, perimeter_distribute, remove_points_too_close (450 lines of float-steered trigonometric geometry with in-place aliasing) are NOT under a "
               "discharged contract; bounded run-time contract only",
               "domain of the bounded runs: the lot is at least two spacings wide in every direction (a narrower lot has no row and the tool divides by a zero row count - observation)"]
NOT_PROVED = ["termination, inside the outline, spacing, rectangle lattice, translation covariance of gen_borehole_config: bounded run-time contract on the real generator (CPU-time limit per call, "
              "non-terminating calls diagnosed from their frame); termination and translation covariance are violated on the unchanged tree (two known findings)",
              "perimeter-spacing variant (two_space_gen_bhc) and no-go zones: bounded runs of the thorough tier only"]
EXPLANATION = ("Proved for all inputs: the rotation sweeps field_optimization_fr / field_optimization_wp_space_fr, with the field generator abstract, terminate for a positive step (variant: remaining "
               "rotation), try exactly the rotations start + k step below the stop angle, and hand to the duplicate filter the field of the first tried rotation that has the most boreholes "
               "(loop invariant max_l = max over tried rotations, max_hole = that field); invalid rotation windows raise. Leaf geometry: sum_sq_dist / pts_dist are the squared / Euclidean distance, "
               "not_inside is 'in no no-go zone'. On the pinned tree RowWise at -90 degrees on a lot through the origin did not terminate (D9, fixed: sort key of intersections left of the y-axis).")
LEVEL_TEXT = ("Proof of the rotation sweep and of leaf helpers; the field generator itself is a bounded run-time contract on real convex lots - hence level 'other'.")
LEVEL_NOTE = "Trusted: pyvc, z3. Bounded: real gen_borehole_config / field_optimization_fr runs under a CPU-time limit (never counted as proved)."
