#!/usr/bin/env python3
"""tools/diff_cpython.py - differential check of the VC generator's semantics against CPython.

Each snippet below is a small function over the language subset the sidecars rely on (aliasing and in-place updates, and/or as values,
slices, integer division and modulo of negatives, loops with break/continue, try/except, numpy in-place arithmetic, ...).  For every
snippet and every argument tuple the function is (1) run by CPython and (2) executed by the generator on the same concrete arguments
(parameters of shape Const); the generator must then be able to discharge `result == <what CPython returned>` - and must REFUTE
`result == <something else>` (so that a vacuous pass cannot hide).  Run with ./.venv/bin/python tools/diff_cpython.py; exit 0 = no difference."""
import os
import sys
import tempfile
import textwrap

VERIF = os.path.dirname(os.path.dirname(os.path.abspath(__file__)))
sys.path.insert(0, VERIF)

SNIPPETS = '''
import numpy as np
from math import ceil, floor


def or_value(x, y):
    v = x or y
    return v + 1


def and_value(x, y):
    return (x and y) * 2


def list_imul_alias(n):
    a = [1, 2]
    b = a
    a *= n
    return len(b) * 10 + len(a)


def list_mul_rebind(n):
    a = [1, 2]
    b = a
    a = a * n
    return len(b) * 10 + len(a)


def list_iadd_alias(k):
    a = [1]
    b = a
    a += [k, k]
    return sum(b)


def np_inplace_alias(x):
    a = np.array([1.0, 2.0, 3.0])
    b = a
    a *= x
    return b[0] + b[2]


def np_rebind(x):
    a = np.array([1.0, 2.0, 3.0])
    b = a
    a = a * x
    return b[0] + b[2]


def np_asarray_alias(x):
    a = np.array([1.0, 2.0])
    b = np.asarray(a)
    b -= x
    return a[0] + a[1]


def np_asarray_of_list(x):
    a = [1.0, 2.0]
    b = np.asarray(a)
    b -= x
    return a[0] + a[1]


def floor_div_mod(a, b):
    return (a // b) * 1000 + (a % b)


def int_trunc(x):
    return int(x) * 100 + floor(x) * 10 + ceil(x)


def slices(k):
    a = [0, 1, 2, 3, 4, 5, 6]
    return sum(a[k:]) * 100 + sum(a[:k]) * 10 + len(a[1:k]) + a[-1]


def loop_break_continue(n):
    s = 0
    for i in range(n):
        if i % 2 == 0:
            continue
        if i > 6:
            break
        s += i
    return s


def while_loop(n):
    k, s = 0, 0
    while k < n:
        s += k * k
        k += 1
    return s


def try_except(i):
    a = [1, 2, 3]
    try:
        return a[i]
    except IndexError:
        return -1


def dict_ops(k):
    d = {"a": 1}
    d["b"] = k
    e = d
    e["a"] = 5
    return d["a"] * 10 + d["b"] + len(d)


def chained(x):
    if x is None:
        return 9
    return 1 if 0 < x <= 3 else (2 if x > 3 or x < -5 else 3)


def minmax_sorted(a, b, c):
    xs = [a, b, c]
    ys = sorted(xs)
    return ys[0] * 100 + max(xs) * 10 + xs.index(min(xs))


def nested_alias():
    inner = [1, 2]
    outer = [inner, inner]
    outer[0].append(3)
    return len(outer[1])


def tuple_unpack_swap(a, b):
    a, b = b, a + b
    return a * 10 + b


def enumerate_zip(k):
    s = 0
    for i, (u, v) in enumerate(zip([1, 2, 3], [k, k + 1, k + 2])):
        s += i * u * v
    return s


def str_upper(flag):
    s = "Coaxial" if flag else "singleUtube"
    return 1 if s.upper() == "COAXIAL" else 0


def default_arg_none(x=None):
    if x is None:
        x = [2019]
    return len(x) + x[0]


def aug_assign_attr():
    class_like = {"n": 1}
    class_like["n"] += 4
    return class_like["n"]


def neg_index_and_len(k):
    a = [10, 20, 30, 40]
    return a[-k] + len(a[:-k])


def float_int_mix(n):
    return n / 12.0 * 8760.0


def comprehension_filter(k):
    xs = [i * i for i in range(8) if i % k == 0]
    return sum(xs) * 10 + len(xs)


def sorted_key_reverse(a, b, c):
    pts = [(a, 1), (b, 2), (c, 3)]
    ys = sorted(pts, key=lambda p: p[0], reverse=True)
    return ys[0][1] * 100 + ys[1][1] * 10 + ys[2][1]


def hstack_diff(x):
    q = np.hstack((0.0, np.array([x, 2 * x, 5.0])))
    d = q[1:] - q[:-1]
    return d[0] * 100 + d[2] + len(d)


def arange_sum(n):
    t = np.arange(1, n + 1, 1)
    return t[0] * 100 + t[-1] + len(t)


def float_floor_div(x, y):
    return x // y


def abs_round_int(x):
    return abs(x) * 100 + int(abs(x))


def dict_iteration_order():
    d = {}
    d["b"] = 1
    d["a"] = 2
    d["b"] = 3
    ks = list(d.keys())
    return (1 if ks[0] == "b" else 2) * 10 + d["b"]


def list_copy_vs_alias():
    a = [1, 2, 3]
    b = list(a)
    c = a[:]
    a[0] = 9
    return b[0] * 100 + c[0] * 10 + a[0]


def pop_insert(k):
    a = [1, 2, 3, 4]
    x = a.pop(k)
    a.insert(0, x)
    return a[0] * 1000 + a[1] * 100 + a[2] * 10 + a[3]


def ternary_none_default(x):
    y = x if x is not None else 5
    return y * 2


def while_else_break(n):
    i = 0
    while True:
        i += 3
        if i > n:
            break
    return i


def bool_arith(a, b):
    return (a > b) + (a == b) * 10 + (not a < b) * 100
'''

CASES = {
    "or_value": [(0, 7), (3, 7), (0.0, 2.5), (2.0, 0)],
    "and_value": [(0, 7), (3, 7), (2.0, 0)],
    "list_imul_alias": [(2,), (3,)],
    "list_mul_rebind": [(2,), (3,)],
    "list_iadd_alias": [(5,)],
    "np_inplace_alias": [(2.0,), (-1.0,)],
    "np_rebind": [(2.0,)],
    "np_asarray_alias": [(0.5,)],
    "np_asarray_of_list": [(0.5,)],
    "floor_div_mod": [(7, 2), (-7, 2), (7, -2), (-7, -2)],
    "int_trunc": [(2.5,), (-2.5,), (3.0,)],
    "slices": [(0,), (3,), (7,), (9,)],
    "loop_break_continue": [(0,), (5,), (12,)],
    "while_loop": [(0,), (4,)],
    "try_except": [(0,), (2,), (3,), (-1,), (-4,)],
    "dict_ops": [(7,)],
    "chained": [(0,), (2,), (3,), (4,), (-7,), (None,)],
    "minmax_sorted": [(3, 1, 2), (1, 1, 0), (5, 7, 7)],
    "nested_alias": [()],
    "tuple_unpack_swap": [(1, 2)],
    "enumerate_zip": [(1,), (4,)],
    "str_upper": [(True,), (False,)],
    "default_arg_none": [()],
    "aug_assign_attr": [()],
    "neg_index_and_len": [(1,), (3,)],
    "float_int_mix": [(12,), (18,), (1,)],
    "comprehension_filter": [(2,), (3,)],
    "sorted_key_reverse": [(3, 1, 2), (1, 5, 5)],
    "hstack_diff": [(1.5,), (-2.0,)],
    "arange_sum": [(1,), (6,)],
    "float_floor_div": [(7.5, 2.0), (-7.5, 2.0)],
    "abs_round_int": [(-2.75,), (3.25,)],
    "dict_iteration_order": [()],
    "list_copy_vs_alias": [()],
    "pop_insert": [(0,), (2,), (-1,)],
    "ternary_none_default": [(None,), (4,)],
    "while_else_break": [(0,), (7,)],
    "bool_arith": [(1, 2), (2, 2), (3, 2)],
}


def _b(x):
    import z3

    return z3.BoolVal(x) if isinstance(x, bool) else x


def main():
    import importlib.util
    from fractions import Fraction

    import z3

    from pyvc import solve
    from pyvc.api import REG, Const, Real, contract
    from pyvc.engine import Exec
    from pyvc.program import Program

    tmp = tempfile.mkdtemp(prefix="diffcpy_")
    os.makedirs(os.path.join(tmp, "snip"))
    open(os.path.join(tmp, "snip", "__init__.py"), "w").close()
    open(os.path.join(tmp, "snip", "m.py"), "w").write(textwrap.dedent(SNIPPETS))
    spec = importlib.util.spec_from_file_location("snip_m", os.path.join(tmp, "snip", "m.py"))
    mod = importlib.util.module_from_spec(spec)
    spec.loader.exec_module(mod)
    import ast

    fnodes = {n.name: n for n in ast.parse(textwrap.dedent(SNIPPETS)).body if isinstance(n, ast.FunctionDef)}
    bad, total = [], 0
    for fn, cases in CASES.items():
        names = [a.arg for a in fnodes[fn].args.args]
        for k, args in enumerate(cases):
            want = getattr(mod, fn)(*args)
            wz = z3.RealVal(str(Fraction(want))) if isinstance(want, float) else want
            name = f"snip.m:{fn}#case{k}"
            contract(f"snip.m:{fn}", {n: Const(Fraction(a) if isinstance(a, float) else a) for n, a in zip(names, args)}, name=name,  # floats are exact rationals in the generator
                     ensures=[("equals-cpython", lambda E, wz=wz: _b(E.result == wz)), ("differs-from-cpython-plus-one", lambda E, wz=wz: _b(E.result == wz + 1))],
                     returns=Real, options={"no_frame_check": True}).applies = lambda env: False
            total += 1
            try:
                ex = Exec(Program(tmp), REG)
                obls = [o for o in ex.verify(name) if "/ensures/" in o.name]
                res = {r.obl.name.split("/")[-1]: r.status for r in solve.discharge(obls, ex.axioms, timeout_ms=5000, jobs=1)}
            except Exception as e:  # noqa: BLE001 - outside the subset: reported, not a difference
                print(f"  out of reach: {fn}{args}: {type(e).__name__}: {str(e)[:90]}")
                continue
            if res.get("equals-cpython") != "unsat" or res.get("differs-from-cpython-plus-one") == "unsat":
                bad.append((fn, args, want, res))
    import shutil

    shutil.rmtree(tmp, ignore_errors=True)
    for b in bad:
        print("DIFFERENCE", b)
    print(f"{total} cases, {len(bad)} differences")
    return 1 if bad else 0


if __name__ == "__main__":
    sys.exit(main())
