"""Run-time contract checks on the real, un-stubbed pipeline (witness synthesis for replays; bounded stand-ins).

Nothing here is counted as proved: every entry is a bounded check with a stated input family."""
import math

from pyvc.run import native

G = "ghedesigner.ground_heat_exchangers"


def synth_loads(kind, scale, phase=0, spike=0.0):
    """8760 hourly ground loads in W (extraction positive): seasonal + daily sinusoids, optional spikes."""
    out = []
    for h in range(8760):
        day = h // 24
        season = math.cos(2 * math.pi * (day - phase) / 365.0)  # +1 mid winter
        daily = 0.3 * math.sin(2 * math.pi * (h % 24) / 24.0)
        if kind == "heating":
            v = max(0.0, season + 0.2 + daily)
        elif kind == "cooling":
            v = -max(0.0, -season + 0.2 + daily)
        elif kind == "balanced":
            v = season + daily
        elif kind == "constant":
            v = 1.0
        else:
            v = season + daily
        out.append(v * scale)
    if spike:
        for m in range(12):
            out[(m * 730 + 37 * (m + 1)) % 8760] *= (1 + spike)
    return out


def build_manager(a):
    from ghedesigner.manager import GHEManager

    g = GHEManager()
    pipe = a.get("pipe", "single")
    if pipe == "single":
        g.set_single_u_tube_pipe(inner_diameter=0.03404, outer_diameter=0.04216, shank_spacing=0.01856, roughness=1.0e-6,
                                 conductivity=a.get("k_pipe", 0.4), rho_cp=1542000.0)
    elif pipe == "double_parallel":
        g.set_double_u_tube_pipe_parallel(inner_diameter=0.03404, outer_diameter=0.04216, shank_spacing=0.01856, roughness=1.0e-6,
                                          conductivity=0.4, rho_cp=1542000.0)
    elif pipe == "double_series":
        g.set_double_u_tube_pipe_series(inner_diameter=0.03404, outer_diameter=0.04216, shank_spacing=0.01856, roughness=1.0e-6,
                                        conductivity=0.4, rho_cp=1542000.0)
    else:
        g.set_coaxial_pipe(inner_pipe_d_in=0.0442, inner_pipe_d_out=0.050, outer_pipe_d_in=0.0974, outer_pipe_d_out=0.11,
                           roughness=1.0e-6, conductivity_inner=0.4, conductivity_outer=0.4, rho_cp=1542000.0)
    g.set_soil(conductivity=a.get("k_soil", 2.0), rho_cp=2343493.0, undisturbed_temp=a.get("ugt", 18.3))
    g.set_grout(conductivity=a.get("k_grout", 1.0), rho_cp=3901000.0)
    g.set_fluid()
    g.set_borehole(height=a.get("nominal_height", 96.0), buried_depth=2.0, diameter=0.140)
    g.set_simulation_parameters(num_months=a.get("months", 24), max_eft=35, min_eft=5, max_height=a.get("hmax", 135.0), min_height=a.get("hmin", 60.0),
                                max_boreholes=a.get("cap"), continue_if_design_unmet=a.get("cont", False))
    g.set_ground_loads_from_hourly_list(synth_loads(a.get("kind", "balanced"), a.get("scale", 2.0e4), a.get("phase", 0), a.get("spike", 0.0)))
    geom = a.get("geom", "near_square")
    if geom == "near_square":
        g.set_geometry_constraints_near_square(b=a.get("b", 6.0), length=a.get("length", 30.0))
    elif geom == "rectangle":
        g.set_geometry_constraints_rectangle(length=a.get("length", 30.0), width=a.get("width", 18.0), b_min=3.0, b_max=9.0)
    g.set_design(flow_rate=a.get("flow", 0.3), flow_type_str=a.get("flow_type", "borehole"))
    return g


def _design_check(a):
    """find_design on the real pipeline, then: height bounds, feasibility unless escaped, reported temperatures are
    those of the reported height (C12), summary consistency."""
    from ghedesigner.enums import TimestepType

    g = build_manager(a)
    try:
        g.find_design()
    except ValueError as e:
        return (not a.get("cont", False)), {"outcome": f"ValueError: {e}"}
    ghe = g._search.ghe
    H = ghe.bhe.b.H
    sp = ghe.sim_params
    if not sp.min_height - 1e-9 <= H <= sp.max_height + 1e-9:
        return False, {"why": "height outside the window", "H": H}
    rep_max, rep_min = max(ghe.hp_eft), min(ghe.hp_eft)
    mx, mn = ghe.simulate(method=TimestepType.HYBRID)
    if abs(mx - rep_max) > 1e-3 or abs(mn - rep_min) > 1e-3:
        return False, {"why": "reported EFT are not those of the reported height", "H": H, "reported": [rep_max, rep_min], "resimulated": [mx, mn]}
    excess = ghe.cost(mx, mn)
    if not a.get("cont", False) and excess > 1e-3:
        return False, {"why": "returned design exceeds the limits", "excess": excess, "H": H}
    for row in g._search.searchTracker:
        if abs(row[1] - max(row[2] - sp.max_EFT_allowable, sp.min_EFT_allowable - row[3])) > 1e-12:
            return False, {"why": "search-log row inconsistent", "row": row[1:]}
    # C12: the summary describes the returned design
    g.prepare_results("p", "n", "a", "i")
    od = g.results.output_dict
    nb = od["ghe_system"]["number_of_boreholes"]
    rows = g.results.borehole_location_data_rows
    if not (nb == len(rows) - 1 == len(g._search.selected_coordinates) if hasattr(g._search, "selected_coordinates") else nb == len(rows) - 1):
        return False, {"why": "number_of_boreholes differs from the coordinate rows", "nb": nb, "rows": len(rows) - 1}
    if [list(r) for r in rows[1:]] != [[c[0], c[1]] for c in ghe.gFunction.bore_locations]:
        return False, {"why": "bore-field table is not the selected field"}
    if abs(od["ghe_system"]["total_drilling"]["value"] - nb * H) > 1e-9 * nb * H or od["ghe_system"]["active_borehole_length"]["value"] != H:
        return False, {"why": "total drilling / active length inconsistent", "total": od["ghe_system"]["total_drilling"]["value"], "nb": nb, "H": H}
    sr = od["simulation_results"]
    if abs(sr["max_hp_eft"]["value"] - mx) > 1e-3 or abs(sr["min_hp_eft"]["value"] - mn) > 1e-3:
        return False, {"why": "summary EFT are not those of the reported height", "summary": [sr["max_hp_eft"]["value"], sr["min_hp_eft"]["value"]], "resimulated": [mx, mn]}
    if od["design_selection_search_log"]["data"] is not g._search.searchTracker:
        return False, {"why": "search log is not the search tracker"}
    return True, {"H": H, "nbh": ghe.nbh, "excess": excess}


def _design_gen(rng):
    kind = rng.choice(["heating", "cooling", "balanced", "constant"])
    scale = rng.choice([1.0e2, 5.0e3, 2.0e4, 6.0e4, 1.5e5, 1.0e6])
    return {"kind": kind, "scale": scale, "phase": rng.randrange(0, 365, 30), "cont": scale in (1.0e2, 1.0e6) or rng.random() < 0.3,
            "length": rng.choice([12.0, 24.0, 30.0]), "months": rng.choice([12, 18, 24, 36]), "flow_type": rng.choice(["borehole", "system"]),
            "geom": rng.choice(["near_square", "rectangle"])}


native(f"{G}:GHE.size", _design_check, _design_gen, None,
       bound="real GHEManager.find_design on synthetic profiles (4 shapes x 6 magnitudes from negligible to far beyond capacity), near-square/rectangle lots, 12..36 months")
