#!/bin/bash
# tools/seeded_run.sh <seeded-id> <property> [more properties...]: apply the seeded patch to /repo, run the checks, undo; record the outcome
id=$1; shift
cd /verif
[ -n "$(git -C /repo status --porcelain)" ] && { echo "/repo not clean"; exit 2; }
git -C /repo apply /verif/seeded/$id/patch.diff || exit 2
out=seeded/$id/check_output.txt; : > $out
PYTHONPATH=/repo /venv/bin/python seeded/$id/demo.py >/dev/null 2>&1; echo "demo.py exit with change applied: $?" >> $out
export VERIF_EVIDENCE_DIR=/verif/scratch/seeded_evidence
for p in "$@"; do echo "--- ./vcheck $p --tier quick" >> $out; ./vcheck $p --tier quick 2>&1 | grep -E "^\[|VIOLATION|UNDECIDED|KNOWN|FAULT" >> $out; echo "exit=${PIPESTATUS[0]}" >> $out; done
git -C /repo checkout -- .
PYTHONPATH=/repo /venv/bin/python seeded/$id/demo.py >/dev/null 2>&1; echo "demo.py exit on the unchanged tree: $?" >> $out
cat $out
