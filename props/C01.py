"""C01 - returned design keeps the entering fluid temperature within the limits."""
from contracts import search
from props.common import *  # noqa: F401,F403

from contracts import rowsearch  # noqa: E402

FUNCTIONS = SEARCH_FUNCS + DESIGN_FUNCS + [f"{S}:RowWiseModifiedBisectionSearch.calculate_excess", f"{G}:GHE.size#hourly"] + rowsearch.ROWSEARCH
NATIVE_FUNCTIONS = SEARCH_NATIVES
LEVEL = "proof"


def lemmas():
    return search.LEMMAS


ASSUMPTIONS = [A_REAL, A_ENGINE, A_DET, A_ORACLE,
               "A-BRENT: scipy.optimize.brentq returns r in the bracket with a sign change of f within 4*(xtol+rtol*|r|) of r (cross-checked natively on solve_root)",
               "A-NODE: evaluating the three-height g-function family at a stored height equals the single-height computation (hypothesis of the manager-level clause; C11 proves the interpolation part)",
               "A-HMONO: feasibility at the minimum height implies feasibility at the maximum height (hypothesis of the manager-level clause)",
               "A-LIP: |d excess / d height| <= 0.5 K/m on the sizing window and heights <= 400 m (hypothesis of lemma root-within-sizing-tolerance)",
               "RowWise search (contracts/rowsearch.py): fields are abstract references; FIELD(spacing) = the sweep's result for the search's fixed lot / zones / window (A-DET, at least one borehole ASSUMED); "
               "A-PERM: the excess of a field does not depend on the order of its boreholes (point_sort only reorders; nested helper used through an ASSUMED view); A-SINGLE: the excess of a "
               "one-borehole field does not depend on where the borehole stands (the search evaluates [[0,0]] and returns the last borehole of the sorted field); spacing_step > 0"]
NOT_PROVED = ["manager-level clause is proved for the near-square and rectangle designs; bi-rectangle / bi-zoned / constrained are proved at the level of their search classes (Bisection2D.__init__, BisectionZD.*)",
              "numerical tolerance 1e-3 K rests on A-BRENT + A-LIP (lemma), not on the floating-point code"]
EXPLANATION = ("Every search class is verified against the abstract oracle EX: on a normal return that did not use the continue-if-unmet escape the selected candidate "
               "has negative excess at maximum height (or the height window brackets a root for the one-borehole field), for candidate lists of every length and "
               "every sign pattern of the excess (loop invariants of the integer bisection and of the final selection, no unrolling). GHE.size / solve_root are verified "
               "against a model of brentq; GHEManager.find_design composes search -> compute_g_functions -> size and yields: excess(returned height) changes sign within the solver "
               "tolerance or the height is clamped at the minimum with negative excess. Counter-models are replayed on the real search()/search_successive() with a table-driven oracle.")
LEVEL_TEXT = ("Deductive proof over the abstract excess oracle (all loads, soils, pipes, fluids, limits are inside it): each bisection search returns a candidate that is feasible at "
              "maximum height unless the documented escape is taken, and find_design sizes it to a height where the excess changes sign within solver tolerance or clamps at the "
              "minimum height with negative excess; all candidate-list lengths, thresholds and sign patterns at once. The 1e-3 K figure is assumption-based (A-BRENT + A-LIP).")
LEVEL_NOTE = "Trusted: pyvc, z3/cvc5, brentq model (A-BRENT), A-NODE, A-HMONO, A-LIP, A-DET, A-PERM, A-SINGLE, A-REAL."
NATIVE_CASES = {"quick": 300, "thorough": 20000}
