"""C15 - the equivalent single U-tube preserves the exchanger's bulk properties."""
from contracts import equiv
from props.common import *  # noqa: F401,F403

B_ = "ghedesigner.borehole_heat_exchangers"
FUNCTIONS = [f"{B_}:MultipleUTube.u_tube_volumes", f"{B_}:CoaxialPipe.concentric_tube_volumes", f"{B_}:SingleUTube.to_single#identity",
             f"{U}:sign", f"{U}:check_bracket", f"{U}:solve_root"] + equiv.EQUIV_FUNCS
NATIVE_FUNCTIONS = [f"{B_}:GHEDesignerBoreholeWithMultiplePipes.equivalent_single_u_tube", f"{U}:solve_root"]
NATIVE_CASES = {"quick": 40, "thorough": 1500}
NATIVE_LIMIT_S = {"quick": 120, "thorough": 3000}
CASE_TIMEOUT = 100
LEVEL = "other"


def lemmas():
    return equiv.LEMMAS


ASSUMPTIONS = [A_REAL, A_ENGINE, "A-BRENT: scipy.optimize.brentq returns a point within 4*(xtol + rtol*|r|) of a sign change of the objective (solve_root's contract)",
               "log as an uninterpreted function (only log(r_out/r_in) appears, symbolically equal on both sides)",
               "ASSUMED caller views of the pygfunction-facing methods of the preliminary tube (no body in the repository or body calls pygfunction): SingleUTube.__init__ stores its arguments and ends "
               "coherent (R_fp = R_FP(r_in, r_out, k_pipe), delta-circuit built from grout.k and R_fp); calc_fluid_pipe_resistance recomputes R_fp from the pipe conductivity; "
               "calc_effective_borehole_resistance reads the stored delta-circuit (ghosts g_rd_kg / g_rd_rfp name what it was last built from); update_thermal_resistances rebuilds it from k_g and R_fp "
               "(taken from pygfunction's source); copy.deepcopy gives a fresh equal object graph; ln x > 0 for x > 1 (instantiated)",
               "preconditions that are solve_root's own (residuals nonzero at the bracket ends) are stated as preconditions of the conversion functions"]
NOT_PROVED = ["R_fp reproduced and R_b* within 0.1 %: pygfunction multipole numerics behind brentq - bounded run-time contract; R_b* clause is violated on the unchanged tree (known finding D16)"]
EXPLANATION = ("The bulk quantities handed to the conversion are proved to be the geometric ones: double U-tube n pi r_in^2 and n pi (r_out^2 - r_in^2) with n = 2 nPipes legs, "
               "pipe resistance ln(r_out/r_in)/(n 2 pi k); coaxial: core plus annulus, both walls, outer-wall resistance. A lemma shows the equal-volume radii sqrt(V/(2 pi)) reproduce "
               "both volumes exactly with r_out' > r_in'. SingleUTube.to_single returns the object itself. solve_root (the root helper of both matching steps) is proved against A-BRENT: "
               "bracketed root within tolerance, otherwise the bracket end on the side of the sign. equivalent_single_u_tube is proved (body, with the two deep copies, the closure-driven pipe-conductivity "
               "solve and the assumed pygfunction views) to build a tube with exactly the given fluid and pipe-wall volumes (2 pi r_in'^2 = V_f, 2 pi (r_out'^2 - r_in'^2) = V_p), the same flow, fluid, soil, "
               "roughness and pipe capacity, on *copies* of the borehole and grout (frame obligation: the original exchanger is untouched; the copy's radius only grows), with R_fp the one of its final pipe "
               "conductivity. MultipleUTube.to_single composes u_tube_volumes -> equivalent_single_u_tube -> match_effective_borehole_resistance: volumes per metre preserved. "
               "match_effective_borehole_resistance's clause 'the returned tube's delta-circuit is the one of its grout conductivity' is REFUTED on the unchanged tree (known finding D16; with the two "
               "missing update calls inserted it discharges). The real conversion is exercised at run time: volumes to 1e-9, R_fp to 1e-4, "
               "the original exchanger (radius, grout, pipe, R_b*) untouched, R_b* to 0.1 % - the last clause fails for every double-U / coaxial input (known finding D16: stale delta-circuit).")
LEVEL_TEXT = ("Proof of the leaf quantities, the equal-volume lemma, the identity case and the root helper; the conversion itself (pygfunction objects, two root solves) is a bounded run-time "
              "contract - hence level 'other'.")
LEVEL_NOTE = "Trusted: pyvc, z3, A-BRENT. Bounded: real exchangers over generated geometries (never counted as proved)."
