"""Value domain of the pyvc symbolic executor.

Concrete Python values stay concrete (int, bool, Fraction for every non-integer number, str, None,
tuple).  Symbolic scalars are z3 expressions (Int / Real / Bool sort).  Containers are small mutable
wrapper objects so that aliasing in the executed code is object identity in the executor.
"""
from __future__ import annotations

import itertools
from fractions import Fraction

import z3


class VCError(Exception):
    """The engine cannot handle something: the function is out of reach (never a violation)."""


class Unsupported(VCError):
    pass


_counter = itertools.count()


def uid(prefix="v"):
    return f"{prefix}!{next(_counter)}"


def reset_uids():
    global _counter
    _counter = itertools.count()


# --------------------------------------------------------------------------------------------
# scalars


class Inf:
    """float('inf') / float('-inf') as a concrete sentinel (only ordering is supported)."""

    def __init__(self, sign=1):
        self.sign = sign

    def __neg__(self):
        return Inf(-self.sign)

    def __repr__(self):
        return "inf" if self.sign > 0 else "-inf"

    def __eq__(self, other):
        return isinstance(other, Inf) and other.sign == self.sign

    def __hash__(self):
        return hash(("Inf", self.sign))


def is_z3(v):
    return isinstance(v, z3.ExprRef)


def is_conc_num(v):
    return isinstance(v, (int, Fraction)) and not isinstance(v, bool)


def is_num(v):
    return is_conc_num(v) or isinstance(v, bool) or (is_z3(v) and z3.is_arith(v))


def is_scalar(v):
    return isinstance(v, (int, Fraction, bool)) or (is_z3(v) and (z3.is_arith(v) or z3.is_bool(v)))


def frac_of_float(x: float) -> Fraction:
    """A float literal of the source is read as the decimal number written (A-REAL)."""
    if x != x or x in (float("inf"), float("-inf")):
        raise Unsupported("nan/inf literal")
    return Fraction(repr(x))


def to_z3(v):
    """Concrete or symbolic scalar -> z3 expression."""
    if is_z3(v):
        return v
    if isinstance(v, bool):
        return z3.BoolVal(v)
    if isinstance(v, int):
        return z3.IntVal(v)
    if isinstance(v, Fraction):
        if v.denominator == 1:
            return z3.RealVal(v.numerator)
        return z3.RealVal(f"{v.numerator}/{v.denominator}")
    if isinstance(v, float):
        return to_z3(frac_of_float(v))
    raise Unsupported(f"no z3 form for {type(v).__name__}: {v!r}")


def to_real(v):
    e = to_z3(v)
    if z3.is_bool(e):
        e = z3.If(e, z3.IntVal(1), z3.IntVal(0))
    if z3.is_int(e):
        return z3.ToReal(e)
    return e


def to_bool(v):
    """Python truthiness of a scalar as a z3 Bool or a Python bool."""
    if isinstance(v, bool):
        return v
    if v is None:
        return False
    if isinstance(v, (int, Fraction)):
        return v != 0
    if isinstance(v, str):
        return len(v) > 0
    if is_z3(v):
        if z3.is_bool(v):
            return v
        if z3.is_arith(v):
            return v != 0
    if isinstance(v, tuple):
        return len(v) > 0
    if isinstance(v, PyList):
        n = v.length()
        return (n != 0) if isinstance(n, int) else (n != 0)
    if isinstance(v, PyDict):
        return len(v.d) > 0
    if isinstance(v, (PyObj, Closure, FuncRef, BoundMethod)):
        return True
    raise Unsupported(f"truthiness of {type(v).__name__}")


def is_real_valued(v):
    return isinstance(v, Fraction) or (is_z3(v) and z3.is_real(v))


def is_int_valued(v):
    return (isinstance(v, int) and not isinstance(v, bool)) or (is_z3(v) and z3.is_int(v))


# --------------------------------------------------------------------------------------------
# containers


class Seq:
    """Functional sequence: a length (int or z3 Int) and a getter index -> value.

    `np` marks numpy-array semantics for arithmetic (element-wise) in the executor.
    """

    def __init__(self, length, get, np=False, tag=None):
        self.length = length
        self.get = get
        self.np = np
        self.tag = tag

    def conc_len(self):
        return self.length if isinstance(self.length, int) else None


class PyList:
    """A Python list / numpy array object.  `.v` is a Python list (concrete length) or a Seq."""

    def __init__(self, v, np=False):
        self.v = v
        self.np = np

    def is_conc(self):
        return isinstance(self.v, list)

    def length(self):
        return len(self.v) if isinstance(self.v, list) else self.v.length

    def get(self, i):
        """Element at a non-negative, in-range index (int or z3 Int)."""
        if isinstance(self.v, list):
            if isinstance(i, int):
                return self.v[i]
            return select_conc(self.v, i)
        return self.v.get(i)

    def as_seq(self) -> Seq:
        if isinstance(self.v, Seq):
            return self.v
        items = list(self.v)
        return Seq(len(items), lambda i, items=items: items[i] if isinstance(i, int) else select_conc(items, i), np=self.np)

    def copy(self):
        return PyList(list(self.v) if isinstance(self.v, list) else self.v, np=self.np)

    def __repr__(self):
        if isinstance(self.v, list):
            return f"PyList({self.v!r})"
        return f"PyList(Seq len={self.v.length})"


def ite_val(c, a, b):
    """If-then-else on arbitrary values (scalars, tuples)."""
    if isinstance(c, bool):
        return a if c else b
    if a is b:
        return a
    if isinstance(a, tuple) and isinstance(b, tuple) and len(a) == len(b):
        return tuple(ite_val(c, x, y) for x, y in zip(a, b))
    if isinstance(a, PyList) and isinstance(b, PyList) and a.is_conc() and b.is_conc() and len(a.v) == len(b.v):
        return PyList([ite_val(c, x, y) for x, y in zip(a.v, b.v)], np=a.np)
    if is_scalar(a) and is_scalar(b):
        if not is_z3(a) and not is_z3(b) and a == b and type(a) is type(b):
            return a
        za, zb = to_z3(a), to_z3(b)
        if z3.is_bool(za) != z3.is_bool(zb):
            raise Unsupported("ite of bool and number")
        if z3.is_arith(za) and za.sort() != zb.sort():
            za, zb = to_real(za), to_real(zb)
        return z3.If(c, za, zb)
    if a is None and b is None:
        return None
    if isinstance(a, str) and a == b:
        return a
    if isinstance(a, PyList) and isinstance(b, PyList):
        sa, sb = a.as_seq(), b.as_seq()
        la, lb = sa.length, sb.length
        ln = la if (isinstance(la, int) and isinstance(lb, int) and la == lb) else z3.If(c, to_z3(la), to_z3(lb))
        ka = sa.tag[1] if sa.tag and sa.tag[0] == "key" else None
        kb = sb.tag[1] if sb.tag and sb.tag[0] == "key" else None
        tag = ("key", z3.If(c, ka, kb)) if (ka is not None and kb is not None) else None
        return PyList(Seq(ln, lambda j: ite_val(c, sa.get(j), sb.get(j)), np=a.np, tag=tag), np=a.np)
    if isinstance(a, IntMap) and isinstance(b, IntMap):
        return IntMap(lambda k: z3.If(c, a.dom(k), b.dom(k)), lambda k: ite_val(c, a.val(k), b.val(k)),
                      z3.If(c, to_z3(a.n), to_z3(b.n)), lambda p: z3.If(c, a.key_at(p), b.key_at(p)), lambda k: z3.If(c, a.pos_of(k), b.pos_of(k)))
    if isinstance(a, Opaque) and isinstance(b, Opaque) and a.kind == b.kind and set(a.attrs) == set(b.attrs):
        return Opaque(a.kind, {k: ite_val(c, a.attrs[k], b.attrs[k]) for k in a.attrs})
    raise Unsupported(f"ite of {type(a).__name__} and {type(b).__name__}")


def select_conc(items, i):
    """items[i] for a concrete list and a symbolic in-range index."""
    if not items:
        raise Unsupported("select from empty list")
    out = items[-1]
    for k in range(len(items) - 2, -1, -1):
        out = ite_val(i == k, items[k], out)
    return out


class PyDict:
    """dict with concrete (hashable) keys, insertion ordered."""

    def __init__(self, d=None):
        self.d = dict(d or {})

    def copy(self):
        return PyDict(self.d)


class IntMap:
    """dict with symbolic int keys and scalar values: calculated_temperatures and friends.

    dom  : z3 function Int -> Bool   (as a Python callable over z3 ints)
    val  : callable Int -> value
    keys : Seq of the keys in insertion order (position <-> key facts are added as path constraints
           by the executor when the dict is listed).
    Represented functionally; a store creates a new closure layer.
    """

    def __init__(self, dom, val, n, key_at, pos_of):
        self.dom = dom  # k -> Bool
        self.val = val  # k -> value
        self.n = n  # number of keys (int or z3 Int)
        self.key_at = key_at  # p -> key   (0 <= p < n)
        self.pos_of = pos_of  # k -> position (valid when dom(k))

    def copy(self):
        return IntMap(self.dom, self.val, self.n, self.key_at, self.pos_of)


class PyObj:
    def __init__(self, cls, fields=None):
        self.cls = cls
        self.fields = dict(fields or {})

    def __repr__(self):
        return f"<{self.cls} obj>"


class Opaque:
    """An opaque value (e.g. a borehole field, a string descriptor) with a few observable attributes."""

    def __init__(self, kind, attrs=None):
        self.kind = kind
        self.attrs = dict(attrs or {})

    def __repr__(self):
        return f"<opaque {self.kind} {self.attrs}>"


class SliceVal:
    """a[lo:hi] as a value (only inside tuple subscripts of two-dimensional arrays and in slice stores)"""

    def __init__(self, lo, hi):
        self.lo, self.hi = lo, hi

    def full(self):
        return self.lo is None and self.hi is None


class EnumVal:
    def __init__(self, cls, name, value):
        self.cls, self.name, self.value = cls, name, value

    def __eq__(self, other):
        return isinstance(other, EnumVal) and (self.cls, self.name) == (other.cls, other.name)

    def __hash__(self):
        return hash((self.cls, self.name))

    def __repr__(self):
        return f"{self.cls}.{self.name}"


class FuncRef:
    def __init__(self, qual):
        self.qual = qual  # "module:qualname"

    def __repr__(self):
        return f"<func {self.qual}>"


class BoundMethod:
    def __init__(self, obj, qual):
        self.obj, self.qual = obj, qual


class Closure:
    def __init__(self, node, env, module):
        self.node, self.env, self.module = node, env, module


class Builtin:
    def __init__(self, name):
        self.name = name

    def __repr__(self):
        return f"<builtin {self.name}>"


class ModuleRef:
    def __init__(self, name):
        self.name = name


class ClassRef:
    def __init__(self, module, name):
        self.module, self.name = module, name


class UFun:
    """An uninterpreted callable value (e.g. an objective function parameter, an interp1d object)."""

    def __init__(self, name, fn, attrs=None, on_call=None):
        self.name = name
        self.fn = fn  # python callable over z3 values
        self.attrs = dict(attrs or {})
        self.on_call = on_call


# --------------------------------------------------------------------------------------------
# shapes: how to build fresh symbolic values


class Shape:
    pass


class _Scalar(Shape):
    def __init__(self, sort):
        self.sort = sort

    def __repr__(self):
        return self.sort


Int = _Scalar("Int")
Real = _Scalar("Real")
Bool = _Scalar("Bool")


class NoneT(Shape):
    pass


class Const(Shape):
    def __init__(self, value):
        self.value = value


class TupleOf(Shape):
    def __init__(self, *elems):
        self.elems = elems


class FixedList(Shape):
    """Python list of concrete length n (elem: one shape for all positions, or a list of per-position shapes)."""

    def __init__(self, elem, n=None, np=False):
        if isinstance(elem, (list, tuple)):
            self.elems = list(elem)
            n = len(self.elems)
        else:
            self.elems = [elem] * n
        self.elem, self.n, self.np = (self.elems[0] if self.elems else None), n, np


class ListOf(Shape):
    """list with symbolic length (len >= minlen)."""

    def __init__(self, elem, np=False, minlen=0, length=None):
        self.elem, self.np, self.minlen, self.length = elem, np, minlen, length


class ObjOf(Shape):
    def __init__(self, cls, **fields):
        self.cls, self.fields = cls, fields


class OpaqueOf(Shape):
    def __init__(self, kind, **attrs):
        self.kind, self.attrs = kind, attrs


class DictOf(Shape):
    """dict with exactly the given (string) keys, in this order; values of the given shapes."""

    def __init__(self, **entries):
        self.entries = entries


class IntMapOf(Shape):
    def __init__(self, val=Real):
        self.val = val


class EmptyMap(Shape):
    """An empty dict that will receive int keys (calculated_temperatures = {})."""

    def __init__(self, val=None):
        self.val = val


class FnOf(Shape):
    """Uninterpreted pure function of `arity` real arguments returning a real."""

    def __init__(self, arity=1, ret=Real, args=None, track=None):
        self.arity, self.ret, self.args, self.track = arity, ret, args, track


class AliasOf(Shape):
    """Frame entry: the field becomes (a reference to) an existing object, e.g. a constructor argument."""

    def __init__(self, fn):
        self.fn = fn


class Same(Shape):
    """Placeholder: keep the current value (no havoc)."""


def z3sort(s):
    return {"Int": z3.IntSort(), "Real": z3.RealSort(), "Bool": z3.BoolSort()}[s]


_ALIAS_ENV = [None]


def fresh(shape, name, wf, env=None):
    """Fresh symbolic value of `shape`; well-formedness constraints are appended to `wf`.
    `env` (raw parameter environment) resolves AliasOf entries."""
    if env is not None:
        _ALIAS_ENV.append(env)
        try:
            return fresh(shape, name, wf)
        finally:
            _ALIAS_ENV.pop()
    if isinstance(shape, AliasOf):
        return shape.fn(_ALIAS_ENV[-1])
    if isinstance(shape, _Scalar):
        return z3.Const(uid(name), z3sort(shape.sort))
    if isinstance(shape, NoneT):
        return None
    if isinstance(shape, Const):
        return shape.value
    if isinstance(shape, TupleOf):
        return tuple(fresh(e, f"{name}.{k}", wf) for k, e in enumerate(shape.elems))
    if isinstance(shape, FixedList):
        return PyList([fresh(shape.elems[k], f"{name}[{k}]", wf) for k in range(shape.n)], np=shape.np)
    if isinstance(shape, ListOf):
        n = shape.length if shape.length is not None else z3.Int(uid(name + ".len"))
        if shape.length is None:
            wf.append(n >= shape.minlen)
        get = fresh_getter(shape.elem, name, wf)
        return PyList(Seq(n, get, np=shape.np, tag=("key", z3.Int(uid(name + ".key")))), np=shape.np)
    if isinstance(shape, ObjOf):
        return PyObj(shape.cls, {k: fresh(s, f"{name}.{k}", wf) for k, s in shape.fields.items()})
    if isinstance(shape, DictOf):
        return PyDict({k: fresh(v, f"{name}[{k}]", wf) for k, v in shape.entries.items()})
    if isinstance(shape, OpaqueOf):
        return Opaque(shape.kind, {k: fresh(s, f"{name}.{k}", wf) for k, s in shape.attrs.items()})
    if isinstance(shape, IntMapOf):
        dom = z3.Function(uid(name + ".dom"), z3.IntSort(), z3.BoolSort())
        val = fresh_getter(shape.val, name + ".val", wf)
        n = z3.Int(uid(name + ".n"))
        wf.append(n >= 0)
        key_at = z3.Function(uid(name + ".key"), z3.IntSort(), z3.IntSort())
        pos_of = z3.Function(uid(name + ".pos"), z3.IntSort(), z3.IntSort())
        return IntMap(lambda k: dom(k), val, n, lambda p: key_at(p), lambda k: pos_of(k))
    if isinstance(shape, EmptyMap):
        val = fresh_getter(shape.val or Real, name + ".val", wf)
        return IntMap(lambda k: z3.BoolVal(False), val, 0, lambda p: z3.IntVal(-1), lambda k: z3.IntVal(-1))
    if isinstance(shape, FnOf):
        args = shape.args or [Real] * shape.arity
        if not args:
            cst = z3.Const(uid(name), z3sort(shape.ret.sort))
            return UFun(name, lambda: cst)
        f = z3.Function(uid(name), *[z3sort(a.sort) for a in args], z3sort(shape.ret.sort))
        on_call = None
        if shape.track:
            def on_call(ex, st, a, node, key=shape.track):
                st.env[key] = a[0]
        return UFun(name, lambda *a: f(*[coerce(x, s) for x, s in zip(a, args)]), on_call=on_call)
    raise Unsupported(f"fresh: shape {shape!r}")


def coerce(v, shape):
    e = to_z3(v)
    if shape.sort == "Real":
        return to_real(e)
    return e


def fresh_getter(elem, name, wf):
    """Getter index -> fresh element of shape `elem`, realised by uninterpreted functions of the index."""
    f = fresh_fn(elem, name, 1, wf)
    return lambda i: f(i)


def fresh_fn(elem, name, nidx, wf):
    """callable(*indices) -> value of shape `elem`; every leaf is an uninterpreted function of the indices
    (nested lists add one index per level)."""
    isorts = [z3.IntSort()] * nidx
    if isinstance(elem, _Scalar):
        f = z3.Function(uid(name + ".at"), *isorts, z3sort(elem.sort))
        return lambda *i: f(*[to_z3(x) for x in i])
    if isinstance(elem, TupleOf):
        gs = [fresh_fn(e, f"{name}.{k}", nidx, wf) for k, e in enumerate(elem.elems)]
        return lambda *i: tuple(g(*i) for g in gs)
    if isinstance(elem, FixedList):
        gs = [fresh_fn(elem.elems[k], f"{name}.{k}", nidx, wf) for k in range(elem.n)]
        return lambda *i: PyList([g(*i) for g in gs], np=elem.np)
    if isinstance(elem, OpaqueOf):
        gs = {k: fresh_fn(s, f"{name}.{k}", nidx, wf) for k, s in elem.attrs.items()}
        return lambda *i: Opaque(elem.kind, {k: g(*i) for k, g in gs.items()})
    if isinstance(elem, ObjOf):
        gs = {k: fresh_fn(s, f"{name}.{k}", nidx, wf) for k, s in elem.fields.items()}
        return lambda *i: PyObj(elem.cls, {k: g(*i) for k, g in gs.items()})
    if isinstance(elem, Const):
        return lambda *i: elem.value
    if isinstance(elem, FnOf):
        args = elem.args or [Real] * elem.arity
        f = z3.Function(uid(name + ".fn"), *isorts, *[z3sort(a.sort) for a in args], z3sort(elem.ret.sort))
        return lambda *i: UFun(name, lambda *a: f(*[to_z3(x) for x in i], *[coerce(x, s_) for x, s_ in zip(a, args)]))
    if isinstance(elem, NoneT):
        return lambda *i: None
    if isinstance(elem, IntMapOf):
        dom = z3.Function(uid(name + ".dom"), *isorts, z3.IntSort(), z3.BoolSort())
        valf = fresh_fn(elem.val, name + ".val", nidx + 1, wf)
        nf = z3.Function(uid(name + ".n"), *isorts, z3.IntSort())
        key_at = z3.Function(uid(name + ".key"), *isorts, z3.IntSort(), z3.IntSort())
        pos_of = z3.Function(uid(name + ".pos"), *isorts, z3.IntSort(), z3.IntSort())
        vs = [z3.Int(uid("w")) for _ in range(nidx)]
        wf.append(z3.ForAll(vs, nf(*vs) >= 0, patterns=[nf(*vs)]))

        def mk(*i):
            iz = [to_z3(x) for x in i]
            return IntMap(lambda k: dom(*iz, to_z3(k)), lambda k: valf(*iz, to_z3(k)), nf(*iz), lambda p: key_at(*iz, to_z3(p)), lambda k: pos_of(*iz, to_z3(k)))

        return mk
    if isinstance(elem, ListOf):
        if elem.length is not None:
            lenf = lambda *i: elem.length  # noqa: E731
        else:
            lf = z3.Function(uid(name + ".len"), *isorts, z3.IntSort())
            lenf = lambda *i: lf(*[to_z3(x) for x in i])  # noqa: E731
            # lengths are non-negative (and >= minlen) for every index: a well-formedness axiom
            vs = [z3.Int(uid("w")) for _ in range(nidx)]
            wf.append(z3.ForAll(vs, lf(*vs) >= elem.minlen, patterns=[lf(*vs)]))
        inner = fresh_fn(elem.elem, name + ".e", nidx + 1, wf)
        keyf = z3.Function(uid(name + ".key"), *isorts, z3.IntSort())  # identity of the inner list as a value
        return lambda *i: PyList(Seq(lenf(*i), lambda j, i=i: inner(*i, j), np=elem.np, tag=("key", keyf(*[to_z3(x) for x in i]))), np=elem.np)
    raise Unsupported(f"fresh_fn: {elem!r}")


def shape_of(v):
    """Infer a shape from a current value (used for loop havoc)."""
    if isinstance(v, bool):
        return Bool
    if isinstance(v, int):
        return Int
    if isinstance(v, Fraction):
        return Real
    if is_z3(v):
        if z3.is_bool(v):
            return Bool
        return Int if z3.is_int(v) else Real
    if v is None:
        return NoneT()
    if isinstance(v, tuple):
        return TupleOf(*[shape_of(x) for x in v])
    if isinstance(v, PyList):
        if v.is_conc():
            if not v.v:
                raise Unsupported("cannot infer element shape of an empty list (give havoc shape in the sidecar)")
            return ListOf(shape_of(v.v[0]), np=v.np)
        n = v.v.length
        if isinstance(n, int) and n == 0:
            raise Unsupported("cannot infer element shape of an empty list")
        return ListOf(shape_of(v.v.get(z3.IntVal(0))), np=v.np)
    if isinstance(v, Opaque):
        return OpaqueOf(v.kind, **{k: shape_of(x) for k, x in v.attrs.items()})
    if isinstance(v, IntMap):
        return IntMapOf(Real)
    if isinstance(v, (str, EnumVal, Inf)):
        return Const(v)
    raise Unsupported(f"shape_of {type(v).__name__}")
