"""C11 - combined g-function is well formed and interpolation-consistent."""
from contracts import gfunc
from props.common import *  # noqa: F401,F403

GF = "ghedesigner.gfunction"
FUNCTIONS = [f"{G}:BaseGHE.combine_sts_lts", f"{GF}:GFunction.borehole_radius_correction", f"{GF}:GFunction.borehole_radius_correction#array-input", f"{G}:BaseGHE.grab_g_function#body", f"{G}:BaseGHE.compute_g_functions#body",
             "ghedesigner.output:OutputManager.get_g_function_data"]
NATIVE_FUNCTIONS = [f"{G}:BaseGHE.combine_sts_lts", f"{GF}:GFunction.g_function_interpolation", f"{GF}:calculate_g_function"]
NATIVE_CASES = {"quick": 12, "thorough": 400}
NATIVE_LIMIT_S = {"quick": 60, "thorough": 1500}
CASE_TIMEOUT = 200
LEVEL = "other"


def lemmas():
    return gfunc.LEMMAS


ASSUMPTIONS = [A_REAL, A_ENGINE, A_DET, "scipy.interpolate.interp1d model: object with .x/.y = the data, f(x_k) = y_k at the nodes (A-NODE)",
               "A-LOG: log(xy) = log x + log y for positive x, y (hypothesis of the additivity lemma); log 1 = 0",
               "g_function_interpolation is used through a caller view (one value per long-time point; curve G_LTS(B/H, k) and stored radius RB_LIB(B/H) are functions of B/H for the GHE's fixed family - A-DET); "
               "its body (dict keyed by float heights, scipy interpolants) is out of the engine's reach: the stored-height clause is a bounded run-time contract"]
NOT_PROVED = ["'interpolating the long-time family at a stored height returns the stored curve': bounded run-time contract on real GFunction objects (1..5 heights in arbitrary storage order, fresh and cached tables)",
              "UHTR curve = analytical FLS superposition within 1e-4 (1e-6 single) and MIFT within 20 %: numerical output of pygfunction - bounded run-time check against a scipy-quadrature FLS evaluator"]
EXPLANATION = ("combine_sts_lts proved for all strictly increasing axes: the result axis is the short-time prefix strictly below the first long-time point followed by the long-time axis, "
               "values likewise, hence strictly increasing (while-loop invariant + variant; this failed on the pinned tree for a short-time point equal to the first long-time point - D13, fixed). "
               "borehole_radius_correction: out[k] = g[k] - log(rb*/rb) for lists of any length; lemmas: identity for equal radii, additivity in the log ratio. grab_g_function: composition - "
               "the curve used in simulation has a strictly increasing axis, reproduces the radius-corrected long-time values on the long-time points and the short-time values before them; "
               "get_g_function_data rows are exactly that curve.")
LEVEL_TEXT = ("Proof of the join, the radius correction and their composition for all inputs; the analytical-FLS anchor and the stored-height interpolation clause are bounded / assumption-based, "
              "hence level 'other'.")
LEVEL_NOTE = "Trusted: pyvc, z3, A-REAL, interp1d model, A-LOG. Bounded: FLS comparison on 1..12 boreholes (never counted as proved)."
