"""C18 - command-line exit status and validation verdict reflect the outcome."""
from contracts import cli
from props.common import *  # noqa: F401,F403

from contracts import inputs  # noqa: E402

FUNCTIONS = [f"{M}:run_manager_from_cli"] + cli.STATUS + ["ghedesigner.validate:validate_input_file#body"] + inputs.NAME_SETTERS + [inputs.WORKER[-1], inputs.WORKER[0]] + cli.OUTPUT_METHODS + cli.VALIDATORS
NATIVE_FUNCTIONS = [f"{M}:run_manager_from_cli"]
NATIVE_CASES = {"quick": 22, "thorough": 400}
NATIVE_LIMIT_S = {"quick": 120, "thorough": 3000}
CASE_TIMEOUT = 300
LEVEL = "other"
ASSUMPTIONS = [A_ENGINE,
               "A-CLICK: click (standalone mode) turns SystemExit(status) raised by the callback into the process exit status and an uncaught exception into exit status 1",
               "validate_input_file uses the section validators through caller views (0 or 1 per section); their bodies are verified separately against the ASSUMED model of jsonschema.validate "
               "(raises ValidationError exactly when the instance does not satisfy the schema); the schema files themselves are exercised by the bounded run-time contract only",
               "_run_manager_from_cli_worker is used through a caller view (status 0 or 1; invalid input refused) in the status logic; its body is verified separately (refuses an invalid file with "
               "status 1 before loading; returns 0 only after write_output_files) for the file shapes listed under C17"]
NOT_PROVED = ["schema semantics (what jsonschema.validate accepts for a given schema file; e.g. that the draft-04 validator ignores `const`): bounded run-time contract through the real entry point. "
              "The validators themselves are under contract: validate_schema_instance returns 0 exactly when jsonschema accepts and 1 otherwise; every section validator returns the verdict of "
              "its own schema file; names are upper-cased first (three spellings each of the pipe arrangements and design methods, of fluid / flow-type / time-step names) and unknown "
              "arrangement / method names are refused with 1 - for the spellings listed (a finite sample of an infinite set of strings)",
              "'exits zero only when the output files were written' for full runs: the worker returns 0 only after prepare_results and write_output_files returned normally (verified body), and each of "
              "them returns normally only with a design / with results (verified bodies; OutputManager(None, ...) raising AttributeError is Python semantics, assumed); that write_all_output_files "
              "writes every file when it returns normally is checked by the bounded runs (files inspected), as are inputs that pass the schemas but cannot be designed for (no load list, empty list)"]
EXPLANATION = ("The status logic is proved for all flag combinations (6 variants: --convert absent/IDF/other x output directory absent/given, validate-only symbolic): exit status 0 only if "
               "(validate-only and zero validation errors) or (IDF conversion) or (a run whose worker returned 0); validation errors give non-zero; unsupported --convert gives 1; missing "
               "output directory gives 1; the click callback always leaves through exit(status). validate_input_file returns 0 exactly when all nine section verdicts are 0. "
               "GHEManager.prepare_results / write_output_files return normally only with a design / with results to write (so a run whose search produced nothing cannot reach 'return 0'). "
               "On the pinned tree the callback returned its status to click, which discards it (defects D1, D2, fixed): the bounded runs reproduce exit 0 on invalid input there.")
LEVEL_TEXT = ("Proof of the exit-status logic and of the aggregation of the section verdicts; the schema semantics, case-insensitivity and the worker are covered by bounded runs of the real "
              "command line over single-field corruptions - hence level 'other'.")
LEVEL_NOTE = "Trusted: pyvc, z3, A-CLICK. Bounded: subprocess runs of the real entry point (never counted as proved)."
