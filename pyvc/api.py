"""What a sidecar contract file imports."""
from fractions import Fraction

import z3
from z3 import And, Exists, ForAll, If, Implies, Int as ZInt, IntVal, Not, Or, Real as ZReal, RealVal, ToInt, ToReal

from .engine import MULF, Contract, LoopSpec, Registry
from .values import (AliasOf, Bool, Const, DictOf, EmptyMap, FixedList, FnOf, Int, IntMapOf, ListOf, NoneT, ObjOf, OpaqueOf, Real, Same, TupleOf,
                     to_real, to_z3, uid)

REG = Registry()


def contract(qual, params, defs=(), ensures_caller=None, options=None, **kw):
    c = REG.add(Contract(qual, params, **kw))
    c.options = dict(options or {})
    c.defs = list(defs)
    c.ensures_caller = ensures_caller
    return c


def R(x):
    """Exact real constant from a decimal string / int / Fraction."""
    if isinstance(x, str):
        return RealVal(x)
    return to_real(x)


def iff(a, b):
    return a == b


def forall(n, body, lo=None, hi=None, name="q", pats=None):
    """ForAll over integer(s): body is a lambda of n z3 Int variables."""
    vs = [ZInt(uid(name)) for _ in range(n)] if isinstance(n, int) else n
    b = body(*vs)
    if isinstance(b, bool):
        b = z3.BoolVal(b)
    if pats:
        from .libmodels import legal_pattern

        ps = [p for p in pats(*vs) if legal_pattern(p, vs)]
        if ps:
            try:
                return ForAll(vs, b, patterns=ps)
            except z3.Z3Exception:
                pass  # not a legal trigger in this state: let z3 choose
    return ForAll(vs, b)


def exists(n, body, name="e"):
    vs = [ZInt(uid(name)) for _ in range(n)]
    b = body(*vs)
    return Exists(vs, b)


def mul(a, b):
    """The abstracted product used by functions verified with options={'abstract_mul': True}."""
    return MULF(to_real(a), to_real(b))


def writes(*paths):
    """Frame entries by path string, for contracts whose body is verified (no shape: not usable to havoc at a call site):
    "self._grout"        the attribute _grout of the object self
    "self.bhe.b.H"       nested attribute
    "self.monthly_cl[]"  the list (or map) object itself, mutated in place
    "self.*"             every attribute of the object (constructors)"""
    out = []
    for p in paths:
        in_place = p.endswith("[]")
        parts = (p[:-2] if in_place else p).split(".")

        def fn(P, parts=parts, in_place=in_place):
            o = getattr(P, parts[0])
            inner = parts[1:] if in_place else parts[1:-1]
            for k in inner:
                o = o.fields[k]
            return o if in_place else (o, parts[-1])

        out.append((fn, Same()))
    return out
