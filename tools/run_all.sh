#!/bin/bash
# tools/run_all.sh [jobs] [tier] -- every claimed check on /repo's working tree, baselines rewritten (VERIF_WRITE_BASELINE=1); prints one line per property with its exit status
cd "$(dirname "$0")/.."
J=${1:-3}; T=${2:-quick}
./vcheck setup >/dev/null
mkdir -p scratch/run_all
for p in C13 C01 C02 C05 C12 C09 C04 C15 C10 C11 C14 C03 C06 C07 C08 C16 C17 C18 C19 C20; do echo $p; done | xargs -P "$J" -I{} sh -c "VERIF_WRITE_BASELINE=1 ./vcheck {} --tier $T > scratch/run_all/{}.log 2>&1; echo {} exit=\$?"
grep -l -E "^VIOLATION|CHECKER-FAULT|NO-VERDICT" scratch/run_all/*.log
