"""Contracts for ghedesigner/ground_heat_exchangers.py: cost, size, simulate (caller view), compute_g_functions."""
import z3

from pyvc.api import *
from pyvc.run import native
from pyvc.values import EnumVal

G = "ghedesigner.ground_heat_exchangers"
HYBRID = EnumVal("TimestepType", "HYBRID", 2)
HOURLY = EnumVal("TimestepType", "HOURLY", 1)

# OBJ(cfg, h): excess temperature max(maxEFT - Tmax, Tmin - minEFT) of simulating the configuration `cfg`
# (field, loads, hybrid loads, g-function family: everything except the borehole height) at height h.
OBJ = z3.Function("OBJ", z3.IntSort(), z3.RealSort(), z3.RealSort())
CFG3 = z3.Function("CFG3", z3.IntSort(), z3.IntSort())  # configuration after compute_g_functions (3-height family)


def SimP(cap=NoneT()):
    return ObjOf("ghedesigner.simulation:SimulationParameters", max_height=Real, min_height=Real, max_boreholes=cap,
                 continue_if_design_unmet=Bool, max_EFT_allowable=Real, min_EFT_allowable=Real, start_month=Int, end_month=Int)


def GHEsize():
    return ObjOf(f"{G}:GHE", g_cfg=Int, g_Hsim=Real, sim_params=SimP(),
                 bhe=ObjOf("bhe", b=ObjOf("borehole", H=Real)))


def cost_value(E, mx, mn):
    a = mx - E.self.sim_params.max_EFT_allowable
    b = E.self.sim_params.min_EFT_allowable - mn
    return If(a >= b, a, b)


contract(f"{G}:BaseGHE.cost", dict(self=ObjOf(f"{G}:GHE", sim_params=SimP()), max_eft=Real, min_eft=Real),
         ensures=[("excess-is-max-of-over-and-under", lambda E: E.result == cost_value(E, E.max_eft, E.min_eft))],
         returns=Real)

# caller view of simulate (its body is verified against the superposition formula in C09)
OBJH = z3.Function("OBJ_HOURLY", z3.IntSort(), z3.RealSort(), z3.RealSort())  # the same for the hourly time-step method


def _is_method(env, name):
    m = env.get("method")
    return getattr(m, "name", None) == name


for _mn, _mv, _objf in (("hybrid", HYBRID, OBJ), ("hourly", HOURLY, OBJH)):
    contract(f"{G}:GHE.simulate", dict(self=GHEsize(), method=Const(_mv)), name=f"{G}:GHE.simulate#caller-{_mn}",
             ensures=[("excess-of-result", (lambda E, _objf=_objf: cost_value(E, E.result[0], E.result[1]) == _objf(E.self.g_cfg, E.self.bhe.b.H))),
                      ("simulated-height", lambda E: E.self.g_Hsim == E.self.bhe.b.H),
                      ("frame", lambda E: And(E.self.g_cfg == E.old.self.g_cfg, E.self.bhe.b.H == E.old.self.bhe.b.H))],
             assigns=[(lambda P: (P.self, "g_Hsim"), Real)],
             returns=TupleOf(Real, Real), inline=False).applies = (
                 # the hourly view only where the method is literally HOURLY; everywhere else (HYBRID, or the search object's own symbolic `self.method`) OBJ stands for
                 # "the excess under the method this object is configured with"
                 lambda env, _mn=_mn: _is_method(env, "HOURLY") if _mn == "hourly" else not _is_method(env, "HOURLY"))

contract(f"{G}:BaseGHE.compute_g_functions", dict(self=GHEsize()),
         ensures=[("family-of-three-heights", lambda E: E.self.g_cfg == CFG3(E.old.self.g_cfg))],
         assigns=[(lambda P: (P.self, "g_cfg"), Int)],
         returns=NoneT())


def _f(E, objf=None):
    cfg = E.old.self.g_cfg if E.old is not None else E.self.g_cfg
    return lambda h: (objf if objf is not None else OBJ)(cfg, h)


def _size_clauses(E, objf=None):
    from contracts.utilities import _delta, _near_sign_change

    lo, hi = E.self.sim_params.min_height, E.self.sim_params.max_height
    F = _f(E, objf)
    H = E.self.bhe.b.H
    fl, fh = F(lo), F(hi)
    differ = Or(And(fl < 0, fh > 0), And(fl > 0, fh < 0))
    tol = R("1/1000000")
    return [
        ("height-within-bounds", And(lo <= H, H <= hi)),
        ("root-unless-clamped", Implies(differ, _near_sign_change(F, H, lo, hi, tol, tol))),
        ("min-height-when-oversized-everywhere", Implies(And(fl < 0, fh < 0), H == lo)),
        ("max-height-when-undersized-everywhere", Implies(And(fl > 0, fh > 0), H == hi)),
        ("configuration-unchanged", E.self.g_cfg == E.old.self.g_cfg),
        # C12: the temperatures left on the object are those of a simulation at g_Hsim; how far is that from H?
        ("simulated-height-near-returned-height",
         And(E.self.g_Hsim - H <= _delta(H, tol, tol), H - E.self.g_Hsim <= _delta(H, tol, tol))),
    ]


contract(f"{G}:GHE.size", dict(self=GHEsize(), method=Const(HYBRID)),
         requires=[("height-window", lambda E: E.self.sim_params.min_height < E.self.sim_params.max_height),
                   ("non-degenerate-ends", lambda E: And(OBJ(E.self.g_cfg, E.self.sim_params.min_height) != 0,
                                                         OBJ(E.self.g_cfg, E.self.sim_params.max_height) != 0))],
         ensures=[(n, (lambda E, n=n: dict(_size_clauses(E))[n])) for n in
                  ("height-within-bounds", "root-unless-clamped", "min-height-when-oversized-everywhere",
                   "max-height-when-undersized-everywhere", "configuration-unchanged", "simulated-height-near-returned-height")],
         assigns=[(lambda P: (P.self, "g_Hsim"), Real), (lambda P: (P.self.fields["bhe"].fields["b"], "H"), Real)],
         returns=NoneT())

# the same contract for the hourly method (DesignBase recommends it as a second stage): the root is a root of the *hourly* excess
contract(f"{G}:GHE.size", dict(self=GHEsize(), method=Const(HOURLY)), name=f"{G}:GHE.size#hourly",
         requires=[("height-window", lambda E: E.self.sim_params.min_height < E.self.sim_params.max_height),
                   ("non-degenerate-ends", lambda E: And(OBJH(E.self.g_cfg, E.self.sim_params.min_height) != 0,
                                                         OBJH(E.self.g_cfg, E.self.sim_params.max_height) != 0))],
         ensures=[(n, (lambda E, n=n: dict(_size_clauses(E, OBJH))[n])) for n in
                  ("height-within-bounds", "root-unless-clamped", "min-height-when-oversized-everywhere",
                   "max-height-when-undersized-everywhere", "configuration-unchanged", "simulated-height-near-returned-height")],
         assigns=[(lambda P: (P.self, "g_Hsim"), Real), (lambda P: (P.self.fields["bhe"].fields["b"], "H"), Real)],
         returns=NoneT()).applies = lambda env: False


# ---- run-time form of the cost function: limits at, above and below zero, as floats and as ints ---------------------------------------------
def _cost_check(a):
    from types import SimpleNamespace as NS

    from ghedesigner.ground_heat_exchangers import BaseGHE

    ghe = object.__new__(BaseGHE)
    ghe.sim_params = NS(max_EFT_allowable=a["max_allow"], min_EFT_allowable=a["min_allow"])
    got = BaseGHE.cost(ghe, a["max_eft"], a["min_eft"])
    want = max(a["max_eft"] - a["max_allow"], a["min_allow"] - a["min_eft"])
    if got != want:
        return False, {"why": "the excess temperature is not max(max_eft - allowed maximum, allowed minimum - min_eft)", "got": got, "want": want, "signature": "cost-formula"}
    return True, {}


def _cost_gen(rng):
    lim = lambda: rng.choice([0, 0.0, -0.0, 5, 5.0, 35.0, -3.5, 22, 1e-9])  # noqa: E731  (a limit of exactly zero is a legitimate limit: antifreeze loops)
    return {"max_allow": lim(), "min_allow": lim(), "max_eft": round(rng.uniform(-10, 50), 3), "min_eft": round(rng.uniform(-10, 50), 3)}


from pyvc.run import native as _native  # noqa: E402

_native(f"{G}:BaseGHE.cost", _cost_check, _cost_gen, None,
        bound="real BaseGHE.cost on stub objects: allowed maximum / minimum from {0, 0.0, -0.0, 5, 5.0, 35.0, -3.5, 22, 1e-9} (ints and floats), temperatures -10..50: equals max(over, under) exactly")
