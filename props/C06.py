"""C06 - hybrid time-step loads conserve every month's ground energy."""
from contracts import loads
from props.common import *  # noqa: F401,F403

L = "ghedesigner.ground_loads"
FUNCTIONS = [f"{L}:monthdays", f"{L}:first_month_hour", f"{L}:last_month_hour", f"{L}:HybridLoad.split_heat_and_cool", f"{L}:HybridLoad.split_loads_by_month",
             f"{L}:HybridLoad.process_month_loads"]
NATIVE_FUNCTIONS = [f"{L}:last_month_hour", f"{L}:HybridLoad.process_month_loads"]
NATIVE_CASES = {"quick": 400, "thorough": 20000}
LEVEL = "proof"


def lemmas():
    return loads.LEMMAS


ASSUMPTIONS = [A_REAL, A_ENGINE, "numpy.append / array model (listed in trusted_base)",
               "monthly tables satisfy valid_monthly (durations in (0,48], peak day inside the month, non-negative totals/peaks): postconditions of split_loads_by_month / find_peak_durations (C07)",
               "single non-leap load year, start_month = 1 (what the manager always passes)"]
NOT_PROVED = []
EXPLANATION = ("process_month_loads is proved, for every horizon of 1..360 months and all monthly tables (loop invariant on the axis; one step clause per iteration), to append in each iteration of "
               "the month loop segments (1..5 of them: every combination of peak-day order, present/absent pulses, same-day peaks, peak-retention flag, window moved by the hour-0 guard) whose "
               "integral is exactly that month's net load cl - hl, up to rate x (placeholder duration of an absent pulse) - the precise content of 'floating-point accuracy' here - and to end "
               "the iteration at the calendar month end; the monthly tables are replicated year by year. monthdays / first_month_hour / last_month_hour are proved against the cumulative "
               "non-leap calendar for every month index. On the pinned tree the same-day arm dropped the average segment of a heating-only month and mis-placed a window moved by the hour-0 "
               "guard (D6 and a second defect, both fixed).")
LEVEL_TEXT = ("Deductive proof for every horizon 1..360 months and all monthly tables: in every iteration of the month loop the segments appended (1..5 of them, every combination of peak-day "
              "order, present/absent pulses, peak-retention flag) integrate to that month's net load, up to rate x (placeholder duration of an absent pulse) - the exact meaning of 'floating-point "
              "accuracy' here; the breakpoint at the end of the iteration is the calendar month end. Calendar helpers are proved against the non-leap calendar for all months.")
LEVEL_NOTE = "Trusted: pyvc, z3 (nonlinear real arithmetic), A-REAL, numpy.append model. Two defects of the same-day arm were found by these obligations and repaired."
