"""Contracts for the g-function plumbing (C11): combine_sts_lts, borehole_radius_correction, grab_g_function, get_g_function_data."""
import z3

from pyvc.api import *
from pyvc.libmodels import LOG
from pyvc.run import native

G = "ghedesigner.ground_heat_exchangers"
GF = "ghedesigner.gfunction"


def strictly_increasing(lst):
    return forall(2, lambda a, b: Implies(And(0 <= a, a < b, b < lst.len), lst[a] < lst[b]))


def count_below(E):
    """m = number of short-time points strictly below the first long-time point (both axes increasing => a prefix)"""
    m = z3.Int("m!cut")
    return m


M_CUT = z3.Int("M_CUT")

contract(f"{G}:BaseGHE.combine_sts_lts",
         dict(log_time_lts=ListOf(Real, minlen=1), g_lts=ListOf(Real), log_time_sts=ListOf(Real, minlen=1), g_sts=ListOf(Real)),
         requires=[("data-aligned", lambda E: And(E.g_lts.len == E.log_time_lts.len, E.g_sts.len == E.log_time_sts.len)),
                   ("axes-increasing", lambda E: And(strictly_increasing(E.log_time_lts), strictly_increasing(E.log_time_sts)))],
         defs=[("M_CUT", lambda E: And(0 <= M_CUT, M_CUT <= E.log_time_sts.len,
                                       forall(1, lambda k: Implies(And(0 <= k, k < E.log_time_sts.len), (E.log_time_sts[k] < E.log_time_lts[0]) == (k < M_CUT)))))],
         loops={0: LoopSpec(invariants=[("scanned-points-are-below-the-first-long-time-point",
                                         lambda E: And(0 <= E.i, E.i < E.log_time_sts.len, E.value == E.log_time_sts[E.i],
                                                       forall(1, lambda k: Implies(And(0 <= k, k < E.i), E.log_time_sts[k] < E.log_time_lts[0]))))],
                            decreases=lambda E: E.log_time_sts.len - E.i)},
         ensures=[("axis-is-short-time-prefix-then-long-time", lambda E: And(
                      0 <= M_CUT, M_CUT <= E.log_time_sts.len, E.result.y.len == E.result.x.len,
                      E.result.x.len == M_CUT + E.log_time_lts.len,
                      forall(1, lambda k: Implies(And(0 <= k, k < M_CUT), And(E.result.x[k] == E.log_time_sts[k], E.result.y[k] == E.g_sts[k]))),
                      forall(1, lambda k: Implies(And(0 <= k, k < E.log_time_lts.len), And(E.result.x[M_CUT + k] == E.log_time_lts[k], E.result.y[M_CUT + k] == E.g_lts[k]))))),
                  ("axis-strictly-increasing", lambda E: strictly_increasing(E.result.x)),
                  ("short-time-only-below-the-first-long-time-point", lambda E: forall(1, lambda k: Implies(And(0 <= k, k < M_CUT), E.result.x[k] < E.log_time_lts[0])))],
         returns=OpaqueOf("interp1d"))

contract(f"{GF}:GFunction.borehole_radius_correction", dict(g_function=ListOf(Real), rb=Real, rb_star=Real),
         requires=[("positive-radii", lambda E: And(E.rb > 0, E.rb_star > 0))],
         loops={0: LoopSpec(invariants=[("corrected-so-far", lambda E: _corr(E, E.g_function_corrected, E._k0))], shapes={"g_function_corrected": ListOf(Real)})},
         ensures=[("corrected-by-log-of-radius-ratio", lambda E: And(E.result.len == E.g_function.len, _corr(E, E.result, E.g_function.len)))],
         returns=ListOf(Real))
# the same with the curve handed over as a float array (a single-height family returns its stored curve object itself: the frame obligation says the correction leaves it as it is)
contract(f"{GF}:GFunction.borehole_radius_correction", dict(g_function=ListOf(Real, np=True), rb=Real, rb_star=Real), name=f"{GF}:GFunction.borehole_radius_correction#array-input",
         requires=[("positive-radii", lambda E: And(E.rb > 0, E.rb_star > 0))],
         loops={0: LoopSpec(invariants=[("corrected-so-far", lambda E: _corr(E, E.g_function_corrected, E._k0))], shapes={"g_function_corrected": ListOf(Real)})},
         ensures=[("corrected-by-log-of-radius-ratio", lambda E: And(E.result.len == E.g_function.len, _corr(E, E.result, E.g_function.len)))],
         returns=ListOf(Real)).applies = lambda env: False


def _corr(E, out, upto):
    if isinstance(out.len, int) and out.len == 0:
        return upto == 0 if not isinstance(upto, int) else upto == 0
    return And(out.len == upto, forall(1, lambda k: Implies(And(0 <= k, k < upto), out[k] == E.g_function[k] - LOG(E.rb_star / E.rb))))


def lemma_correction_identity():
    g, rb = z3.Reals("g rb")
    return [rb > 0, LOG(z3.RealVal(1)) == 0], g - LOG(rb / rb) == g


def lemma_correction_additive():
    """corr(corr(g, a->b), b->c) == corr(g, a->c), given the functional equation of the logarithm (A-LOG)"""
    g, a, b, c = z3.Reals("g a b c")
    x, y = z3.Reals("x y")
    alog = ForAll([x, y], Implies(And(x > 0, y > 0), LOG(x * y) == LOG(x) + LOG(y)))
    inst = Implies(And(b / a > 0, c / b > 0), LOG((b / a) * (c / b)) == LOG(b / a) + LOG(c / b))  # the instance of A-LOG that is used
    return [a > 0, b > 0, c > 0, alog, inst, (b / a) * (c / b) == c / a], (g - LOG(b / a)) - LOG(c / b) == g - LOG(c / a)


def lemma_ratio_product():
    a, b, c = z3.Reals("a b c")
    return [a > 0, b > 0, c > 0], (b / a) * (c / b) == c / a


LEMMAS = [("radius-correction-identity-for-equal-radii", lemma_correction_identity), ("radius-ratio-product", lemma_ratio_product),
          ("radius-correction-additive-in-log-ratio", lemma_correction_additive)]


# ---- run-time forms -------------------------------------------------------------------------------------------------
def _combine_check(a):
    from ghedesigner.ground_heat_exchangers import BaseGHE

    lt, gl, st_, gs = a["lt"], a["gl"], a["st"], a["gs"]
    try:
        f = BaseGHE.combine_sts_lts(list(lt), list(gl), list(st_), list(gs))
    except Exception as e:
        return False, {"why": f"raised {type(e).__name__}: {e}", "signature": "combine-" + type(e).__name__}
    x, y = [float(v) for v in f.x], [float(v) for v in f.y]
    m = sum(1 for v in st_ if v < lt[0])
    want_x, want_y = list(st_[:m]) + list(lt), list(gs[:m]) + list(gl)
    if x != want_x or y != want_y:
        return False, {"why": "axis is not the short-time prefix (< first long-time point) followed by the long-time points", "x": x[:8], "want": want_x[:8],
                       "signature": "combine-duplicate-abscissa" if len(x) == len(set(x)) + 1 else "combine-axis"}
    return all(x[k] < x[k + 1] for k in range(len(x) - 1)), {"why": "axis not strictly increasing"}


def _combine_gen(rng):
    lt = [-8.5, -7.8, -7.2, -6.5, -5.9, -5.2, -4.5, -3.963, -3.27, -2.864, -2.577, -2.171, -1.884, -1.191, -0.497, -0.274, -0.051, 0.196, 0.419, 0.642, 0.873, 1.112, 1.335, 1.679, 2.028, 2.275, 3.003]
    n = rng.randint(1, 30)
    start = rng.uniform(-16, -9)
    st_, cur = [], start
    for _ in range(n):
        st_.append(round(cur, 3))
        cur += rng.choice([0.1, 0.25, 0.5])
    r = rng.random()
    if r < 0.25:
        st_[rng.randrange(n)] = -8.5  # a short-time point exactly on the first long-time point
        st_ = sorted(set(st_))
    elif r < 0.4:
        st_ = [v for v in st_ if v < -8.5] or [-9.0]
    return {"lt": lt, "gl": [1.0 + 0.3 * k for k in range(len(lt))], "st": st_, "gs": [-2.0 + 0.1 * k for k in range(len(st_))]}


native(f"{G}:BaseGHE.combine_sts_lts", _combine_check, _combine_gen,
       lambda inp: {"lt": [float(v) for v in inp["log_time_lts"]], "gl": [float(v) for v in inp["g_lts"]], "st": [float(v) for v in inp["log_time_sts"]], "gs": [float(v) for v in inp["g_sts"]]},
       bound="Eskilson's 27 long-time points with random increasing short-time axes (ending below, on, or above the first long-time point, incl. a point exactly at -8.5)")


# ---- bounded: pygfunction's uniform-heat-rate curve against the analytical finite-line-source superposition ---------
def _fls_g(coords, H, D, rb, alpha, times):
    """g(t) = (1/N) sum_i sum_j h_ij(t), h_ij = Claesson-Javed finite line source between equal vertical boreholes"""
    import math

    from scipy.integrate import quad

    def ierf(x):
        return x * math.erf(x) - (1.0 - math.exp(-x * x)) / math.sqrt(math.pi)

    def ils(s):
        return 2 * ierf(H * s) + 2 * ierf((2 * D + H) * s) - ierf((2 * D + 2 * H) * s) - ierf(2 * D * s)

    n = len(coords)
    dists = {}
    for i in range(n):
        for j in range(n):
            d = rb if i == j else math.hypot(coords[i][0] - coords[j][0], coords[i][1] - coords[j][1])
            dists[round(d, 9)] = dists.get(round(d, 9), 0) + 1
    out = []
    for t in times:
        a = 1.0 / math.sqrt(4.0 * alpha * t)
        tot = 0.0
        for d, cnt in dists.items():
            val, _ = quad(lambda s, d=d: math.exp(-d * d * s * s) * ils(s) / (H * s * s), a, math.inf, epsabs=1e-12, epsrel=1e-10, limit=400)
            tot += cnt * 0.5 * val
        out.append(tot / n)
    return out


def _fls_check(a):
    import math

    from contracts.realruns import build_manager
    from ghedesigner.borehole import GHEBorehole
    from ghedesigner.gfunction import calculate_g_function
    from ghedesigner.utilities import eskilson_log_times

    g = build_manager({"length": 12.0})
    d = g._design
    H, D, rb = a["H"], a["D"], a["rb"]
    coords = [tuple(c) for c in a["coords"]]
    alpha = d.soil.k / d.soil.rhoCp
    ts = H * H / (9.0 * alpha)
    lnt = eskilson_log_times()[:: a.get("stride", 3)]
    times = [math.exp(x) * ts for x in lnt]
    bh = GHEBorehole(H, D, rb, 0.0, 0.0)
    import numpy as np

    gf = calculate_g_function(0.3, d.bhe_type, np.array(times), coords, bh, d.fluid, d.pipe, d.grout, d.soil, boundary="UHTR")
    got = [float(x) for x in gf.gFunc]
    want = _fls_g(coords, H, D, rb, alpha, times)
    tol = 1e-6 if len(coords) == 1 else 1e-4
    worst = max(abs(x - y) / max(1.0, abs(y)) for x, y in zip(got, want))
    if worst > tol:
        return False, {"why": "UHTR g-function differs from the analytical FLS superposition", "worst_relative": worst, "got": got[:3], "want": want[:3]}
    # the same through calc_g_func_for_multiple_lengths (what the search and the sizing call): arguments forwarded unchanged, results stored under the right keys
    from ghedesigner.gfunction import calc_g_func_for_multiple_lengths

    H2 = H * 0.5
    gfm = calc_g_func_for_multiple_lengths(7.5, [H, H2], rb, D, 0.3, d.bhe_type, list(lnt), coords, d.fluid, d.pipe, d.grout, d.soil, boundary="UHTR")
    for hh in (H, H2):
        tt = [math.exp(x) * hh * hh / (9.0 * alpha) for x in lnt]
        wantm = _fls_g(coords, hh, D, rb, alpha, tt)
        gotm = [float(x) for x in gfm.g_lts[hh]]
        worstm = max(abs(x - y) / max(1.0, abs(y)) for x, y in zip(gotm, wantm))
        if len(gotm) != len(wantm) or worstm > tol:
            return False, {"why": "calc_g_func_for_multiple_lengths: the curve stored for a height is not the FLS curve of boreholes of that height, depth and radius at t = exp(log_time) H^2/(9 alpha)",
                           "height": hh, "worst_relative": worstm, "signature": "family-curve"}
        if gfm.r_b_values[hh] != rb:
            return False, {"why": "calc_g_func_for_multiple_lengths stores another radius than the one it was given", "signature": "family-radius"}
    if gfm.d != D or gfm.B != 7.5 or list(gfm.log_time) != list(lnt) or [tuple(c) for c in gfm.bore_locations] != coords:
        return False, {"why": "calc_g_func_for_multiple_lengths: burial depth, spacing, time axis or coordinates of the returned family are not the arguments", "signature": "family-fields"}
    if len(coords) == 1 and a.get("mift", True):
        gm = calculate_g_function(0.3, d.bhe_type, np.array(times), coords, bh, d.fluid, d.pipe, d.grout, d.soil)
        w2 = max(abs(float(x) - y) / abs(y) for x, y in zip(gm.gFunc, want) if abs(y) > 0.5)
        if w2 > 0.2:
            return False, {"why": "default MIFT curve of a single borehole deviates more than 20 % from the FLS", "worst": w2}
    return True, {"worst_relative": worst}


def _fls_gen(rng):
    shape = rng.choice(["single", "single", "line", "grid", "L", "irregular"])
    b = rng.choice([4.0, 6.0, 9.0])
    if shape == "single":
        coords = [(0.0, 0.0)]
    elif shape == "line":
        coords = [(i * b, 0.0) for i in range(rng.randint(2, 5))]
    elif shape == "grid":
        nx, ny = rng.randint(2, 4), rng.randint(2, 3)
        coords = [(i * b, j * b) for i in range(nx) for j in range(ny)]
    elif shape == "L":
        coords = [(i * b, 0.0) for i in range(4)] + [(0.0, j * b) for j in range(1, 3)]
    else:
        coords = [(round(rng.uniform(0, 30), 2), round(rng.uniform(0, 30), 2)) for _ in range(rng.randint(3, 7))]
    rb = rng.choice([0.05, 0.075, 0.1])
    return {"coords": coords, "H": rng.choice([60.0, 100.0, 150.0]), "D": rng.choice([1.0, 2.0, 4.0]), "rb": rb, "stride": 4, "mift": rb >= 0.07}


native("ghedesigner.gfunction:calculate_g_function", _fls_check, _fls_gen, None,
       bound="1..12 boreholes (single, line, grid, L, irregular), H 60..150 m, D 1..4 m, r_b 50..100 mm, 7 of Eskilson's 27 times: pygfunction UHTR vs scipy-quadrature FLS, directly and through calc_g_func_for_multiple_lengths (two heights; stored radius, depth, spacing, time axis, coordinates)")


# ---- grab_g_function (composition) and the g-function table of the outputs (C19 clause) -------------------------------
Interp = lambda: OpaqueOf("interp1d", x=ListOf(Real, np=True), y=ListOf(Real, np=True))  # noqa: E731
REG.contracts[f"{G}:BaseGHE.combine_sts_lts"].returns = Interp()

contract(f"{GF}:GFunction.g_function_interpolation", dict(self=ObjOf(f"{GF}:GFunction", log_time=ListOf(Real, minlen=1)), b_over_h=Real),
         name=f"{GF}:GFunction.g_function_interpolation#caller",
         ensures=[("one-value-per-long-time-point", lambda E: E.result[0].len == E.self.log_time.len),
                  ("stored-radius-positive", lambda E: E.result[1] > 0),
                  # A-DET: for the (fixed) long-time family of this GHE the interpolated curve and the stored radius are functions of B/H
                  ("interpolated-family", lambda E: And(E.result[1] == RB_LIB(E.b_over_h),
                                                        forall(1, lambda k: Implies(And(0 <= k, k < E.self.log_time.len), E.result[0][k] == G_LTS(E.b_over_h, k)))))],
         returns=TupleOf(ListOf(Real), Real, Real, Real), notes="caller view; interpolation at a stored height is verified separately").applies = lambda env: "log_time" in env["self"].fields


G_LTS = z3.Function("G_LTS", z3.RealSort(), z3.IntSort(), z3.RealSort())   # interpolated long-time curve of the GHE's family at B/H, per long-time point
RB_LIB = z3.Function("RB_LIB", z3.RealSort(), z3.RealSort())               # borehole radius the family was computed for


def GHEgrab():
    return ObjOf(f"{G}:GHE", gFunction=ObjOf(f"{GF}:GFunction", log_time=ListOf(Real, minlen=1)), bhe=ObjOf("bhe", b=ObjOf("borehole", r_b=Real, H=Real)),
                 radial_numerical=ObjOf("rn", lntts=ListOf(Real, np=True, minlen=1), g=ListOf(Real, np=True), g_bhw=ListOf(Real, np=True)), B_spacing=Real)


def _grab_requires():
    return [("long-time-axis-increasing", lambda E: strictly_increasing(E.self.gFunction.log_time)),
            ("short-time-axis-increasing", lambda E: strictly_increasing(E.self.radial_numerical.lntts)),
            ("short-time-data-aligned", lambda E: And(E.self.radial_numerical.g.len == E.self.radial_numerical.lntts.len, E.self.radial_numerical.g_bhw.len == E.self.radial_numerical.lntts.len))]


def _grab_clauses(g, gb, E):
    lt, st_ = E.self.gFunction.log_time, E.self.radial_numerical.lntts
    m = g.x.len - lt.len
    return And(strictly_increasing(g.x), g.x.len == g.y.len, gb.x.len == g.x.len, gb.y.len == g.x.len, 0 <= m, m <= st_.len,
               forall(1, lambda k: Implies(And(0 <= k, k < g.x.len), gb.x[k] == g.x[k])),
               forall(1, lambda k: Implies(And(0 <= k, k < lt.len), And(g.x[m + k] == lt[k], gb.y[m + k] == g.y[m + k]))),
               # the long-time points carry the interpolated long-time curve corrected from the library radius to this borehole's radius
               forall(1, lambda k: Implies(And(0 <= k, k < lt.len), g.y[m + k] == G_LTS(E.b_over_h, k) - LOG(E.self.bhe.b.r_b / RB_LIB(E.b_over_h)))),
               forall(1, lambda k: Implies(And(0 <= k, k < m), And(g.x[k] == st_[k], g.x[k] < lt[0], g.y[k] == E.self.radial_numerical.g[k], gb.y[k] == E.self.radial_numerical.g_bhw[k]))))


contract(f"{G}:BaseGHE.grab_g_function", dict(self=GHEgrab(), b_over_h=Real), name=f"{G}:BaseGHE.grab_g_function#body",
         requires=_grab_requires() + [("positive-radius", lambda E: E.self.bhe.b.r_b > 0)],
         ensures=[("combined-axis-well-formed", lambda E: _grab_clauses(E.result[0], E.result[1], E))],
         returns=TupleOf(Interp(), Interp())).applies = lambda env: False

contract(f"{G}:BaseGHE.grab_g_function", dict(self=GHEgrab(), b_over_h=Real), name=f"{G}:BaseGHE.grab_g_function#xy",
         requires=_grab_requires(), ensures=[("combined-axis-well-formed", lambda E: _grab_clauses(E.result[0], E.result[1], E))],
         returns=TupleOf(Interp(), Interp())).applies = lambda env: "g_gkey" not in env["self"].fields

GRow = FixedList([Real, Real, Real])


def _g_rows(E, rows, upto, g, gb):
    if isinstance(upto, int) and upto == 0:
        return True
    return forall(1, lambda k: Implies(And(0 <= k, k < upto), And(rows[k + 1][0] == g.x[k], rows[k + 1][1] == g.y[k], rows[k + 1][2] == gb.y[k])))


contract("ghedesigner.output:OutputManager.get_g_function_data", dict(design=ObjOf("search", ghe=GHEgrab())),
         requires=[(n, (lambda E, f=f: f(_design_env(E)))) for n, f in _grab_requires()] + [("positive-height", lambda E: E.design.ghe.bhe.b.H > 0)],
         loops={0: LoopSpec(invariants=[("rows-so-far", lambda E: And(E.csv_array.len == E._k0 + 1, _g_rows(E, E.csv_array, E._k0, _gv(E.gf_adjusted), _gv(E.gf_bhw_adjusted))))],
                            shapes={"csv_array": ListOf(GRow)})},
         ensures=[("rows-are-the-simulation-curve", lambda E: And(E.result.len == E.gf_adjusted.x.len + 1,
                                                                 _g_rows(E, E.result, E.gf_adjusted.x.len, _gv(E.gf_adjusted), _gv(E.gf_bhw_adjusted)))),
                  ("time-column-strictly-increasing", lambda E: forall(2, lambda a, b: Implies(And(1 <= a, a < b, b < E.result.len), E.result[a][0] < E.result[b][0])))],
         returns=ListOf(GRow))


def _design_env(E):
    class V:
        pass

    v = V()
    v.self = E.design.ghe
    return v


def _gv(o):
    return o


# ---- g_function_interpolation at a stored height (run-time form; the body - dict of float keys, scipy interpolants - is out of reach) ---------
def _interp_check(a):
    import warnings

    from ghedesigner.gfunction import GFunction

    heights, curves, radii = a["heights"], a["curves"], a["radii"]
    mk = lambda: GFunction(b=a["B"], d=2.0, r_b_values={h: r for h, r in zip(heights, radii)}, g_lts={h: list(c) for h, c in zip(heights, curves)},  # noqa: E731
                           log_time=list(a["log_time"]), bore_locations=[(0.0, 0.0)])
    shared = mk()
    for fresh_each in (True, False):
        for h, c, r in zip(heights, curves, radii):
            gf = mk() if fresh_each else shared
            with warnings.catch_warnings():
                warnings.simplefilter("ignore")
                g, rb, d, h_eq = gf.g_function_interpolation(a["B"] / h)
            err = max(abs(float(x) - y) for x, y in zip(g, c))
            if len(g) != len(c) or err > 1e-8 * max(1.0, max(abs(y) for y in c)) or abs(float(rb) - r) > 1e-9:
                return False, {"why": "interpolating the long-time family at a stored height does not return the stored curve / radius", "height": h, "heights_in_storage_order": heights,
                               "max_error": err, "rb": float(rb), "rb_stored": r, "fresh_object": fresh_each, "signature": "stored-height-not-reproduced"}
    # history (C13): what a family object returns for a height does not depend on the heights it was asked for before - queries between, below and above the
    # stored heights in every order of two, each compared with the same query on a fresh object (which may itself raise: then the used object must raise too)
    if len(heights) >= 2:
        lo, hi = min(heights), max(heights)
        probes = [0.5 * (lo + hi) + 0.37, lo * 0.8, hi * 1.12, sorted(heights)[len(heights) // 2] - 0.123]

        def ask(gf, h):
            with warnings.catch_warnings():
                warnings.simplefilter("ignore")
                try:
                    g, rb, d, h_eq = gf.g_function_interpolation(a["B"] / h)
                    return ("value", [float(x) for x in g], float(rb))
                except Exception as e:  # noqa: BLE001
                    return ("raises", type(e).__name__)

        for first in probes:
            for second in probes:
                if first == second:
                    continue
                used = mk()
                ask(used, first)
                got, want = ask(used, second), ask(mk(), second)
                if got != want:
                    return False, {"why": "the interpolated long-time g-function for a height depends on the height the same object was asked for before", "first_query_height": first,
                                   "second_query_height": second, "stored_heights": sorted(heights), "fresh_object": want[:1] + want[2:] if want[0] == "value" else want,
                                   "used_object": got[:1] + got[2:] if got[0] == "value" else got,
                                   "max_difference": (max(abs(x - y) for x, y in zip(got[1], want[1])) if got[0] == want[0] == "value" else None),
                                   "signature": "history-dependent/interpolation-table/" + ("raises" if "raises" in (got[0], want[0]) else "values-differ")}
    return True, {}


def _interp_gen(rng):
    n = rng.choice([1, 2, 2, 3, 3, 4, 5, 5])
    heights = rng.sample([24.0, 48.0, 60.0, 96.0, 120.0, 144.0, 192.0, 384.0], n)
    if rng.random() < 0.3:
        heights.sort()
    nt = rng.choice([5, 27])
    log_time = sorted(round(rng.uniform(-8.5, 3.0), 3) for _ in range(nt))
    curves = [[round(2.0 + 0.6 * k + rng.uniform(0, 3.0) + 0.01 * h, 4) for k in range(nt)] for h in heights]
    same_rb = rng.random() < 0.6
    return {"B": rng.choice([5.0, 6.096]), "heights": heights, "curves": curves, "radii": [0.075 if same_rb else round(rng.uniform(0.05, 0.1), 4) for _ in heights], "log_time": log_time}


native(f"{GF}:GFunction.g_function_interpolation", _interp_check, _interp_gen, None,
       bound="real GFunction objects with 1..5 stored heights in arbitrary storage order, random curves and radii: B/H of every stored height returns the stored curve and radius (fresh object and shared object with cached interpolation table); every ordered pair of queries between / below / above the stored heights gives on a used object what a fresh object gives")


# ---- BaseGHE.compute_g_functions: the GHE takes over a *new* family object (whose interpolation table has not been built) --------------------------------------
from contracts.search import Field, GFK  # noqa: E402

GFK3 = z3.Function("GFK_FAMILY", z3.RealSort(), z3.RealSort(), z3.RealSort(), z3.RealSort(), z3.RealSort(), z3.RealSort(), z3.RealSort(), z3.IntSort(), z3.IntSort())
_FAM = lambda: ObjOf(f"{GF}:GFunction", bore_locations=Field, log_time=OpaqueOf("list"), g_key=Int, g_table_built=Bool, g_lts=OpaqueOf("dict"), r_b_values=OpaqueOf("dict"), interpolation_table=OpaqueOf("dict"), B=Real, d=Real)  # noqa: E731
contract(f"{GF}:calc_g_func_for_multiple_lengths",
         dict(b=Real, h_values=FixedList([Real, Real, Real]), r_b=Real, depth=Real, m_flow_borehole=Real, bhe_type=Int, log_time=OpaqueOf("list"), coordinates=Field,
              fluid=ObjOf("x"), pipe=ObjOf("x"), grout=ObjOf("x"), soil=ObjOf("x")),
         name=f"{GF}:calc_g_func_for_multiple_lengths#family",
         ensures=[("a-new-family-for-these-arguments", lambda E: And(E.result.bore_locations.id == E.coordinates.id, E.result.bore_locations.len == E.coordinates.len, Not(E.result.g_table_built),
                                                                     E.result.g_key == GFK3(E.b, E.h_values[0], E.h_values[1], E.h_values[2], E.r_b, E.depth, E.m_flow_borehole, E.coordinates.id)))],
         returns=_FAM(), notes="A-DET caller view (body checked at run time against the FLS anchor): a new GFunction object - its interpolation table is empty - named by the arguments"
         ).applies = lambda env: __import__("contracts.search", fromlist=["_n_heights"])._n_heights(env) == 3

contract(f"{G}:BaseGHE.compute_g_functions",
         dict(self=ObjOf(f"{G}:GHE", sim_params=ObjOf("sim", min_height=Real, max_height=Real), gFunction=_FAM(), B_spacing=Real, bhe_type=Int,
                         bhe=ObjOf("bhe", b=ObjOf("borehole", r_b=Real, D=Real, H=Real), m_flow_borehole=Real, fluid=ObjOf("x"), pipe=ObjOf("x"), grout=ObjOf("x"), soil=ObjOf("x")))),
         name=f"{G}:BaseGHE.compute_g_functions#body",
         ensures=[("holds-a-new-family-for-min-mid-max-height", lambda E: And(
             E.self.gFunction.g_key == GFK3(E.self.B_spacing, E.self.sim_params.min_height, (E.self.sim_params.min_height + E.self.sim_params.max_height) / 2, E.self.sim_params.max_height,
                                            E.self.bhe.b.r_b, E.self.bhe.b.D, E.self.bhe.m_flow_borehole, E.old.self.gFunction.bore_locations.id),
             E.self.gFunction.bore_locations.id == E.old.self.gFunction.bore_locations.id)),
                  ("no-interpolation-table-carried-over-from-the-previous-family", lambda E: Not(E.self.gFunction.g_table_built)),
                  ("the-previous-family-object-is-left-alone", lambda E: And(E.self.gFunction.raw() is not E.old.self.gFunction.raw()))],
         assigns=writes("self.gFunction"), returns=NoneT()).applies = lambda env: False
