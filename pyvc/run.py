"""Driver: verify the functions of one property, replay counterexamples natively, write evidence.

Exit status: 0 held (or only KNOWN-FINDINGs) / 1 violation / 2 undecided / 3 checker fault.
"""
from __future__ import annotations

import importlib
import json
import os
import random
import subprocess
import sys
import time
import traceback
from fractions import Fraction

import z3

from . import solve
from .engine import Exec, Obl, short
from .program import Program
from .values import (EnumVal, IntMap, Opaque, PyDict, PyList, PyObj, Seq, UFun, VCError, is_z3, to_z3)

VERIF = os.path.dirname(os.path.dirname(os.path.abspath(__file__)))
REPO = os.environ.get("VERIF_REPO", "/repo")


# --------------------------------------------------------------------------------------------
# model extraction


def zval(model, e):
    v = model.eval(e, model_completion=True)
    if z3.is_int_value(v):
        return v.as_long()
    if z3.is_rational_value(v):
        return Fraction(v.numerator_as_long(), v.denominator_as_long())
    if z3.is_algebraic_value(v):
        a = v.approx(20)
        return Fraction(a.numerator_as_long(), a.denominator_as_long())
    if z3.is_true(v):
        return True
    if z3.is_false(v):
        return False
    return str(v)


def extract(v, model, maxlen=64):
    """Engine value -> plain Python data under a model."""
    if is_z3(v):
        return zval(model, v)
    if isinstance(v, (int, bool, str)) or v is None:
        return v
    if isinstance(v, Fraction):
        return v
    if isinstance(v, tuple):
        return tuple(extract(x, model, maxlen) for x in v)
    if isinstance(v, PyList):
        n = v.length()
        n = zval(model, to_z3(n)) if not isinstance(n, int) else n
        if not isinstance(n, int) or n > maxlen:
            n = min(int(n), maxlen) if isinstance(n, int) else 0
        return [extract(v.get(z3.IntVal(k)) if not v.is_conc() else v.v[k], model, maxlen) for k in range(n)]
    if isinstance(v, PyObj):
        return {"__class__": v.cls, **{k: extract(x, model, maxlen) for k, x in v.fields.items() if not k.startswith("_")}}
    if isinstance(v, Opaque):
        return {"__opaque__": v.kind, **{k: extract(x, model, maxlen) for k, x in v.attrs.items()}}
    if isinstance(v, PyDict):
        return {str(k): extract(x, model, maxlen) for k, x in v.d.items()}
    if isinstance(v, IntMap):
        n = zval(model, to_z3(v.n))
        out = {}
        for p in range(min(int(n), maxlen) if isinstance(n, int) else 0):
            k = zval(model, v.key_at(z3.IntVal(p)))
            out[k] = extract(v.val(z3.IntVal(k)), model, maxlen)
        return out
    if isinstance(v, EnumVal):
        return f"{v.cls}.{v.name}"
    if isinstance(v, UFun):
        return ModelFn(v, model)
    return repr(v)


class ModelFn:
    """An uninterpreted function under a model, callable with numbers."""

    def __init__(self, u, model):
        self.u, self.model = u, model

    def __call__(self, *args):
        zs = [z3.RealVal(str(Fraction(a))) if not isinstance(a, int) else z3.IntVal(a) for a in args]
        zs = [z3.ToReal(x) if z3.is_int(x) else x for x in zs]
        return zval(self.model, self.u.fn(*zs))


def jsonable(x):
    if isinstance(x, Fraction):
        return float(x) if x.denominator != 1 else int(x)
    if isinstance(x, dict):
        return {str(k): jsonable(v) for k, v in x.items()}
    if isinstance(x, (list, tuple)):
        return [jsonable(v) for v in x]
    if isinstance(x, (int, float, str, bool)) or x is None:
        return x
    return repr(x)


# --------------------------------------------------------------------------------------------
# native harness registry (filled by the sidecars)


class Native:
    """Run-time form of a contract on the real function: generator of inputs, checker, model adapter."""

    def __init__(self, qual, check, gen=None, from_model=None, bound=""):
        self.qual, self.check, self.gen, self.from_model, self.bound = qual, check, gen, from_model, bound


NATIVES: dict[str, Native] = {}


def native(qual, check, gen=None, from_model=None, bound=""):
    NATIVES[qual] = Native(qual, check, gen, from_model, bound)


# --------------------------------------------------------------------------------------------


class FnReport:
    def __init__(self, qual):
        self.qual = qual
        self.results = []
        self.error = None
        self.gen_s = 0.0
        self.src_hash = ""
        self.discont = []
        self.models = []
        self.abstracted = []


class PropertyRun:
    def __init__(self, pid, tier, seed):
        self.pid, self.tier, self.seed = pid, tier, seed
        self.t0 = time.time()
        self.fn_reports: list[FnReport] = []
        self.lemma_results = []
        self.violations = []  # (obligation name, replay path, note)
        self.known = []
        self.undecided = []
        self.bounded = []  # dicts
        self.trusted = set()
        self.assumptions = []
        self.samples = []
        self.faults = []
        self.rng = random.Random(seed)
        self.timeout_ms = 20000 if tier == "quick" else 120000

    # ------------------------------------------------------------------ proving

    def verify_functions(self, registry, quals, jobs=16):
        prog = Program(REPO)
        all_obls = []
        per_fn = {}
        for q in quals:
            rep = FnReport(q)
            self.fn_reports.append(rep)
            ex = Exec(prog, registry)
            t = time.time()
            try:
                rep.src_hash = prog.source_hash(registry.contracts[q].qual)
                obls = ex.verify(q)
                per_fn[q] = (ex, obls)
                rep.discont = sorted(set(ex.discont))[:40]
                rep.models = sorted(ex.used_models)
                rep.abstracted = [f"loop #{k} at line {ln} of {fq} abstracted (write set havocked, body not verified)" for fq, k, ln in ex.abstracted_loops]
                self.trusted |= ex.used_models
                self.used_contracts = getattr(self, "used_contracts", set()) | ex.used_contracts
                if not any(o.kind != "cover" for o in obls):
                    rep.error = "zero obligations generated"
            except VCError as e:
                rep.error = f"{type(e).__name__}: {e}"
            except RecursionError as e:
                rep.error = f"RecursionError: {e}"
            except z3.Z3Exception as e:
                rep.error = f"Z3Exception while generating VCs: {e}"
            except (TypeError, AttributeError, KeyError, IndexError) as e:
                # a clause of the sidecar that cannot be evaluated on the code as it is now (e.g. a callee precondition over an argument the call no longer
                # passes): the sidecar no longer matches the code - no verdict for this function.  Anything raised elsewhere is a checker fault.
                import traceback as _tb

                if not any("/contracts/" in fr.filename for fr in _tb.extract_tb(e.__traceback__)):
                    raise
                rep.error = f"a sidecar clause cannot be evaluated on this code ({type(e).__name__}: {e}): the sidecar no longer matches the code"
            rep.gen_s = time.time() - t
        flat = []
        for q, (ex, obls) in per_fn.items():
            for o in obls:
                flat.append((q, ex, o))
        axioms = flat[0][1].axioms if flat else []
        results = solve.discharge([o for _, _, o in flat], axioms, timeout_ms=self.timeout_ms, jobs=jobs)
        for (q, ex, o), r in zip(flat, results):
            rep = next(x for x in self.fn_reports if x.qual == q)
            rep.results.append(r)
        return per_fn

    def prove_lemmas(self, lemmas):
        """lemmas: list of (name, fn() -> (assumptions, goal)) ; pure solver obligations over contract clauses."""
        obls = []
        for name, fn in lemmas:
            got = fn()
            assumptions, goal = got[0], got[1]
            obls.append(Obl(f"lemma/{name}", list(assumptions), goal, "lemma", "lemma", 0, "", extra=got[2] if len(got) > 2 else None))
        from .engine import PI_AXIOMS

        res = solve.discharge(obls, PI_AXIOMS, timeout_ms=self.timeout_ms)
        self.lemma_results.extend(res)
        return res

    # ------------------------------------------------------------------ verdicts

    def grouped(self):
        """name -> list of Result (one per path instance)."""
        g = {}
        for rep in self.fn_reports:
            for r in rep.results:
                g.setdefault(r.obl.name, []).append(r)
        for r in self.lemma_results:
            g.setdefault(r.obl.name, []).append(r)
        return g

    def replay_dir(self):
        d = os.path.join(VERIF, "replays", self.pid)
        os.makedirs(d, exist_ok=True)
        return d

    def write_replay(self, name, payload):
        fn = name.replace("/", "__").replace(":", "_").replace("#", "_").replace("<", "").replace(">", "")
        path = os.path.join(self.replay_dir(), fn + ".json")
        with open(path, "w") as f:
            json.dump(jsonable(payload), f, indent=1)
        return path


def run_native(qual, args, timeout=900):
    """Run the native checker of `qual` on `args` in a subprocess (isolation from hangs / crashes)."""
    payload = json.dumps({"qual": qual, "args": jsonable(args)})
    env = dict(os.environ)
    env["PYTHONPATH"] = VERIF + os.pathsep + env.get("PYTHONPATH", "")
    for _v in ("OMP_NUM_THREADS", "OPENBLAS_NUM_THREADS", "MKL_NUM_THREADS", "NUMEXPR_NUM_THREADS"):
        env.setdefault(_v, "1")  # budgets are CPU time: one numerical thread per real-code run
    try:
        p = subprocess.run([sys.executable, "-m", "pyvc.nativerun"], input=payload, capture_output=True, text=True, timeout=timeout, env=env, cwd=VERIF)
    except subprocess.TimeoutExpired:
        return {"ok": None, "detail": f"inconclusive: replay subprocess exceeded {timeout} s of wall-clock time", "timeout": True}
    if p.returncode != 0:
        return {"ok": None, "detail": "native harness crashed: " + p.stderr[-2000:]}
    try:
        return json.loads(p.stdout.strip().splitlines()[-1])
    except Exception:
        return {"ok": None, "detail": "unparsable native output: " + p.stdout[-500:]}
