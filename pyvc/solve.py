"""Discharging obligations: z3 first (parallel, per-obligation timeout), cvc5 on z3's `unknown`."""
from __future__ import annotations

import multiprocessing as mp
import os
import time

import z3

UNSAT, SAT, UNKNOWN = "unsat", "sat", "unknown"


def to_smt2(axioms, assumptions, goal):
    s = z3.Solver()
    for a in axioms:
        s.add(a)
    for a in assumptions:
        s.add(a)
    if goal is not None:
        s.add(z3.Not(goal))
    return s.to_smt2()


def _check_z3(smt2, timeout_ms, variant=0):
    """One z3 run with a budget of `timeout_ms` of *CPU* time (a watchdog thread interrupts the context), so that a verdict
    does not depend on how busy the machine is; z3's own wall-clock timeout is only a safety net at 8x the budget."""
    import threading

    t0 = time.time()
    done = threading.Event()
    try:
        ctx = z3.Context()
        s = z3.Solver(ctx=ctx)
        s.set("timeout", int(timeout_ms) * 8)
        if variant == 1:
            s.set("smt.arith.nl.nra", True)
            s.set("smt.mbqi", False)
        elif variant == 2:
            s.set("smt.arith.solver", 6)
            s.set("smt.random_seed", 7)
        elif variant >= 10:
            # same query, another search order: easy-but-unstable queries usually fall quickly with a different seed
            s.set("smt.random_seed", variant)
        s.from_string(smt2)
        cpu0 = time.process_time()

        def watchdog():
            while not done.wait(0.1):
                if (time.process_time() - cpu0) * 1000.0 > timeout_ms:
                    try:
                        ctx.interrupt()
                    except Exception:
                        pass
                    return

        th = threading.Thread(target=watchdog, daemon=True)
        th.start()
        try:
            r = s.check()
        finally:
            done.set()
        res = str(r)
        reason = s.reason_unknown() if r == z3.unknown else ""
        if r == z3.unknown and reason in ("canceled", "interrupted", "interrupted from keyboard"):
            reason = "timeout"
    except Exception as e:  # z3 error: undecided, never a violation
        done.set()
        res, reason = UNKNOWN, f"z3 exception: {e}"
    return res, time.time() - t0, reason


def _check_cvc5(smt2, timeout_ms):
    """cvc5 through its python API on the same SMT-LIB text."""
    t0 = time.time()
    try:
        import cvc5

        slv = cvc5.Solver()
        slv.setOption("tlimit-per", str(timeout_ms))
        slv.setOption("produce-models", "false")
        slv.setLogic("ALL")
        parser = cvc5.InputParser(slv)
        parser.setStringInput(cvc5.InputLanguage.SMT_LIB_2_6, smt2, "obl")
        sm = parser.getSymbolManager()
        res = UNKNOWN
        while True:
            cmd = parser.nextCommand()
            if cmd.isNull():
                break
            out = cmd.invoke(slv, sm)
            o = str(out).strip()
            if o in ("sat", "unsat", "unknown"):
                res = o
        return res, time.time() - t0, ""
    except Exception as e:
        return UNKNOWN, time.time() - t0, f"cvc5 exception: {e}"


def _work(job):
    """Portfolio, cheapest first: short budgets on three z3 configurations (most obligations fall in well under a second in one
    of them, and which one is not predictable: the linear-arithmetic solver choice matters more than time), then the full budget
    on each, then cvc5.  Only `unsat` / `sat` end the search; every `unknown` moves on."""
    idx, smt2, timeout_ms, use_cvc5, is_cover = job
    if is_cover:
        res, t, reason = _check_z3(smt2, timeout_ms)
        return idx, res, t, "z3", reason, [("z3", res, round(t, 3))]
    short_t = max(2000, timeout_ms // 4)
    stages = [(0, short_t), (2, short_t), (1, short_t), (11, short_t), (0, timeout_ms), (2, timeout_ms), (1, timeout_ms), (12, timeout_ms // 2)]
    tried, t = [], 0.0
    res, reason, backend = UNKNOWN, "", "z3"
    for k_stage, (variant, budget) in enumerate(stages):
        if k_stage == 1 and use_cvc5:
            # z3's default configuration did not decide it quickly: give cvc5 a short turn before the other z3 configurations
            r3, t3, reason3 = _check_cvc5(smt2, short_t)
            tried.append(("cvc5", r3, round(t3, 3)))
            t += t3
            if r3 != UNKNOWN:
                res, reason, backend = r3, reason3, "cvc5"
                break
        r2, t2, reason2 = _check_z3(smt2, budget, variant)
        label = "z3" if variant == 0 else (f"z3/seed{variant}" if variant >= 10 else f"z3/v{variant}")
        tried.append((label, r2, round(t2, 3)))
        t += t2
        reason = reason2 or reason
        if r2 != UNKNOWN:
            res, backend = r2, label
            break
    if res == UNKNOWN and use_cvc5:
        r3, t3, reason3 = _check_cvc5(smt2, timeout_ms)
        tried.append(("cvc5", r3, round(t3, 3)))
        t += t3
        if r3 != UNKNOWN:
            res, reason, backend = r3, reason3, "cvc5"
    return idx, res, t, backend, reason, tried


class Result:
    def __init__(self, obl, status, seconds, backend, reason="", tried=None):
        self.obl, self.status, self.seconds, self.backend, self.reason = obl, status, seconds, backend, reason
        self.tried = tried or []


def discharge(obls, axioms, timeout_ms=20000, jobs=None, use_cvc5=True):
    """Returns list of Result, same order as obls."""
    jobs = jobs or min(16, os.cpu_count() or 4)
    work = []
    results = [None] * len(obls)
    for i, o in enumerate(obls):
        if o.extra.get("trivial"):
            results[i] = Result(o, UNSAT, 0.0, "trivial")
            continue
        is_cover = o.kind == "cover"
        smt2 = to_smt2(axioms, o.assumptions, None if is_cover else o.goal)
        t_o = max(timeout_ms, int(o.extra.get("timeout_ms", 0)))
        work.append((i, smt2, t_o if not is_cover else min(t_o, 5000), use_cvc5, is_cover))
    if work:
        if jobs > 1 and len(work) > 1:
            with mp.get_context("fork").Pool(jobs) as pool:
                for idx, res, t, backend, reason, tried in pool.imap_unordered(_work, work, chunksize=1):
                    results[idx] = Result(obls[idx], res, t, backend, reason, tried)
        else:
            for job in work:
                idx, res, t, backend, reason, tried = _work(job)
                results[idx] = Result(obls[idx], res, t, backend, reason, tried)
    return results


def model_for(obl, axioms, timeout_ms=20000, drop_quantified=False):
    """Re-solve a failing obligation in-process to obtain a model.  drop_quantified: candidate search only -
    a model of the formula without its quantified assumptions must be confirmed by native replay."""
    from .engine import _has_quant

    s = z3.Solver()
    s.set("timeout", timeout_ms)
    for a in axioms:
        s.add(a)
    for a in obl.assumptions:
        if drop_quantified and _has_quant(a):
            continue
        s.add(a)
    if obl.goal is not None:
        s.add(z3.Not(obl.goal))
    r = s.check()
    if r == z3.sat:
        return s.model()
    return None


def provably_false(obl, axioms, timeout_ms=5000):
    """For an obligation the solvers left undecided (a model cannot be completed because callee postconditions are quantified):
    a quantifier-free conjunct of the goal that contradicts the quantifier-free assumptions of its path, which are themselves
    satisfiable.  Dropping assumptions only weakens the premises, so the conjunct is false in every state the full path condition
    admits: the obligation cannot hold on this path.  Returns the conjunct or None."""
    from .engine import _has_quant

    if obl.goal is None:
        return None
    s = z3.Solver()
    s.set("timeout", timeout_ms)
    for a in list(axioms) + list(obl.assumptions):
        if not _has_quant(a):
            s.add(a)
    if s.check() != z3.sat:
        return None

    def conj(e):
        if z3.is_and(e):
            for ch in e.children():
                yield from conj(ch)
        else:
            yield e

    for c in conj(obl.goal):
        if _has_quant(c):
            continue
        s.push()
        s.add(c)
        r = s.check()
        s.pop()
        if r == z3.unsat:
            return c
    return None
