"""Frame condition on module-level state, decided syntactically over the real source of every module of the package.

The VC generator evaluates a module-level name by its initialiser (module-level bindings are constants for it) and every
contract states its frame over the parameters only.  Both are sound only if no function rebinds or mutates a module-level
binding, a class attribute, a mutable default argument or an attribute of an imported module: this scan decides it per module
(pyvc.check runs it over the modules of a property's cone; a finding puts the module outside the verifier's subset).  It is an over-approximation by name (it cannot see a mutation through an alias of a module-level
object handed to other code); memo decorators (functools.lru_cache / cache) are reported as well, because a memo keyed by a
subset of what the result depends on is exactly a hidden history."""
import ast
import os

MUTATORS = {"append", "extend", "insert", "pop", "remove", "clear", "update", "setdefault", "add", "discard", "popitem", "sort", "reverse", "__setitem__", "__delitem__",
            "appendleft", "extendleft", "fill", "resize", "put", "itemset", "setflags"}
MEMO_DECORATORS = {"lru_cache", "cache", "cached_property", "memoize"}
MUTABLE_CALLS = {"dict", "list", "set", "defaultdict", "OrderedDict", "deque", "Counter", "bytearray"}


def _is_mutable_display(node):
    if isinstance(node, (ast.Dict, ast.List, ast.Set, ast.ListComp, ast.DictComp, ast.SetComp)):
        return True
    if isinstance(node, ast.Call):
        f = node.func
        name = f.id if isinstance(f, ast.Name) else (f.attr if isinstance(f, ast.Attribute) else None)
        return name in MUTABLE_CALLS or name in ("zeros", "empty", "ones", "array", "full")
    return False


def _module_level_names(tree):
    """name -> 'mutable' | 'binding' for module-level assignments; classes and imported modules separately"""
    names, classes, modules = {}, set(), set()
    for st in tree.body:
        if isinstance(st, (ast.Assign, ast.AnnAssign)):
            targets = st.targets if isinstance(st, ast.Assign) else [st.target]
            for t in targets:
                for n in ast.walk(t):
                    if isinstance(n, ast.Name):
                        names[n.id] = "mutable" if (st.value is not None and _is_mutable_display(st.value)) else "binding"
        elif isinstance(st, ast.ClassDef):
            classes.add(st.name)
        elif isinstance(st, ast.Import):
            for a in st.names:
                modules.add((a.asname or a.name).split(".")[0])
        elif isinstance(st, ast.ImportFrom):
            for a in st.names:
                names.setdefault(a.asname or a.name, "imported")
    return names, classes, modules


def _locals_of(fn):
    """names bound inside the function itself (parameters, assignments, loop targets, withs, comprehensions, imports), minus `global` declarations"""
    bound, globs = set(), set()
    a = fn.args
    for arg in a.posonlyargs + a.args + a.kwonlyargs + ([a.vararg] if a.vararg else []) + ([a.kwarg] if a.kwarg else []):
        bound.add(arg.arg)
    for n in ast.walk(fn):
        if isinstance(n, (ast.Global, ast.Nonlocal)):
            globs.update(n.names)
        elif isinstance(n, ast.Name) and isinstance(n.ctx, (ast.Store, ast.Del)):
            bound.add(n.id)
        elif isinstance(n, (ast.FunctionDef, ast.AsyncFunctionDef, ast.ClassDef)) and n is not fn:
            bound.add(n.name)
        elif isinstance(n, (ast.Import, ast.ImportFrom)):
            for al in n.names:
                bound.add((al.asname or al.name).split(".")[0])
        elif isinstance(n, ast.ExceptHandler) and n.name:
            bound.add(n.name)
    return bound - globs, globs


def _base_name(node):
    """the Name at the root of a chain of attribute / subscript accesses"""
    while isinstance(node, (ast.Attribute, ast.Subscript)):
        node = node.value
    return node if isinstance(node, ast.Name) else None


def scan_module(path):
    """list of (lineno, description) for every write to module-level state found in function bodies of the file"""
    tree = ast.parse(open(path).read())
    names, classes, modules = _module_level_names(tree)
    found = []

    def visit_fn(fn, outer_locals):
        own, globs = _locals_of(fn)
        local = (outer_locals | own) - globs
        # mutable default arguments that the body mutates
        defaults = {}
        args = fn.args.posonlyargs + fn.args.args
        for arg, d in zip(args[len(args) - len(fn.args.defaults):], fn.args.defaults):
            if _is_mutable_display(d):
                defaults[arg.arg] = d
        for arg, d in zip(fn.args.kwonlyargs, fn.args.kw_defaults):
            if d is not None and _is_mutable_display(d):
                defaults[arg.arg] = d
        for dec in fn.decorator_list:
            d = dec.func if isinstance(dec, ast.Call) else dec
            dn = d.id if isinstance(d, ast.Name) else (d.attr if isinstance(d, ast.Attribute) else None)
            if dn in MEMO_DECORATORS:
                found.append((fn.lineno, f"{fn.name} is memoised by @{dn} (results remembered across calls)"))

        def is_module_state(nm):
            if nm is None:
                return None
            if nm.id in defaults:
                return f"mutable default argument {nm.id!r}"
            if nm.id in local:
                return None
            if nm.id in names:
                return f"module-level {nm.id!r}"
            if nm.id in classes:
                return f"attribute of class {nm.id!r}"
            if nm.id in modules:
                return f"attribute of imported module {nm.id!r}"
            return None

        nested, body_nodes, stack = [], [], list(ast.iter_child_nodes(fn))
        while stack:
            n = stack.pop()
            if isinstance(n, (ast.FunctionDef, ast.AsyncFunctionDef)):
                nested.append(n)
                continue
            body_nodes.append(n)
            stack.extend(ast.iter_child_nodes(n))
        for n in body_nodes:
            if isinstance(n, ast.Name) and isinstance(n.ctx, (ast.Store, ast.Del)) and n.id in globs:
                found.append((n.lineno, f"{fn.name} rebinds module-level {n.id!r} (global)"))
            elif isinstance(n, (ast.Subscript, ast.Attribute)) and isinstance(n.ctx, (ast.Store, ast.Del)):
                what = is_module_state(_base_name(n))
                if what:
                    found.append((n.lineno, f"{fn.name} writes into {what}"))
            elif isinstance(n, ast.AugAssign) and isinstance(n.target, ast.Name) and n.target.id in globs:
                found.append((n.lineno, f"{fn.name} updates module-level {n.target.id!r} in place"))
            elif isinstance(n, ast.Call) and isinstance(n.func, ast.Attribute) and n.func.attr in MUTATORS:
                what = is_module_state(_base_name(n.func.value))
                if what and not (what.startswith("attribute of imported module")):
                    found.append((n.lineno, f"{fn.name} calls .{n.func.attr}() on {what}"))
            elif isinstance(n, ast.NamedExpr) and n.target.id in globs:
                found.append((n.lineno, f"{fn.name} rebinds module-level {n.target.id!r}"))
        for ch in nested:
            visit_fn(ch, local)

    def top(node):
        for st in node.body:
            if isinstance(st, (ast.FunctionDef, ast.AsyncFunctionDef)):
                visit_fn(st, set())
            elif isinstance(st, ast.ClassDef):
                top(st)

    top(tree)
    return sorted(set(found))


def package_modules(repo, package="ghedesigner"):
    root = os.path.join(repo, package)
    out = []
    for fn in sorted(os.listdir(root)):
        if fn.endswith(".py"):
            out.append((f"{package}.{fn[:-3]}", os.path.join(root, fn)))
    return out
