"""C10 - the short-time radial g-function is conservative and physically consistent."""
from contracts import radial
from props.common import *  # noqa: F401,F403

R_ = "ghedesigner.radial_numerical_borehole"
FUNCTIONS = [f"{R_}:RadialNumericalBH.__init__#body", f"{R_}:RadialNumericalBH.partial_init", f"{R_}:RadialNumericalBH.fill_radial_cells"]
NATIVE_FUNCTIONS = [f"{R_}:RadialNumericalBH.calc_sts_g_functions"]
NATIVE_CASES = {"quick": 16, "thorough": 600}
NATIVE_LIMIT_S = {"quick": 120, "thorough": 3000}
CASE_TIMEOUT = 120
LEVEL = "other"


def lemmas():
    return radial.LEMMAS


ASSUMPTIONS = [A_REAL, A_ENGINE, "sqrt(2) is SQRT(2) with SQRT(2)^2 = 2, SQRT(2) >= 0; log is uninterpreted (A-LOG: ln(a/b) = ln a - ln b enters the telescoping lemma as hypotheses)",
               "valid borehole = the equivalent tube region fits (sqrt(2) r_out < r_b < 10 m) and leaves a fluid core (sqrt(2) r_out > 2 (r_out - r_in)); R_b* > R_f/2",
               "numpy 2-D array modelled as a list of rows; column store a[:, j] = v and element reads only (library model listed in trusted_base)",
               "calc_sts_g_functions (535-unknown tridiagonal LAPACK solve inside a loop with a data-dependent number of steps) is NOT under a discharged contract"]
NOT_PROVED = ["everything about the computed response - heat stored = heat injected (1e-6), finite, non-decreasing, wall response >= 0, g >= -2 pi k R_b*, 30-point resampling, agreement within 0.5 % "
              "with an independent solution (2x finer mesh, dt = 30 s, own discretisation in /verif): bounded run-time contract on the real class, the temperature field of every step captured "
              "through the LAPACK call",
              "observation (outside the statement): the 30 resampled abscissae are uniform in ln(t/ts) from ln(1e-12 s/ts), so only the last ~6 of them resolve the computed period; each "
              "response value is labelled one step (120 s) earlier than the time it was computed for"]
EXPLANATION = ("The constructor is proved to order the five regions 0 < r_fluid < r_conv < r_in_tube < r_out_tube < r_b < 10 and to tile [r_fluid, 10 m] with 3+1+4+27+500 equal cells per region "
               "(wall thickness kept, convective layer a quarter and fluid core three quarters of it), t_s = H^2/(9 alpha), period >= 49 h. fill_radial_cells is proved cell by cell (535 columns): "
               "r_out[j] = r_in[j+1] for all 534 interfaces, r_in[0] = r_fluid, r_out[534] = 10, wall index 35 at r_b, centres are midpoints, volume pi (r_out^2 - r_in^2), the three fluid cells "
               "carry exactly 2 pi r_in^2 rhoCp_fluid, the convective cell and the 31 pipe/grout cells have the conductivities that make ln(r_out/r_in)/(2 pi k) equal R_f/2 and R_b* - R_f/2, "
               "soil cells have the soil's. Two lemmas turn these into 'the layers between fluid and wall sum to R_b*' (telescoping of the logarithms).")
LEVEL_TEXT = ("Proof of the geometry and of the whole cell table for every valid borehole; the time-marching solution is a bounded run-time contract with an independent reference solver - hence level 'other'.")
LEVEL_NOTE = "Trusted: pyvc, z3, A-REAL, A-LOG. Bounded: real RadialNumericalBH runs compared with a reference solver written in /verif (never counted as proved)."
