"""statuses of all obligations of one contract with a small budget: <qual> [timeout_ms]"""
import sys, importlib
sys.path.insert(0, '/verif')
from pyvc.api import REG
from pyvc.engine import Exec
from pyvc.program import Program
from pyvc import solve
[importlib.import_module('contracts.' + m) for m in __import__('contracts').MODULES]
ex = Exec(Program(sys.argv[3] if len(sys.argv) > 3 else '/repo'), REG)
obls = ex.verify(sys.argv[1])
for o in obls:
    o.extra = dict(o.extra or {}); o.extra.pop("timeout_ms", None)
res = solve.discharge(obls, ex.axioms, jobs=16, timeout_ms=int(sys.argv[2]) if len(sys.argv) > 2 else 3000, use_cvc5=False)
from collections import Counter
c = Counter()
for r in res:
    c[(r.obl.name.split('/', 1)[1], r.status if r.obl.kind != "cover" else "cover-" + r.status)] += 1
for k, v in sorted(c.items()):
    print(v, k)
