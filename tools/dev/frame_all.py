"""VERIF_FRAME=1: verify every FUNCTIONS entry of every property module and list the failing frame obligations with their locations"""
import sys, importlib, os
sys.path.insert(0, '/verif')
from pyvc.api import REG
from pyvc.engine import Exec
from pyvc.program import Program
from pyvc import solve
[importlib.import_module('contracts.' + m) for m in __import__('contracts').MODULES]
quals = []
for p in sorted(os.listdir('/verif/props')):
    if p.startswith('C') and (len(sys.argv) < 2 or p[:3] in sys.argv[1:]):
        m = importlib.import_module('props.' + p[:-3])
        for q in m.FUNCTIONS:
            if q not in quals:
                quals.append(q)
prog = Program('/repo')
for q in quals:
    ex = Exec(prog, REG)
    try:
        obls = [o for o in ex.verify(q) if "/frame/" in o.name]
    except Exception as e:
        print("ENGINE", q, type(e).__name__, str(e)[:200]); continue
    res = solve.discharge(obls, ex.axioms, jobs=16, timeout_ms=10000)
    badr = [r for r in res if r.status != "unsat"]
    if badr:
        locs = sorted({l for r in badr for l in (r.obl.extra or {}).get("frame_locations", [])})
        print("FRAME", q, {r.status for r in badr}, locs[:12], flush=True)
    else:
        print("ok", q, len(obls), flush=True)
