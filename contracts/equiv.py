"""Contracts for the equivalent single U-tube (C15)."""
import z3

from pyvc.api import *
from pyvc.engine import PI
from pyvc.libmodels import LOG
from pyvc.run import native

B_ = "ghedesigner.borehole_heat_exchangers"

# ---- the bulk quantities handed to the conversion: exactly the geometric volumes per metre and the two resistances ----------------
contract(f"{B_}:MultipleUTube.u_tube_volumes",
         dict(self=ObjOf(f"{B_}:MultipleUTube", nPipes=Int, r_in=Real, r_out=Real, h_f=Real, pipe=ObjOf("ghedesigner.media:Pipe", k=Real))),
         requires=[("physical", lambda E: And(E.self.nPipes >= 1, E.self.r_in > 0, E.self.r_out > E.self.r_in, E.self.h_f > 0, E.self.pipe.k > 0))],
         ensures=[("fluid-volume-per-metre", lambda E: E.result[0] == 2 * E.self.nPipes * PI * E.self.r_in * E.self.r_in),
                  ("pipe-wall-volume-per-metre", lambda E: E.result[1] == 2 * E.self.nPipes * PI * (E.self.r_out * E.self.r_out - E.self.r_in * E.self.r_in)),
                  ("pipe-resistance-of-all-legs-in-parallel", lambda E: E.result[3] == LOG(E.self.r_out / E.self.r_in) / (2 * E.self.nPipes * (2 * PI) * E.self.pipe.k)),
                  ("convective-resistance-positive", lambda E: E.result[2] > 0)],
         returns=TupleOf(Real, Real, Real, Real))

contract(f"{B_}:CoaxialPipe.concentric_tube_volumes",
         dict(self=ObjOf(f"{B_}:CoaxialPipe", r_inner=FixedList([Real, Real]), r_outer=FixedList([Real, Real]), h_f_a_in=Real, pipe=ObjOf("ghedesigner.media:Pipe", k=FixedList([Real, Real])))),
         requires=[("nested-radii", lambda E: And(0 < E.self.r_inner[0], E.self.r_inner[0] < E.self.r_inner[1], E.self.r_inner[1] < E.self.r_outer[0], E.self.r_outer[0] < E.self.r_outer[1],
                                                  E.self.h_f_a_in > 0, E.self.pipe.k[1] > 0))],
         ensures=[("fluid-volume-is-core-plus-annulus", lambda E: E.result[0] == PI * (E.self.r_inner[0] * E.self.r_inner[0] + E.self.r_outer[0] * E.self.r_outer[0] - E.self.r_inner[1] * E.self.r_inner[1])),
                  ("pipe-wall-volume-is-both-walls", lambda E: E.result[1] == PI * (E.self.r_inner[1] * E.self.r_inner[1] - E.self.r_inner[0] * E.self.r_inner[0]
                                                                                   + E.self.r_outer[1] * E.self.r_outer[1] - E.self.r_outer[0] * E.self.r_outer[0])),
                  ("volumes-positive", lambda E: And(E.result[0] > 0, E.result[1] > 0)),
                  ("outer-wall-resistance", lambda E: E.result[3] == LOG(E.self.r_outer[1] / E.self.r_outer[0]) / ((2 * PI) * E.self.pipe.k[1]))],
         returns=TupleOf(Real, Real, Real, Real))

contract(f"{B_}:SingleUTube.to_single", dict(self=ObjOf(f"{B_}:SingleUTube", R_fp=Real)), name=f"{B_}:SingleUTube.to_single#identity",
         ensures=[("a-single-u-tube-converts-to-itself", lambda E: E.result.raw() is E.self.raw())], returns=ObjOf(f"{B_}:SingleUTube")).applies = lambda env: False


def lemma_equal_volume_radii():
    """the radii chosen by equivalent_single_u_tube (r' = sqrt(V/(2 pi))) give a two-leg tube with exactly the same volumes"""
    vf, vp, ri, ro = z3.Reals("vol_fluid vol_pipe r_in_eq r_out_eq")
    hyp = [vf > 0, vp > 0, ri >= 0, ro >= 0, ri * ri == vf / (2 * PI), ro * ro == (vf + vp) / (2 * PI)]
    return hyp, And(2 * PI * ri * ri == vf, 2 * PI * (ro * ro - ri * ri) == vp, ro > ri)


LEMMAS = [("equal-volume-radii-preserve-fluid-and-pipe-volume", lemma_equal_volume_radii)]


# ---- run-time form on the real exchangers (pygfunction's multipole numerics behind two root solves: out of the engine's reach) ---------
def _make_bhe(a):
    from ghedesigner.borehole import GHEBorehole
    from ghedesigner.borehole_heat_exchangers import CoaxialPipe, MultipleUTube, SingleUTube
    from ghedesigner.enums import DoubleUTubeConnType
    from ghedesigner.media import GHEFluid, Grout, Pipe, Soil

    fluid = GHEFluid(a.get("fluid", "Water"), a.get("conc", 0.0))
    m = a["flow"] / 1000.0 * fluid.rho
    soil, grout = Soil(a["k_soil"], 2343493.0, 18.3), Grout(a["k_grout"], 3901000.0)
    bh = GHEBorehole(a.get("H", 100.0), 2.0, a["r_b"], 0.0, 0.0)
    kind = a["kind"]
    if kind == "coaxial":
        pipe = Pipe((0, 0), [a["r_ii"], a["r_io"]], [a["r_oi"], a["r_oo"]], 0, 1.0e-6, (a["k_pipe"], a["k_pipe"]), 1542000.0)
        return CoaxialPipe(m, fluid, bh, pipe, grout, soil)
    n = 1 if kind == "single" else 2
    pipe = Pipe(Pipe.place_pipes(a["s"], a["r_out"], n), a["r_in"], a["r_out"], a["s"], 1.0e-6, a["k_pipe"], 1542000.0)
    if kind == "single":
        return SingleUTube(m, fluid, bh, pipe, grout, soil)
    return MultipleUTube(m, fluid, bh, pipe, grout, soil, config=DoubleUTubeConnType.SERIES if kind == "double_series" else DoubleUTubeConnType.PARALLEL)


def _equiv_check(a):
    import warnings
    from math import pi

    with warnings.catch_warnings():
        warnings.simplefilter("ignore")
        bhe = _make_bhe(a)
        before = (bhe.b.r_b, bhe.grout.k, bhe.pipe.k if not isinstance(bhe.pipe.k, (list, tuple)) else tuple(bhe.pipe.k), bhe.calc_effective_borehole_resistance())
        eq = bhe.to_single()
        if a["kind"] == "single":
            return (eq is bhe), {"why": "a single U-tube does not convert to itself"}
        vf, vp, rc, rp = bhe.u_tube_volumes() if a["kind"].startswith("double") else bhe.concentric_tube_volumes()
        rel = lambda x, y: abs(x - y) / max(abs(y), 1e-300)  # noqa: E731
        if rel(2 * pi * eq.r_in ** 2, vf) > 1e-9 or rel(2 * pi * (eq.r_out ** 2 - eq.r_in ** 2), vp) > 1e-9:
            return False, {"why": "fluid / pipe-wall volume per metre not preserved", "want": [vf, vp], "got": [2 * pi * eq.r_in ** 2, 2 * pi * (eq.r_out ** 2 - eq.r_in ** 2)], "signature": "volumes"}
        if rel(eq.pipe.r_in, eq.r_in) > 0 or rel(eq.pipe.r_out, eq.r_out) > 0:
            return False, {"why": "equivalent tube's pipe record disagrees with its radii", "signature": "volumes"}
        if rel(eq.R_fp, rc + rp) > 1e-4:
            from math import log

            k_prelim = log(eq.r_out / eq.r_in) / (2 * pi * 2 * rp)  # the conductivity the pipe-conductivity solve starts from; its bracket is [k/100, 10 k]
            clamped = rel(eq.pipe.k, 10 * k_prelim) < 1e-9 or rel(eq.pipe.k, k_prelim / 100) < 1e-9
            return False, {"why": "combined convective-plus-pipe resistance not reproduced", "want": rc + rp, "got": eq.R_fp, "k_pipe_eq": eq.pipe.k, "k_pipe_preliminary": k_prelim,
                           "convective_resistance_of_the_equivalent_tube_alone": eq.R_f,
                           "signature": "fluid-pipe-resistance/no-root-in-bracket-conductivity-clamped" if clamped else "fluid-pipe-resistance/other"}
        after = (bhe.b.r_b, bhe.grout.k, bhe.pipe.k if not isinstance(bhe.pipe.k, (list, tuple)) else tuple(bhe.pipe.k), bhe.calc_effective_borehole_resistance())
        if after != before:
            return False, {"why": "the conversion changed the original exchanger", "before": before, "after": after, "signature": "original-modified"}
        rb, rb_eq = before[3], eq.calc_effective_borehole_resistance()
        if rel(rb_eq, rb) > 1e-3:
            # which defect? the tube handed back still carries the delta-circuit of the preliminary grout conductivity
            eq.update_thermal_resistances(eq.R_fp)
            rb_refreshed = eq.calc_effective_borehole_resistance()
            stale = rel(rb_refreshed, rb_eq) > 1e-9
            return False, {"why": "effective borehole resistance of the equivalent tube differs from the original's by more than 0.1 %", "rb": rb, "rb_equivalent": rb_eq,
                           "relative_error": rel(rb_eq, rb), "k_grout_equivalent": eq.grout.k, "rb_after_refreshing_the_delta_circuit": rb_refreshed,
                           "signature": "rb-mismatch/stale-delta-circuit-and-clamped-grout-conductivity" if stale and eq.grout.k in (7.0, 1e-2) else "rb-mismatch/other"}
    return True, {}


_eq_counter = [0]


def _equiv_gen(rng):
    k = _eq_counter[0]
    _eq_counter[0] += 1
    kind = ["double_parallel", "double_series", "coaxial", "single", "coaxial"][k] if k < 5 else rng.choice(["double_parallel", "double_series", "coaxial", "coaxial", "single"])
    a = {"kind": kind, "flow": rng.choice([0.1, 0.3, 0.5, 0.8, 1.5]), "k_soil": round(rng.uniform(1.0, 4.0), 2), "k_grout": round(rng.uniform(0.6, 2.4), 2), "k_pipe": round(rng.uniform(0.3, 0.6), 2),
         "fluid": rng.choice(["Water", "Water", "PropyleneGlycol"]), "H": rng.choice([50.0, 100.0, 200.0])}
    a["conc"] = 20.0 if a["fluid"] != "Water" else 0.0
    if k in (2, 4):  # the two recorded findings' inputs come first: coaxial at 0.1 L/s (no root for the pipe conductivity) and at 0.8 L/s (stale delta-circuit)
        a["flow"] = 0.1 if k == 2 else 0.8
    if kind == "coaxial":
        r_ii = rng.uniform(0.018, 0.024)
        a.update(r_ii=r_ii, r_io=r_ii + rng.uniform(0.002, 0.004), r_oi=r_ii + rng.uniform(0.02, 0.03))
        a["r_oo"] = a["r_oi"] + rng.uniform(0.004, 0.008)
        a["r_b"] = a["r_oo"] + rng.uniform(0.01, 0.03)
    else:
        a.update(r_in=rng.uniform(0.011, 0.017), s=rng.uniform(0.012, 0.03))
        a["r_out"] = a["r_in"] + rng.uniform(0.002, 0.005)
        a["s"] = max(a["s"], 0.9 * a["r_out"])  # the four legs of a double U-tube must not overlap: s >= 2 (sqrt 2 - 1) r_out
        a["r_b"] = max(0.055, 2 * a["r_out"] + a["s"] / 2 + 0.012) + rng.uniform(0.0, 0.03)
    return a


native(f"{B_}:GHEDesignerBoreholeWithMultiplePipes.equivalent_single_u_tube", _equiv_check, _equiv_gen, None,
       bound="real double-U (series/parallel), coaxial and single exchangers: radii/spacings that fit, r_b 55..110 mm, k_soil 1..4, k_grout 0.6..2.4, k_pipe 0.3..0.6, water / 20 % propylene glycol, 0.1..1.5 L/s, "
             "H 50..200 m: volumes (1e-9), R_fp (1e-4), original untouched, R_b* (0.1 %)")
