"""Write sets (frame conditions) of the verified bodies that did not need one for their callers.

Every function verified against its body gets the obligation `<function>/frame/only-declared-locations-change`: at each normal exit,
everything reachable from the parameters at entry is either named here / in the contract's `assigns`, or provably unchanged.  The
history-independence arguments of C13 rest on these frames (a setter writes only its own slot; a simulation writes only result fields).
"""
from pyvc.api import REG, writes

S = "ghedesigner.search_routines"
M = "ghedesigner.manager:GHEManager"
D = "ghedesigner.design"
G = "ghedesigner.ground_heat_exchangers"
H = "ghedesigner.ground_loads:HybridLoad"
FRAMES = {
    # constructors: all attributes of the new object
    f"{S}:Bisection2D.__init__#nocap": ["self.*"], f"{S}:Bisection2D.__init__#cap": ["self.*"],
    f"{S}:BisectionZD.__init__#nocap": ["self.*"], f"{S}:BisectionZD.__init__#cap": ["self.*"],
    f"{D}:DesignNearSquare.__init__#body": ["self.*"], f"{D}:DesignRectangle.__init__#body": ["self.*"], f"{D}:DesignBase.__init__#body": ["self.*"],
    f"{D}:DesignRowWise.__init__#body": ["self.*"], f"{G}:BaseGHE.__init__#body": ["self.*"],
    "ghedesigner.borehole_heat_exchangers:GHEDesignerBoreholeBase.__init__": ["self.*"],
    # the hybrid-load builders: result arrays of the object only
    f"{H}.process_month_loads": ["self.hour", "self.load", "self.step_func_load", "self.monthly_cl[]", "self.monthly_hl[]", "self.monthly_peak_cl[]", "self.monthly_peak_hl[]",
                                 "self.monthly_peak_cl_day[]", "self.monthly_peak_hl_day[]", "self.monthly_peak_cl_duration[]", "self.monthly_peak_hl_duration[]"],
    f"{H}.split_loads_by_month": ["self.monthly_cl[]", "self.monthly_hl[]", "self.monthly_peak_cl[]", "self.monthly_peak_hl[]", "self.monthly_avg_cl[]", "self.monthly_avg_hl[]",
                                  "self.monthly_peak_cl_day[]", "self.monthly_peak_hl_day[]"],
    f"{H}.process_two_day_loads": ["self.two_day_hourly_peak_cl_loads[]", "self.two_day_hourly_peak_hl_loads[]"],
    # simulation: result fields only
    f"{G}:GHE.simulate#hybrid-body": ["self.bhe_eq", "self.dTb", "self.hp_eft", "self.loading", "self.times"],
    f"{G}:GHE.simulate#hourly-body-fresh": ["self.bhe_eq", "self.dTb", "self.hp_eft", "self.loading", "self.times"],
    f"{G}:GHE.simulate#hourly-body-after-another-simulation": ["self.bhe_eq", "self.dTb", "self.hp_eft", "self.loading", "self.times"],
    f"{G}:GHE.simulate#hourly-body-array-loads": ["self.bhe_eq", "self.dTb", "self.hp_eft", "self.loading", "self.times"],
    f"{S}:RowWiseModifiedBisectionSearch.initialize_ghe#body": ["self.ghe", "self.borehole.H"],
}
for _geom in ("NEARSQUARE", "RECTANGLE", "BIRECTANGLE", "BIZONEDRECTANGLE", "BIRECTANGLECONSTRAINED", "ROWWISE"):
    for _flow in ("system", "Borehole"):
        FRAMES[f"{M}.set_design#{_geom}-{_flow}"] = ["self._design"]
for _cls in ("DesignNearSquare", "DesignRectangle"):
    for _v in ("nocap", "cap"):
        FRAMES[f"{M}.find_design#{_cls}-{_v}"] = ["self._search", "self._search_time", "self._design.borehole.H"]

for _name, _paths in FRAMES.items():
    REG.contracts[_name].assigns = list(REG.contracts[_name].assigns) + writes(*_paths)
