"""Contracts for the polygon-constrained domain (C04): remove_cutout, determine_largest_rectangle, reorder_domain, polygonal_land_constraint."""
import z3

from contracts import shape as _shape
from pyvc.api import *
from pyvc.run import native

FR = "ghedesigner.feature_recognition"
DM = "ghedesigner.domains"
Point = TupleOf(Real, Real)
Poly = ListOf(Point, minlen=1)

# PPC(polygon, x, y, tol) in {-1, 0, 1}: the classification proved for point_polygon_check in C16 (caller view: a function of its arguments)
PPC = z3.Function("PPC", z3.IntSort(), z3.RealSort(), z3.RealSort(), z3.RealSort(), z3.IntSort())
REG.contracts["ghedesigner.shape:point_polygon_check"].ensures_caller = [
    ("classification", lambda E: And(E.result == PPC(E.contour.key, E.point[0], E.point[1], E.on_edge_tolerance), Or(E.result == -1, E.result == 0, E.result == 1)))]

TOL = z3.RealVal("1/100")  # on_edge_tolerance default of remove_cutout: the documented edge tolerance
CNT = z3.Function("KEPT_BEFORE", z3.IntSort(), z3.IntSort())  # number of kept coordinates among coordinates[0..i-1]


def R(E, b, c):
    return PPC(E.boundaries[b].key, c[0], c[1], E.on_edge_tolerance)


def keep(E, c):
    """membership rule of the property: property polygons keep inside (+contour), no-go polygons drop inside (+contour unless kept)"""
    nb = E.boundaries.len
    inside = exists(1, lambda b: And(0 <= b, b < nb, R(E, b, c) == 1))
    on_edge = exists(1, lambda b: And(0 <= b, b < nb, R(E, b, c) == 0))
    return If(E.remove_inside, And(Not(inside), Not(And(on_edge, Not(E.keep_contour)))), Or(inside, And(on_edge, E.keep_contour)))


def _kept(E, new, upto, part=None):
    cs = E.coordinates
    empty = isinstance(new.len, int) and new.len == 0
    parts = {
        "length": new.len == CNT(upto),
        "every-kept-coordinate-is-present-in-order": True if empty else forall(1, lambda j: Implies(And(0 <= j, j < upto, keep(E, cs[j])), And(new[CNT(j)][0] == cs[j][0], new[CNT(j)][1] == cs[j][1]))),
        "every-element-is-a-kept-coordinate": True if empty else forall(1, lambda p: Implies(And(0 <= p, p < new.len),
                                                exists(1, lambda j: And(0 <= j, j < upto, keep(E, cs[j]), CNT(j) == p, new[p][0] == cs[j][0], new[p][1] == cs[j][1])))),
    }
    return parts[part] if part else And(*[v for v in parts.values() if v is not True])


KEPT_PARTS = ["length", "every-kept-coordinate-is-present-in-order", "every-element-is-a-kept-coordinate"]


def _classified(E):
    if isinstance(E.boundary_results.len, int) and E.boundary_results.len == 0:
        return E._k1 == 0
    return And(E.boundary_results.len == E._k1, forall(1, lambda b: Implies(And(0 <= b, b < E._k1), E.boundary_results[b] == R(E, b, E.coordinate))))


contract(f"{FR}:remove_cutout",
         dict(coordinates=ListOf(Point), boundaries=ListOf(Poly, minlen=1), remove_inside=Bool, keep_contour=Bool, on_edge_tolerance=Real),
         requires=[("tol-positive", lambda E: E.on_edge_tolerance > 0)],
         defs=[("KEPT_BEFORE", lambda E: And(CNT(0) == 0, forall(1, lambda i: Implies(And(0 <= i, i < E.coordinates.len),
                                                                                          And(CNT(i + 1) == CNT(i) + If(keep(E, E.coordinates[i]), 1, 0), CNT(i) >= 0, CNT(i) <= i)),
                                                                 pats=lambda i: [CNT(i + 1)]))),
               # consequence of the recursion by induction (stated, not re-proved): the count is non-decreasing
               ("KEPT_BEFORE-monotone", lambda E: forall(2, lambda a, b: Implies(And(0 <= a, a <= b, b <= E.coordinates.len), CNT(a) <= CNT(b)), pats=lambda a, b: [CNT(a), CNT(b)]))],
         loops={0: LoopSpec(invariants=[(p_, (lambda E, p_=p_: _kept(E, E.new_coordinates, E._k0, p_))) for p_ in KEPT_PARTS], shapes={"new_coordinates": ListOf(Point), "boundary_results": ListOf(Int)}),
                1: LoopSpec(invariants=[("classified-so-far", lambda E: _classified(E))], shapes={"boundary_results": ListOf(Int)})},
         ensures=[(p_, (lambda E, p_=p_: _kept(E, E.result, E.coordinates.len, p_))) for p_ in KEPT_PARTS],
         returns=ListOf(Point))


# ---- determine_largest_rectangle: bounding box of all outlines ------------------------------------------------------
def _bbox(E, r):
    pb = E.property_boundary
    return And(
        forall(2, lambda o, k: Implies(And(0 <= o, o < pb.len, 0 <= k, k < pb[o].len),
                                       And(pb[o][k][0] <= r[1][0], pb[o][k][0] >= r[0][0], pb[o][k][1] <= r[2][1], pb[o][k][1] >= r[0][1]))),
        r[0][0] == r[3][0], r[0][0] == r[4][0], r[1][0] == r[2][0], r[0][1] == r[1][1], r[0][1] == r[4][1], r[2][1] == r[3][1])


contract(f"{FR}:determine_largest_rectangle", dict(property_boundary=ListOf(Poly, minlen=1)),
         loops={0: LoopSpec(invariants=[("bounds-so-far", lambda E: _bounds(E, E._k0, None))], shapes={"x_max": Real, "y_max": Real, "x_min": Real, "y_min": Real}),
                1: LoopSpec(invariants=[("bounds-so-far", lambda E: _bounds(E, E._k0, E._k1))], shapes={"x_max": Real, "y_max": Real, "x_min": Real, "y_min": Real})},
         ensures=[("covers-every-vertex", lambda E: _bbox(E, E.result))],
         returns=FixedList(FixedList([Real, Real]), 5))


def _bounds(E, o_done, k_done):
    """all vertices of outlines < o_done (and of outline o_done up to k_done) are inside the running bounds"""
    from pyvc.values import Inf

    pb = E.property_boundary
    xs = [E.x_max, E.x_min, E.y_max, E.y_min]
    if any(isinstance(v, Inf) for v in xs):
        return And(o_done == 0, True if k_done is None else k_done == 0)

    def inside(o, k):
        return And(pb[o][k][0] <= E.x_max, pb[o][k][0] >= E.x_min, pb[o][k][1] <= E.y_max, pb[o][k][1] >= E.y_min)

    full = forall(2, lambda o, k: Implies(And(0 <= o, o < o_done, 0 <= k, k < pb[o].len), inside(o, k)))
    if k_done is None:
        return full
    return And(full, forall(1, lambda k: Implies(And(0 <= k, k < k_done), inside(o_done, k))))


# ---- reorder_domain: stable sort of the fields by size ----------------------------------------------------------------
Fields = ListOf(ListOf(Point), minlen=1)  # reorder_domain is verified for non-empty domains (empty: see raises_caller)


def same_field(a, b):
    return And(a.len == b.len, forall(1, lambda p: Implies(And(0 <= p, p < a.len), And(a[p][0] == b[p][0], a[p][1] == b[p][1]))))


contract(f"{DM}:reorder_domain", dict(domain=Fields, descriptors=ListOf(OpaqueOf("str"))),
         requires=[("descriptors-cover-the-fields", lambda E: E.descriptors.len >= E.domain.len)],
         ensures=[("non-decreasing-borehole-count", lambda E: forall(2, lambda a, b: Implies(And(0 <= a, a < b, b < E.result[0].len), E.result[0][a].len <= E.result[0][b].len))),
                  ("same-number-of-fields", lambda E: E.result[0].len == E.domain.len),
                  ("every-field-is-an-input-field", lambda E: forall(1, lambda a: Implies(And(0 <= a, a < E.result[0].len),
                                                                                         exists(1, lambda c: And(0 <= c, c < E.domain.len, same_field(E.result[0][a], E.domain[c]))))))],
         returns=TupleOf(Fields, ListOf(OpaqueOf("str"))))
# caller view: the zip object of an empty domain cannot be unpacked into two names - the ValueError of that unpacking is modelled here
REG.contracts[f"{DM}:reorder_domain"].raises_caller = {"ValueError": lambda E: E.domain.len == 0}


# ---- caller view of remove_cutout (no per-call spec function) -------------------------------------------------------------
def _sublist(E):
    cs, out = E.coordinates, E.result
    return And(out.len <= cs.len,
               forall(1, lambda p: Implies(And(0 <= p, p < out.len), And(keep(E, out[p]),
                                                                         exists(1, lambda j: And(0 <= j, j < cs.len, out[p][0] == cs[j][0], out[p][1] == cs[j][1]))))),
               forall(1, lambda j: Implies(And(0 <= j, j < cs.len, keep(E, cs[j])),
                                           exists(1, lambda p: And(0 <= p, p < out.len, out[p][0] == cs[j][0], out[p][1] == cs[j][1])))))


REG.contracts[f"{FR}:remove_cutout"].ensures_caller = [("sublist-by-the-membership-rule", _sublist)]
# and prove that the caller view follows from the verified postcondition: it is listed among the ensures too
REG.contracts[f"{FR}:remove_cutout"].ensures.append(("caller-view-follows", _sublist))

# bi_rectangle_nested: abstract here (C03 verifies the rectangular family)
Nested3 = ListOf(ListOf(ListOf(Point)))
contract(f"{DM}:bi_rectangle_nested", dict(length_x=Real, length_y=Real, b_min=Real, b_max_x=Real, b_max_y=Real),
         ensures=[("descriptors-aligned", lambda E: And(E.result[1].len == E.result[0].len,
                                                        forall(1, lambda a: Implies(And(0 <= a, a < E.result[0].len), E.result[1][a].len == E.result[0][a].len))))],
         returns=TupleOf(Nested3, ListOf(ListOf(OpaqueOf("str")))), name=f"{DM}:bi_rectangle_nested#abstract").applies = lambda env: True


def in_property(E, c):
    """inside, or on the boundary within the documented edge tolerance, of at least one property polygon"""
    pb = E.property_boundary
    return Or(exists(1, lambda b: And(0 <= b, b < pb.len, PPC(pb[b].key, c[0], c[1], TOL) == 1)),
              exists(1, lambda b: And(0 <= b, b < pb.len, PPC(pb[b].key, c[0], c[1], TOL) == 0)))


def outside_no_go(E, c):
    """neither inside nor on the boundary of any no-go polygon"""
    ng = E.no_go_boundaries
    if isinstance(ng.len, int) and ng.len == 0:
        return True
    return And(Not(exists(1, lambda b: And(0 <= b, b < ng.len, PPC(ng[b].key, c[0], c[1], TOL) == 1))),
               Not(exists(1, lambda b: And(0 <= b, b < ng.len, PPC(ng[b].key, c[0], c[1], TOL) == 0))))


def field_ok(E, f):
    return And(f.len >= 1, forall(1, lambda p: Implies(And(0 <= p, p < f.len), And(in_property(E, f[p]), outside_no_go(E, f[p])))))


def _plc_inner(E, lst, upto):
    if isinstance(lst.len, int) and lst.len == 0:
        return True
    return And(lst.len <= upto, forall(1, lambda a: Implies(And(0 <= a, a < lst.len), field_ok(E, lst[a]))))


contract(f"{DM}:polygonal_land_constraint",
         dict(b_min=Real, b_max_x=Real, b_max_y=Real, property_boundary=ListOf(Poly, minlen=1), no_go_boundaries=ListOf(Poly)),
         loops={
             0: LoopSpec(invariants=[("cut-lists-so-far", lambda E: _plc_outer(E, E.coordinates_domain_nested_cutout))],
                         shapes={"coordinates_domain_nested_cutout": ListOf(ListOf(ListOf(Point))), "new_coordinates_domain": ListOf(ListOf(Point)), "new_coordinates": ListOf(Point)}),
             1: LoopSpec(invariants=[("cut-fields-so-far", lambda E: _plc_inner(E, E.new_coordinates_domain, E._k1))],
                         shapes={"new_coordinates_domain": ListOf(ListOf(Point)), "new_coordinates": ListOf(Point)}),
             2: LoopSpec(invariants=[("reordered-lists-so-far", lambda E: _plc_final(E, E.coordinates_domain_nested_cutout_reordered))],
                         shapes={"coordinates_domain_nested_cutout_reordered": ListOf(ListOf(ListOf(Point))), "field_descriptors_reordered": ListOf(ListOf(OpaqueOf("str")))}),
         },
         raises={"ValueError": None},
         ensures=[("every-borehole-inside-the-property-and-outside-no-go-zones", lambda E: _plc_final(E, E.result[0], order=False)),
                  ("every-list-ordered-by-non-decreasing-borehole-count", lambda E: _plc_final(E, E.result[0], fields=False))],
         returns=TupleOf(ListOf(ListOf(ListOf(Point))), ListOf(ListOf(OpaqueOf("str")))))


def _plc_outer(E, lst):
    if isinstance(lst.len, int) and lst.len == 0:
        return E._k0 == 0
    nested = E.coordinates_domain_nested
    return And(lst.len == E._k0, forall(1, lambda a: Implies(And(0 <= a, a < lst.len), lst[a].len <= nested[a].len)),
               forall(2, lambda a, f: Implies(And(0 <= a, a < lst.len, 0 <= f, f < lst[a].len), field_ok(E, lst[a][f]))))


def _plc_final(E, lst, fields=True, order=True):
    if isinstance(lst.len, int) and lst.len == 0:
        return True
    cs = []
    if fields:
        cs.append(forall(2, lambda a, f: Implies(And(0 <= a, a < lst.len, 0 <= f, f < lst[a].len), field_ok(E, lst[a][f]))))
    if order:
        cs.append(forall(3, lambda a, f, g: Implies(And(0 <= a, a < lst.len, 0 <= f, f < g, g < lst[a].len), lst[a][f].len <= lst[a][g].len)))
    return And(*cs)


# ---- run-time form: the real polygonal_land_constraint against the exact classification oracle -------------------------
def _plc_check(a):
    from contracts.shape import _ppc_oracle
    from ghedesigner.domains import bi_rectangle_nested, polygonal_land_constraint

    prop = [[tuple(p) for p in poly] for poly in a["property"]]
    nogo = [[tuple(p) for p in poly] for poly in a["no_go"]]
    # outlines may also be given as closed rings (first vertex repeated at the end): the tool gets that form, the oracle the plain vertex list
    closed = a.get("closed")
    prop_in = [p + [p[0]] for p in prop] if closed in ("property", "both") else prop
    nogo_in = [p + [p[0]] for p in nogo] if closed in ("no_go", "both") else nogo
    try:
        out, _descr = polygonal_land_constraint(a["b_min"], a["b_max_x"], a["b_max_y"], prop_in, nogo_in)
    except ValueError:
        return True, {"outcome": "ValueError"}
    tol = 0.01
    for lst in out:
        sizes = [len(f) for f in lst]
        if sizes != sorted(sizes):
            return False, {"why": "candidate list not ordered by borehole count", "sizes": sizes[:12]}
        for f in lst:
            for c in f:
                cp = [_ppc_oracle(p, tuple(c), tol) for p in prop]
                cn = [_ppc_oracle(p, tuple(c), tol) for p in nogo]
                if None in cp or None in cn:
                    continue
                if not any(v in (0, 1) for v in cp):
                    return False, {"why": "borehole outside every property polygon", "borehole": list(c)}
                if any(v in (0, 1) for v in cn):
                    return False, {"why": "borehole inside or on the boundary of a no-go polygon", "borehole": list(c)}
    # completeness: every grid borehole clearly inside the property and clearly outside the no-go zones is kept
    xs = [p[0] for poly in prop for p in poly]
    ys = [p[1] for poly in prop for p in poly]
    grid, _ = bi_rectangle_nested(max(xs), max(ys), a["b_min"], a["b_max_x"], a["b_max_y"])
    emitted = {}
    for lst in out:
        for f in lst:
            emitted.setdefault(len(f), []).append(set(map(tuple, f)))
    for lst in grid:
        for f in lst:
            want = set()
            ambiguous = False
            for c in f:
                cp = [_ppc_oracle(p, tuple(c), tol) for p in prop]
                cn = [_ppc_oracle(p, tuple(c), tol) for p in nogo]
                if None in cp or None in cn:
                    ambiguous = True
                    break
                if any(v in (0, 1) for v in cp) and not any(v in (0, 1) for v in cn):
                    want.add(tuple(c))
            if ambiguous or not want:
                continue
            if not any(s == want for s in emitted.get(len(want), [])):
                return False, {"why": "a grid field's admissible boreholes are not emitted as a candidate (a borehole was dropped or added)", "size": len(want)}
    return True, {}


def _plc_gen(rng):
    w, h = rng.choice([40.0, 60.0, 85.0]), rng.choice([30.0, 40.0, 70.0])
    shape = rng.choice(["rect", "L", "tri", "two"])
    if shape == "rect":
        prop = [[(0, 0), (w, 0), (w, h), (0, h)]]
    elif shape == "L":
        prop = [[(0, 0), (w, 0), (w, h / 2), (w / 2, h / 2), (w / 2, h), (0, h)]]
    elif shape == "tri":
        prop = [[(0, 0), (w, 0), (0, h)]]
    else:
        prop = [[(0, 0), (w / 2 - 2, 0), (w / 2 - 2, h), (0, h)], [(w / 2 + 2, 0), (w, 0), (w, h), (w / 2 + 2, h)]]
    if rng.random() < 0.5:
        prop = [list(reversed(p)) for p in prop]
    nogo = []
    if rng.random() < 0.6:
        x0, y0 = rng.uniform(2, w / 3), rng.uniform(2, h / 3)
        nogo.append([(x0, y0), (x0 + w / 4, y0), (x0 + w / 4, y0 + h / 4), (x0, y0 + h / 4)])
    return {"property": prop, "no_go": nogo, "b_min": rng.choice([4.0, 5.0]), "b_max_x": rng.choice([8.0, 10.0]), "b_max_y": rng.choice([8.0, 12.0]),
            "closed": rng.choice([None, None, None, "property", "no_go", "both"])}


native(f"{DM}:polygonal_land_constraint", _plc_check, _plc_gen, None,
       bound="rectangular, L-shaped, triangular and two-outline properties in both orientations, optional rectangular no-go zone, outlines as vertex lists or as closed rings, spacings 4..12 m; exact rational classification oracle; soundness, completeness per grid field, ordering")
