"""pyvc - contract-driven verification-condition generator for the Python subset used by GHEDesigner."""
