#!/usr/bin/env python3
"""tools/seeded_meta.py <seeded-id> [note]: fill meta.json's confirmed_by_builder from check_output.txt of the last seeded run"""
import json
import re
import sys

sid = sys.argv[1]
note = sys.argv[2] if len(sys.argv) > 2 else None
d = f"/verif/seeded/{sid}/"
out = open(d + "check_output.txt").read()
m = json.load(open(d + "meta.json"))
c = m.get("confirmed_by_builder") or {}
c["demo_exit_with_change"] = int(re.search(r"demo.py exit with change applied: (\d+)", out).group(1))
c["demo_exit_unchanged"] = int(re.search(r"demo.py exit on the unchanged tree: (\d+)", out).group(1))
c["checks_run"] = re.findall(r"--- .*\./vcheck (\S+)", out)
c["violations"] = sorted(set(re.findall(r"VIOLATION property=(\S+) replay=\S+ obligation=(\S+)", out)))
c["violations"] = [f"{p} {o}" for p, o in c["violations"]]
c["caught"] = bool(c["violations"])
if note is not None:
    c["note"] = note
c.setdefault("note", "")
m["confirmed_by_builder"] = c
json.dump(m, open(d + "meta.json", "w"), indent=1)
print(sid, "caught" if c["caught"] else "MISSED", c["violations"][:3])
