"""Sidecar contracts for the functions of /repo/ghedesigner (nothing in the repository is edited)."""
MODULES = ["utilities", "shape", "output", "ghe", "search", "realruns", "flow", "loads", "simulate", "gfunc", "polygons", "fields", "cli", "inputs", "history", "equiv", "radial", "rowwise", "rowsearch", "ctors", "frames"]
