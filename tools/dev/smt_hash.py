"""hash of the SMT text of every obligation of one contract (determinism check across processes)"""
import sys, importlib, hashlib
sys.path.insert(0, '/verif')
from pyvc.api import REG
from pyvc.engine import Exec
from pyvc.program import Program
from pyvc import solve
[importlib.import_module('contracts.' + m) for m in __import__('contracts').MODULES]
ex = Exec(Program('/repo'), REG)
obls = ex.verify(sys.argv[1])
h = hashlib.sha256()
for o in obls:
    if len(sys.argv) < 3 or sys.argv[2] in o.name:
        h.update(solve.to_smt2(ex.axioms, o.assumptions, o.goal if o.kind != "cover" else None).encode())
print(len(obls), h.hexdigest()[:16])
