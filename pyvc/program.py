"""Loading the real source: every run re-parses the files of the repository under verification."""
from __future__ import annotations

import ast
import hashlib
import os


class Module:
    def __init__(self, name, path):
        self.name = name
        self.path = path
        src = open(path).read()
        self.src = src
        self.tree = ast.parse(src, filename=path)
        self.functions = {}  # qualname -> FunctionDef
        self.classes = {}  # name -> ClassDef
        self.imports = {}  # local name -> ("module", modname) | ("from", modname, name)
        self.assigns = {}  # module-level simple assignments name -> value expr
        for node in self.tree.body:
            if isinstance(node, ast.FunctionDef):
                self.functions[node.name] = node
            elif isinstance(node, ast.ClassDef):
                self.classes[node.name] = node
                for sub in node.body:
                    if isinstance(sub, ast.FunctionDef):
                        self.functions[f"{node.name}.{sub.name}"] = sub
            elif isinstance(node, ast.Import):
                for a in node.names:
                    self.imports[a.asname or a.name.split(".")[0]] = ("module", a.name)
            elif isinstance(node, ast.ImportFrom):
                for a in node.names:
                    self.imports[a.asname or a.name] = ("from", node.module, a.name)
            elif isinstance(node, ast.Assign) and len(node.targets) == 1 and isinstance(node.targets[0], ast.Name):
                self.assigns[node.targets[0].id] = node.value


class Program:
    def __init__(self, root):
        self.root = root
        self.modules = {}

    def module(self, name) -> Module:
        if name not in self.modules:
            path = os.path.join(self.root, *name.split(".")) + ".py"
            if not os.path.exists(path):
                path = os.path.join(self.root, *name.split("."), "__init__.py")
            self.modules[name] = Module(name, path)
        return self.modules[name]

    def has_module(self, name):
        base = os.path.join(self.root, *name.split("."))
        return os.path.exists(base + ".py") or os.path.exists(os.path.join(base, "__init__.py"))

    def function(self, qual):
        mod, fn = qual.split(":")
        m = self.module(mod)
        if fn not in m.functions:
            # nested function "outer.<locals>.inner" is not addressable; methods inherited from bases:
            if "." in fn:
                cls, meth = fn.split(".", 1)
                r = self.resolve_method(mod, cls, meth)
                if r:
                    return self.function(r)
            raise KeyError(f"function {qual} not found in {m.path}")
        return m, m.functions[fn]

    def resolve_method(self, mod, cls, meth):
        """qual of the method `meth` for class `cls` of module `mod` following base classes (MRO, depth first)."""
        m = self.module(mod)
        if cls not in m.classes:
            imp = m.imports.get(cls)
            if imp and imp[0] == "from" and self.has_module(imp[1]):
                return self.resolve_method(imp[1], imp[2], meth)
            return None
        if f"{cls}.{meth}" in m.functions:
            return f"{mod}:{cls}.{meth}"
        for b in m.classes[cls].bases:
            if isinstance(b, ast.Name):
                r = self.resolve_method(mod, b.id, meth)
                if r:
                    return r
        return None

    def source_hash(self, qual):
        m, node = self.function(qual)
        seg = ast.get_source_segment(m.src, node) or ""
        return hashlib.sha256(seg.encode()).hexdigest()[:16]


def is_docstring(stmt):
    return isinstance(stmt, ast.Expr) and isinstance(stmt.value, ast.Constant) and isinstance(stmt.value.value, str)


def is_print_or_warn(stmt):
    if isinstance(stmt, ast.Expr) and isinstance(stmt.value, ast.Call):
        f = stmt.value.func
        if isinstance(f, ast.Name) and f.id == "print":
            return True
        if isinstance(f, ast.Attribute) and f.attr == "warn" and isinstance(f.value, ast.Name) and f.value.id == "warnings":
            return True
    return False


def is_dropped(stmt):
    """Statements dropped by extraction: docstrings, print(...), warnings.warn(...), pass."""
    return is_docstring(stmt) or is_print_or_warn(stmt) or isinstance(stmt, ast.Pass)


def is_disp_test(test):
    """`self.disp` / `disp` (display flags): an `if` on them must contain only prints, else extraction refuses."""
    if isinstance(test, ast.Name) and test.id == "disp":
        return True
    return isinstance(test, ast.Attribute) and test.attr == "disp"
