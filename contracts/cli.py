"""Contracts for the command line and the validators (C18)."""
import z3

from pyvc.api import *
from pyvc.run import native

M_ = "ghedesigner.manager"
V_ = "ghedesigner.validate"

# ---- run-time form: the real entry point on corrupted copies of a valid input ------------------------------------------------
SECTION_SCHEMA = {"fluid": "fluid", "grout": "grout", "soil": "soil", "pipe": "pipe_single_double_u_tube", "borehole": "borehole", "simulation": "simulation",
                  "geometric_constraints": "geometric_near_square", "design": "design"}


COAXIAL_PIPE = {"inner_pipe_d_in": 0.0442, "inner_pipe_d_out": 0.050, "outer_pipe_d_in": 0.0974, "outer_pipe_d_out": 0.11, "roughness": 1e-06, "conductivity_inner": 0.4,
                "conductivity_outer": 0.4, "rho_cp": 1542000, "arrangement": "COAXIAL"}


def base_input(base=None):
    from contracts.realruns import synth_loads

    if base == "coaxial":
        doc = base_input()
        doc["pipe"] = dict(COAXIAL_PIPE)
        return doc
    return {"version": "1.5", "fluid": {"fluid_name": "WATER", "concentration_percent": 0.0, "temperature": 20},
            "grout": {"conductivity": 1.0, "rho_cp": 3901000}, "soil": {"conductivity": 2.0, "rho_cp": 2343493, "undisturbed_temp": 18.3},
            "pipe": {"inner_diameter": 0.03404, "outer_diameter": 0.04216, "shank_spacing": 0.01856, "roughness": 1e-06, "conductivity": 0.4, "rho_cp": 1542000, "arrangement": "SINGLEUTUBE"},
            "borehole": {"buried_depth": 2.0, "diameter": 0.14}, "simulation": {"num_months": 12},
            "geometric_constraints": {"length": 12, "b": 6.0, "max_height": 135.0, "min_height": 60.0, "method": "NEARSQUARE"},
            "design": {"flow_rate": 0.3, "flow_type": "BOREHOLE", "max_eft": 35.0, "min_eft": 5.0},
            "loads": {"ground_loads": synth_loads("balanced", 2.0e4)}}


def all_corruptions(repo, base=None):
    """every single-field corruption of the base input that the tool's own schemas reject (by construction of the schema keywords)"""
    import json
    import os

    out = []
    for sec, sch in SECTION_SCHEMA.items():
        if base == "coaxial" and sec == "pipe":
            sch = "pipe_coaxial"
        schema = json.load(open(os.path.join(repo, "ghedesigner", "schemas", sch + ".schema.json")))
        for key in schema.get("required", []):
            out.append({"section": sec, "key": key, "how": "missing"})
        for key, ps in schema.get("properties", {}).items():
            if key not in base_input(base)[sec]:
                continue
            if ps.get("type") == "number":
                out.append({"section": sec, "key": key, "how": "wrong-type"})
                if "minimum" in ps:
                    out.append({"section": sec, "key": key, "how": "below-minimum", "value": ps["minimum"] - 1})
                if "maximum" in ps:
                    out.append({"section": sec, "key": key, "how": "above-maximum", "value": ps["maximum"] + 1})
            if ps.get("type") == "string" and ("enum" in ps or "const" in ps):
                out.append({"section": sec, "key": key, "how": "unknown-enum"})
    for sec, sch in SECTION_SCHEMA.items():
        out.append({"section": sec, "key": None, "how": "section-missing"})
        out.append({"section": sec, "key": None, "how": "section-wrong-type", "value": [None, [], 0, "x", False][len(sec) % 5]})
        schema = json.load(open(os.path.join(repo, "ghedesigner", "schemas", sch + ".schema.json")))
        if schema.get("required"):
            out.append({"section": sec, "key": None, "how": "section-empty"})  # an object that has lost all of its keys
    return out


def apply_corruption(doc, c):
    if c["how"] == "section-missing":
        del doc[c["section"]]
    elif c["how"] == "section-empty":
        doc[c["section"]] = {}
    elif c["how"] == "section-wrong-type":
        doc[c["section"]] = c["value"]
    elif c["how"] == "loads-empty-list":  # passes the tool's schemas; there is nothing to design for
        doc["loads"] = {"ground_loads": []}
    elif c["how"] == "missing":
        del doc[c["section"]][c["key"]]
    elif c["how"] == "wrong-type":
        doc[c["section"]][c["key"]] = "not-a-number"
    elif c["how"] in ("below-minimum", "above-maximum"):
        doc[c["section"]][c["key"]] = c["value"]
    elif c["how"] == "unknown-enum":
        doc[c["section"]][c["key"]] = c.get("value", "NO_SUCH_VALUE")
    elif c["how"] == "loads-without-list":  # passes the tool's schemas (loads is only required to be an object); the loader cannot use it
        doc["loads"] = {}
    elif c["how"] == "lower-case":
        for sec, key in (("fluid", "fluid_name"), ("pipe", "arrangement"), ("geometric_constraints", "method"), ("design", "flow_type")):
            doc[sec][key] = doc[sec][key].lower() if c.get("lower", True) else doc[sec][key].title()
        if c.get("timestep"):
            doc["simulation"]["timestep"] = "hybrid"
    return doc


def run_cli(repo, argv, cwd, timeout=300):
    import subprocess
    import sys

    code = ("import sys; sys.path.insert(0, %r); sys.argv = ['ghedesigner'] + %r\n"
            "from ghedesigner.manager import run_manager_from_cli\nrun_manager_from_cli()\n") % (repo, list(argv))
    p = subprocess.run([sys.executable, "-c", code], capture_output=True, text=True, timeout=timeout, cwd=cwd,
                       env={**__import__("os").environ, "OMP_NUM_THREADS": "2", "OPENBLAS_NUM_THREADS": "2"})
    return p.returncode, (p.stdout + p.stderr)[-600:]


def _cli_check(a):
    import json
    import os
    import shutil
    import tempfile

    repo = os.environ.get("VERIF_REPO", "/repo")
    tmp = tempfile.mkdtemp(prefix="c18_", dir=os.environ.get("VERIF_SCRATCH", None))
    try:
        doc = base_input(a.get("base"))
        c = a.get("corruption")
        if c:
            doc = apply_corruption(doc, c)
        inp = os.path.join(tmp, "in.json")
        json.dump(doc, open(inp, "w"))
        outdir = os.path.join(tmp, "out")
        mode = a["mode"]
        if mode == "validate-only":
            rc, tail = run_cli(repo, [inp, "--validate-only"], tmp)
        elif mode == "convert-unsupported":
            rc, tail = run_cli(repo, [inp, outdir, "--convert", "XYZ"], tmp)
        elif mode == "no-output-dir":
            rc, tail = run_cli(repo, [inp], tmp)
        else:
            rc, tail = run_cli(repo, [inp, outdir], tmp)
        written = os.path.isdir(outdir) and all(os.path.exists(os.path.join(outdir, f)) for f in
                                                ("SimulationSummary.json", "BoreFieldData.csv", "Loadings.csv", "Gfunction.csv", "TimeDependentValues.csv"))
        if c and c["how"] in ("loads-without-list", "loads-empty-list"):
            if rc == 0 and not written:
                return False, {"why": "exit status 0 although no design output was produced (input passes the schemas but has no usable load list)", "corruption": c, "mode": mode, "signature": "exit0-no-output"}
            return True, {"rc": rc}
        invalid = bool(c) and c["how"] != "lower-case"
        if invalid and rc == 0:
            return False, {"why": "exit status 0 although the input fails schema validation", "corruption": c, "mode": mode, "signature": "exit0-on-invalid"}
        if mode in ("convert-unsupported", "no-output-dir") and rc == 0:
            return False, {"why": f"exit status 0 for {mode}", "signature": "exit0-" + mode}
        if not invalid and mode == "validate-only" and rc != 0:
            return False, {"why": "valid input (names in another letter case) rejected by --validate-only", "corruption": c, "tail": tail[-300:], "signature": "valid-rejected"}
        if mode == "run":
            if rc == 0 and not written:
                return False, {"why": "exit status 0 but the output files were not written", "signature": "exit0-no-output"}
            if not invalid and rc != 0:
                return False, {"why": "valid input: run failed", "tail": tail[-300:], "signature": "valid-run-failed"}
        return True, {"rc": rc}
    finally:
        shutil.rmtree(tmp, ignore_errors=True)


_cli_counter = [0]


def _cli_gen(rng):
    import os

    k = _cli_counter[0]
    _cli_counter[0] += 1
    fixed = [{"mode": "validate-only", "corruption": None}, {"mode": "validate-only", "corruption": {"how": "lower-case", "timestep": True}},
             {"mode": "validate-only", "corruption": {"section": "grout", "key": "conductivity", "how": "wrong-type"}},
             {"mode": "run", "corruption": {"section": "soil", "key": "rho_cp", "how": "missing"}},
             {"mode": "convert-unsupported", "corruption": None}, {"mode": "no-output-dir", "corruption": None},
             {"mode": "run", "corruption": {"how": "lower-case", "lower": False}},
             {"mode": "validate-only", "corruption": {"section": "design", "key": None, "how": "section-missing"}},
             {"mode": "run", "corruption": {"how": "loads-without-list"}},
             {"mode": "validate-only", "corruption": {"section": "simulation", "key": "num_months", "how": "missing"}},  # leaves "simulation": {}
             {"mode": "run", "corruption": {"how": "loads-empty-list"}},
             {"mode": "validate-only", "corruption": {"section": "pipe", "key": None, "how": "section-empty"}},
             {"mode": "run", "corruption": {"section": "borehole", "key": None, "how": "section-wrong-type", "value": None}},
             {"mode": "validate-only", "base": "coaxial", "corruption": None},
             {"mode": "validate-only", "base": "coaxial", "corruption": {"section": "pipe", "key": "arrangement", "how": "unknown-enum", "value": "COAX"}},  # unknown name on coaxial fields
             {"mode": "validate-only", "base": "coaxial", "corruption": {"section": "pipe", "key": "outer_pipe_d_out", "how": "missing"}}]
    if k < len(fixed):
        return fixed[k]
    base = "coaxial" if rng.random() < 0.3 else None
    cs = all_corruptions(os.environ.get("VERIF_REPO", "/repo"), base)
    return {"mode": rng.choice(["validate-only", "validate-only", "run"]), "base": base, "corruption": cs[rng.randrange(len(cs))]}


native(f"{M_}:run_manager_from_cli", _cli_check, _cli_gen, None,
       bound="the real entry point (subprocess) on a valid near-square input (single U-tube or coaxial pipe) and on its single-field corruptions (every required key missing, numbers replaced by strings, values outside minimum/maximum, unknown enum/const, missing sections, sections emptied to {} or replaced by null / [] / a scalar) x {--validate-only, full run}; inputs that pass the schemas but carry no usable loads (no list, empty list); unsupported --convert; missing output directory; names in lower/title case")


# ---- deductive part: the status logic of the command line -----------------------------------------------------------------------
PathS = OpaqueOf("path", id=Int)
VALIDF = z3.Function("VALIDATION_ERRORS", z3.IntSort(), z3.IntSort())   # number of sections of the file that fail their schema
WORKER = z3.Function("WORKER_STATUS", z3.IntSort(), z3.IntSort())

contract(f"{V_}:validate_input_file", dict(input_file_path=PathS), name=f"{V_}:validate_input_file#caller",
         raises={"KeyError": None},
         ensures=[("error-count", lambda E: And(E.result == VALIDF(E.input_file_path.id), E.result >= 0))],
         returns=Int, notes="caller view; the body (sum of the section validators) is verified below").applies = lambda env: True

contract("ghedesigner.utilities:write_idf", dict(summary_path=PathS), raises={"Exception": None}, returns=NoneT(), notes="abstract (file conversion)")

contract(f"{M_}:_run_manager_from_cli_worker", dict(input_file_path=PathS, output_directory=PathS), name=f"{M_}:_run_manager_from_cli_worker#caller",
         raises={"Exception": None, "KeyError": None},  # e.g. "loads": {} passes the schemas and the loader then raises KeyError
         ensures=[("status", lambda E: And(E.result == WORKER(E.input_file_path.id), Or(E.result == 0, E.result == 1))),
                  ("invalid-input-is-refused", lambda E: Implies(VALIDF(E.input_file_path.id) != 0, E.result == 1))],
         returns=Int, notes="caller view: a run that returns 0 has written its output files (all 'return 0' paths of the worker pass through write_output_files)").applies = lambda env: True


def _status_contract(convert_name, convert_shape, outdir_name, outdir_shape):
    def clauses(E):
        pid = E.input_path.id
        vo = E.validate_only
        conv_none = convert_name == "none"
        out_none = outdir_name == "none"
        return [
            ("zero-only-when-valid-or-written", Implies(E.result == 0, Or(And(vo, VALIDF(pid) == 0),
                                                                          And(Not(vo), convert_name == "IDF"),
                                                                          And(Not(vo), conv_none, not out_none, WORKER(pid) == 0)))),
            ("invalid-input-gives-nonzero", Implies(And(VALIDF(pid) != 0, Or(vo, And(conv_none, not out_none))), E.result != 0)),
            ("unsupported-convert-gives-nonzero", Implies(And(Not(vo), convert_name == "other"), E.result == 1)),
            ("missing-output-directory-gives-nonzero", Implies(And(Not(vo), conv_none, out_none), E.result == 1)),
            # the operating system keeps the low 8 bits of the status handed to exit(): a non-zero status must stay non-zero
            ("nonzero-status-survives-the-8-bit-exit-code", And(E.result >= 0, Implies(E.result != 0, E.result % 256 != 0))),
        ]

    names = ["zero-only-when-valid-or-written", "invalid-input-gives-nonzero", "unsupported-convert-gives-nonzero", "missing-output-directory-gives-nonzero",
             "nonzero-status-survives-the-8-bit-exit-code"]
    return contract(f"{M_}:_run_manager_from_cli_status",
                    dict(input_path=PathS, output_directory=outdir_shape, validate_only=Bool, convert=convert_shape),
                    name=f"{M_}:_run_manager_from_cli_status#convert-{convert_name}-outdir-{outdir_name}",
                    raises={"KeyError": None, "Exception": None, "TypeError": None},
                    ensures=[(n, (lambda E, n=n: dict(clauses(E))[n])) for n in names],
                    returns=Int)


STATUS = []
for _cn, _cs in (("none", NoneT()), ("IDF", Const("IDF")), ("other", Const("XYZ"))):
    for _on, _os in (("none", NoneT()), ("given", PathS)):
        STATUS.append(_status_contract(_cn, _cs, _on, _os).name)
        REG.contracts[STATUS[-1]].applies = lambda env: False


STATUSF = z3.Function("CLI_STATUS", z3.IntSort(), z3.IntSort())
contract(f"{M_}:_run_manager_from_cli_status", dict(input_path=PathS, output_directory=OpaqueOf("x"), validate_only=Bool, convert=OpaqueOf("x")),
         name=f"{M_}:_run_manager_from_cli_status#caller", raises={"Exception": None},
         ensures=[("status", lambda E: E.result == STATUSF(0))], returns=Int).applies = lambda env: True

contract(f"{M_}:run_manager_from_cli", dict(input_path=PathS, output_directory=OpaqueOf("x"), validate_only=Bool, convert=OpaqueOf("x")),
         raises={"SystemExit": None, "Exception": None},
         exc_ensures={"SystemExit": [("process-exit-status-is-the-computed-status", lambda E: E._exit_status == STATUSF(0))]},
         ensures=[("never-returns-normally", lambda E: False)], options={"no_normal_return": True},
         returns=NoneT(), notes="A-CLICK: in standalone mode click turns SystemExit(status) into the process exit status and an uncaught exception into status 1")

# validate_input_file: error count = sum of the section verdicts
SECV = z3.Function("SECTION_ERRORS", z3.IntSort(), z3.IntSort())  # section number -> 0 (valid) or 1
_VALIDATORS = ["validate_file_structure", "validate_fluid", "validate_grout", "validate_soil", "validate_pipe", "validate_borehole", "validate_simulation",
               "validate_geometric", "validate_design"]
for _k, _vn in enumerate(_VALIDATORS):
    contract(f"{V_}:{_vn}", dict(instance=OpaqueOf("json")), name=f"{V_}:{_vn}#caller", raises={"KeyError": None},
             ensures=[("verdict", (lambda E, _k=_k: And(E.result == SECV(_k), Or(E.result == 0, E.result == 1))))], returns=Int).applies = lambda env: True

contract(f"{V_}:validate_input_file", dict(input_file_path=PathS), name=f"{V_}:validate_input_file#body",
         raises={"KeyError": None},
         ensures=[("accepts-exactly-when-every-section-is-valid", lambda E: (E.result == 0) == And(*[SECV(k) == 0 for k in range(len(_VALIDATORS))])),
                  ("counts-the-failing-sections", lambda E: E.result == sum(SECV(k) for k in range(len(_VALIDATORS))))],
         returns=Int).applies = lambda env: False


# ---- "exit status zero only when the output files were written": the two output methods return normally only with a design / with results ---------
_OM = "ghedesigner.output:OutputManager"
contract(f"{_OM}.__init__", dict(self=ObjOf(_OM), design=OpaqueOf("search"), time=OpaqueOf("x"), project_name=OpaqueOf("str"), notes=OpaqueOf("str"), author=OpaqueOf("str"),
                                 model_name=OpaqueOf("str"), load_method=OpaqueOf("x")),
         name=f"{_OM}.__init__#with-design", raises={"Exception": None}, returns=NoneT(),
         notes="abstract (C19 verifies the table builders): building the tables from a search result").applies = lambda env: not (env.get("design") is None)
contract(f"{_OM}.__init__", dict(self=ObjOf(_OM), design=NoneT(), time=OpaqueOf("x"), project_name=OpaqueOf("str"), notes=OpaqueOf("str"), author=OpaqueOf("str"),
                                 model_name=OpaqueOf("str"), load_method=OpaqueOf("x")),
         name=f"{_OM}.__init__#without-design", raises={"AttributeError": None}, ensures=[("cannot-build-tables-from-no-design", lambda E: False)], returns=NoneT(),
         options={"no_normal_return": True},
         notes="ASSUMED (Python semantics of the body: its first statement reads design.ghe): with design=None the constructor raises AttributeError").applies = lambda env: env.get("design") is None
contract(f"{_OM}.write_all_output_files", dict(self=ObjOf(_OM), output_directory=PathS, file_suffix=OpaqueOf("str")), name=f"{_OM}.write_all_output_files#caller",
         raises={"Exception": None}, returns=NoneT(), notes="abstract: writes the seven output files or raises").applies = lambda env: True

OUTPUT_METHODS = []
for _vn, _search in (("with-design", OpaqueOf("search")), ("without-design", NoneT())):
    _n = f"{M_}:GHEManager.prepare_results#body-{_vn}"
    contract(f"{M_}:GHEManager.prepare_results", dict(self=ObjOf(f"{M_}:GHEManager", _search=_search, _search_time=OpaqueOf("x"), results=NoneT()), project_name=OpaqueOf("str"),
                                                        note=OpaqueOf("str"), author=OpaqueOf("str"), iteration_name=OpaqueOf("str")),
             name=_n, raises={"Exception": None, "AttributeError": None},
             ensures=[("returns-normally-only-with-results-built-from-a-design", lambda E: And(not (E.old.self._search is None), not (E.self.results is None)))],
             assigns=writes("self.results"), returns=NoneT(),
             **({"options": {"no_normal_return": True}} if _vn == "without-design" else {})).applies = lambda env: False
    OUTPUT_METHODS.append(_n)
for _vn, _res in (("with-results", ObjOf(_OM)), ("without-results", NoneT())):
    _n = f"{M_}:GHEManager.write_output_files#body-{_vn}"
    contract(f"{M_}:GHEManager.write_output_files", dict(self=ObjOf(f"{M_}:GHEManager", results=_res), output_directory=PathS, output_file_suffix=OpaqueOf("str")),
             name=_n, raises={"Exception": None, "AttributeError": None},
             ensures=[("returns-normally-only-when-there-were-results-to-write", lambda E: not (E.old.self.results is None))],
             returns=NoneT(), **({"options": {"no_normal_return": True}} if _vn == "without-results" else {})).applies = lambda env: False
    OUTPUT_METHODS.append(_n)


# ---- the section validators: verdict 0/1 per section, the schema is chosen by the (upper-cased) name, unknown names are refused -------------------------
import zlib as _zlib  # noqa: E402

SCHEMA_OK = z3.Function("SCHEMA_ACCEPTS", z3.IntSort(), z3.IntSort(), z3.BoolSort())  # (schema file, instance) -> jsonschema.validate does not raise (A-DET)


def _sid(name):
    return _zlib.crc32(name.encode())


contract("jsonschema:validate", dict(instance=OpaqueOf("json", id=Int), schema=OpaqueOf("json", id=Int)), name="jsonschema:validate#abstract",
         raises={"ValidationError": lambda E: Not(SCHEMA_OK(E.schema.id, E.instance.id))}, ensures=[("accepted", lambda E: SCHEMA_OK(E.schema.id, E.instance.id))], returns=NoneT(),
         notes="ASSUMED (external): raises ValidationError exactly when the instance does not satisfy the schema; exercised by the bounded runs of the real command line")
VALIDATORS = []
SCHEMA_VERDICT = z3.Function("SCHEMA_ACCEPTS_THE_INSTANCE", z3.IntSort(), z3.BoolSort())  # schema file -> jsonschema accepts this activation's instance (A-DET)
contract(f"{V_}:validate_schema_instance", dict(schema_file_name=OpaqueOf("str"), instance=OpaqueOf("json"), error_msg=OpaqueOf("str")),
         name=f"{V_}:validate_schema_instance#caller",
         ensures=[("verdict-of-that-schema", lambda E: E.result == If(SCHEMA_VERDICT(_sid(E.schema_file_name)), 0, 1))], returns=Int,
         notes="caller view of the body verified below: 0 when jsonschema accepts the instance under the named schema file, 1 otherwise").applies = lambda env: isinstance(env.get("schema_file_name"), str)

_PLAIN = {"validate_file_structure": "file_structure.schema.json", "validate_grout": "grout.schema.json", "validate_soil": "soil.schema.json", "validate_borehole": "borehole.schema.json"}
for _vn, _file in _PLAIN.items():
    _n = f"{V_}:{_vn}#body"
    contract(f"{V_}:{_vn}", dict(instance=OpaqueOf("json")), name=_n,
             ensures=[("verdict-of-its-schema", (lambda E, _file=_file: E.result == If(SCHEMA_VERDICT(_sid(_file)), 0, 1)))], returns=Int).applies = lambda env: False
    VALIDATORS.append(_n)
_NAMED = {"validate_fluid": ("fluid_name", "fluid.schema.json", ("water", "Water", "PROPYLENEGLYCOL")),
          "validate_design": ("flow_type", "design.schema.json", ("borehole", "System", "SYSTEM")),
          "validate_simulation": ("timestep", "simulation.schema.json", ("hybrid", "Hourly", "HYBRID"))}
for _vn, (_key, _file, _spellings) in _NAMED.items():
    for _sp in _spellings:
        _n = f"{V_}:{_vn}#body-{_sp}"
        contract(f"{V_}:{_vn}", dict(instance=DictOf(**{_key: Const(_sp), "other_keys": OpaqueOf("json")})), name=_n,
                 ensures=[("name-upper-cased-then-verdict-of-its-schema", (lambda E, _file=_file, _key=_key, _sp=_sp: And(E.instance[_key] == _sp.upper(), E.result == If(SCHEMA_VERDICT(_sid(_file)), 0, 1))))],
                 assigns=writes("instance[]"), returns=Int).applies = lambda env: False
        VALIDATORS.append(_n)
_n = f"{V_}:validate_simulation#body-without-timestep"
contract(f"{V_}:validate_simulation", dict(instance=DictOf(num_months=Int)), name=_n,
         ensures=[("verdict-of-its-schema", lambda E: E.result == If(SCHEMA_VERDICT(_sid("simulation.schema.json")), 0, 1))], returns=Int).applies = lambda env: False
VALIDATORS.append(_n)
_PIPE_SCHEMA = {"SINGLEUTUBE": "pipe_single_double_u_tube.schema.json", "DOUBLEUTUBESERIES": "pipe_single_double_u_tube.schema.json",
                "DOUBLEUTUBEPARALLEL": "pipe_single_double_u_tube.schema.json", "COAXIAL": "pipe_coaxial.schema.json"}
_GEOM_SCHEMA = {"BIRECTANGLE": "geometric_bi_rectangle.schema.json", "BIRECTANGLECONSTRAINED": "geometric_bi_rectangle_constrained.schema.json",
                "BIZONEDRECTANGLE": "geometric_bi_zoned_rectangle.schema.json", "NEARSQUARE": "geometric_near_square.schema.json", "RECTANGLE": "geometric_rectangle.schema.json",
                "ROWWISE": "geometric_rowwise.schema.json"}
for _vn, _key, _table in (("validate_pipe", "arrangement", _PIPE_SCHEMA), ("validate_geometric", "method", _GEOM_SCHEMA)):
    for _nm, _file in _table.items():
        for _sp in (_nm, _nm.lower(), _nm.title()):
            _n = f"{V_}:{_vn}#body-{_sp}"
            contract(f"{V_}:{_vn}", dict(instance=DictOf(**{_key: Const(_sp), "other_keys": OpaqueOf("json")})), name=_n,
                     ensures=[("name-recognised-in-any-letter-case-and-checked-against-its-own-schema",
                               (lambda E, _file=_file, _key=_key, _nm=_nm: And(E.instance[_key] == _nm, E.result == If(SCHEMA_VERDICT(_sid(_file)), 0, 1))))],
                     assigns=writes("instance[]"), returns=Int).applies = lambda env: False
            VALIDATORS.append(_n)
    for _sp in ("NO_SUCH_NAME", "COAX", "TRIPLEUTUBE", "", "near-square"):
        _n = f"{V_}:{_vn}#body-unknown-name-{_sp or 'empty'}"
        contract(f"{V_}:{_vn}", dict(instance=DictOf(**{_key: Const(_sp), "other_keys": OpaqueOf("json")})), name=_n,
                 ensures=[("unknown-name-refused", lambda E: E.result == 1)], assigns=writes("instance[]"), returns=Int).applies = lambda env: False
        VALIDATORS.append(_n)
_n = f"{V_}:validate_schema_instance#body"
contract(f"{V_}:validate_schema_instance", dict(schema_file_name=OpaqueOf("str"), instance=OpaqueOf("json"), error_msg=OpaqueOf("str")), name=_n,
         ensures=[("verdict-is-zero-or-one", lambda E: Or(E.result == 0, E.result == 1)),
                  ("zero-exactly-when-jsonschema-accepts-the-instance", lambda E: (E.result == 0) == E._schema_accepts)], returns=Int).applies = lambda env: False
VALIDATORS.append(_n)
