"""Contracts for BaseGHE._simulate_detailed and GHE.simulate (C09, C13, C12)."""
import z3

from pyvc.api import *
from pyvc.engine import PI
from pyvc.libmodels import LOG
from pyvc.run import native
from pyvc.values import EnumVal

G = "ghedesigner.ground_heat_exchangers"

# spec: SUP(i, m) = sum over load steps j < m of (q_{j+1} - q_j)/N /H/(2 pi k) * g(ln((t_i - t_j) * 3600 / ts))   (q_0 = 0, t_0 = 0)
SUP = z3.Function("SUP", z3.IntSort(), z3.IntSort(), z3.RealSort())


def GHEsim():
    return ObjOf(f"{G}:GHE", nbh=Int,
                 radial_numerical=ObjOf("rn", t_s=Real),
                 bhe=ObjOf("ghedesigner.borehole_heat_exchangers:SingleUTube", soil=ObjOf("soil", k=Real, ugt=Real), b=ObjOf("borehole", H=Real),
                           m_flow_borehole=Real, fluid=ObjOf("fluid", cp=Real), g_rb=Real))


def qb(E, j):
    """per-borehole load (W) of step j, q_0 = 0"""
    return If(j < 1, RealVal(0), E.q_dot[j - 1] / ToReal(E.self.nbh))  # same term shape as np.hstack((0.0, q_dot / float(nbh)))


def tt(E, j):
    """end time (h) of step j, t_0 = 0"""
    # the code rebinds the local name time_values: always read the parameter's entry value
    tv = _TV[0] if _TV[0] is not None else E.time_values
    return If(j < 1, RealVal(0), tv[j - 1])


def term(E, i, j):
    s = E.self
    return mul((qb(E, 1 + j) - qb(E, j)) / s.bhe.b.H / mul(2 * PI, s.bhe.soil.k), E.g(LOG(((tt(E, i) - tt(E, j)) * 3600) / s.radial_numerical.t_s)))


def formula(E, i):
    """entering fluid temperature at step i (1-based): Tg + superposition + q_i Rb*/H - q_i/(2 m cp)   [q per borehole = q/N]"""
    s = E.self
    return s.bhe.soil.ugt + SUP(i, i) + mul(qb(E, i) / s.bhe.b.H, s.bhe.g_rb) - qb(E, i) / mul(2 * s.bhe.m_flow_borehole, s.bhe.fluid.cp)


_E = [None]
_TV = [None]


def _term_for_engine(a, j):
    return term(_E[0], a, j)


contract("ghedesigner.borehole_heat_exchangers:SingleUTube.calc_effective_borehole_resistance",
         dict(self=ObjOf("ghedesigner.borehole_heat_exchangers:SingleUTube", g_rb=Real)), name="bhe.calc_effective_borehole_resistance#rb",
         ensures=[("deterministic", lambda E: E.result == E.self.g_rb)], returns=Real,
         notes="A-DET: the effective borehole resistance is a function of the exchanger's state (ghost g_rb)").applies = lambda env: "g_rb" in env["self"].fields


def _sd_requires():
    return [("same-length", lambda E: E.q_dot.len == E.time_values.len),
            ("physical", lambda E: And(E.self.nbh >= 1, E.self.bhe.b.H > 0, E.self.bhe.soil.k > 0, E.self.radial_numerical.t_s > 0,
                                       E.self.bhe.m_flow_borehole > 0, E.self.bhe.fluid.cp > 0)),
            ("times-increasing", lambda E: And(forall(1, lambda j: Implies(And(0 <= j, j < E.time_values.len), E.time_values[j] > 0)),
                                               forall(2, lambda a, b: Implies(And(0 <= a, a < b, b < E.time_values.len), E.time_values[a] < E.time_values[b]))))]


def _sup_defs(E):
    _E[0] = E
    _TV[0] = E.time_values  # view of the parameter at function entry
    a, m = z3.Int("a!"), z3.Int("m!")
    return And(ForAll([a], SUP(a, 0) == 0, patterns=[SUP(a, 0)]),
               ForAll([a, m], Implies(m >= 0, SUP(a, m + 1) == SUP(a, m) + term(E, a, m)), patterns=[SUP(a, m + 1)]))


def _results_so_far(E):
    if isinstance(E.hp_eft.len, int) and E.hp_eft.len == 0:
        return And(E.i == 1, E.delta_tb.len == 0)
    return And(E.hp_eft.len == E.i - 1, E.delta_tb.len == E.i - 1,
               forall(1, lambda k: Implies(And(1 <= k, k < E.i), And(E.hp_eft[k - 1] == formula(E, k), E.delta_tb[k - 1] == SUP(k, k)))))


contract(f"{G}:BaseGHE._simulate_detailed",
         dict(self=GHEsim(), q_dot=ListOf(Real, np=True), time_values=ListOf(Real, np=True), g=FnOf(1)),
         requires=_sd_requires(),
         defs=[("SUP", _sup_defs)],
         options={"sum_specs": [(SUP, _term_for_engine)], "abstract_mul": True},
         loops={0: LoopSpec(invariants=[("results-so-far", lambda E: _results_so_far(E))],
                            steps=[("sum-is-the-superposition", lambda E: E.delta_tb[E.delta_tb.len - 1] == SUP(E.head.i, E.head.i)),
                                   ("new-entry", lambda E: And(E.hp_eft.len == E.head.i, E.hp_eft[E.hp_eft.len - 1] == formula(E, E.head.i)))],
                            shapes={"hp_eft": ListOf(Real), "delta_tb": ListOf(Real)})},
         ensures=[("lengths", lambda E: And(E.result[0].len == E.q_dot.len, E.result[1].len == E.q_dot.len)),
                  ("temporal-superposition", lambda E: forall(1, lambda k: Implies(And(1 <= k, k <= E.q_dot.len),
                                                                                   And(E.result[0][k - 1] == formula(E, k), E.result[1][k - 1] == SUP(k, k)))))],
         returns=TupleOf(ListOf(Real), ListOf(Real)))


# ---- run-time form ------------------------------------------------------------------------------------------------
def _sd_check(a):
    import math

    import numpy as np
    from ghedesigner.ground_heat_exchangers import BaseGHE

    class NS:
        def __init__(self, **kw):
            self.__dict__.update(kw)

    rb = a["rb"]
    bhe = NS(soil=NS(k=a["k"], ugt=a["tg"]), b=NS(H=a["H"]), m_flow_borehole=a["mdot"], fluid=NS(cp=a["cp"]), calc_effective_borehole_resistance=lambda: rb)
    o = object.__new__(BaseGHE)
    o.nbh, o.radial_numerical, o.bhe = a["n"], NS(t_s=a["ts"]), bhe
    ga, gb = a["ga"], a["gb"]
    g = lambda x: ga * np.asarray(x) + gb  # noqa: E731  (a monotone g-function table; only its values matter)
    q, t = np.array(a["q"], dtype=float), np.array(a["t"], dtype=float)
    hp, dtb = o._simulate_detailed(q, t, g)
    qb = [0.0] + [x / a["n"] for x in a["q"]]
    tt_ = [0.0] + list(a["t"])
    for i in range(1, len(qb)):
        sup = sum((qb[j + 1] - qb[j]) / a["H"] / (2 * math.pi * a["k"]) * (ga * math.log((tt_[i] - tt_[j]) * 3600.0 / a["ts"]) + gb) for j in range(i))
        want = a["tg"] + sup + qb[i] / a["H"] * rb - qb[i] / (2 * a["mdot"] * a["cp"])
        if abs(hp[i - 1] - want) > 1e-9 * max(1.0, abs(want)) or abs(dtb[i - 1] - sup) > 1e-9 * max(1.0, abs(sup)):
            return False, {"step": i, "got": float(hp[i - 1]), "want": want}
    if all(x == 0 for x in a["q"]) and any(v != a["tg"] for v in hp):
        return False, {"why": "zero load does not return exactly the ground temperature"}
    return True, {}


def _sd_gen(rng):
    n = rng.randint(1, 40)
    t, cur = [], 0.0
    for _ in range(n):
        cur += rng.choice([1.0, 0.5, 13.0, 700.0])
        t.append(cur)
    zero = rng.random() < 0.1
    idle = rng.choice([0.0, 0.0, 0.3, 0.6])  # share of steps with exactly zero load (idle months / hours: on-off sequences), repeated equal loads
    q = []
    for _ in range(n):
        u = rng.random()
        q.append(0.0 if zero or u < idle else (q[-1] if q and u > 0.93 else rng.uniform(-5e4, 5e4)))
    return {"q": q, "t": t, "n": rng.randint(1, 400), "k": rng.uniform(0.8, 4.0), "tg": rng.uniform(5, 25) if rng.random() < 0.8 else rng.choice([10, 18, 12.0]),  # whole-number temperatures also as Python ints (what a JSON file gives)
            "H": rng.uniform(60, 135), "mdot": rng.uniform(0.1, 1.0), "cp": rng.uniform(3500, 4200), "rb": rng.uniform(0.05, 0.3), "ts": rng.uniform(1e8, 5e9),
            "ga": rng.uniform(0.5, 2.0), "gb": rng.uniform(5, 12)}


native(f"{G}:BaseGHE._simulate_detailed", _sd_check, _sd_gen, None,
       bound="real _simulate_detailed on stub GHE fields: 1..40 load steps (incl. exactly-zero idle steps after loaded ones and repeated equal loads), irregular time steps, 1..400 boreholes, monotone affine g(ln t) tables, ground temperature as float or int; independent evaluation of the formula")


# ---- corollaries of the formula (lemmas over the contract; sums handled by explicit induction: base and step) --------
def _lemma_env():
    class V:
        pass

    q = z3.Function("q", z3.IntSort(), z3.RealSort())
    t = z3.Function("t", z3.IntSort(), z3.RealSort())
    g = z3.Function("g", z3.RealSort(), z3.RealSort())
    n, H, k, ts, N = z3.Int("n"), z3.Real("H"), z3.Real("k"), z3.Real("ts"), z3.Int("N")
    return q, t, g, n, H, k, ts, N


def _term(q, t, g, H, k, ts, N, i, j, scale=1, ):
    qb = lambda x: If(x < 1, RealVal(0), scale * q(x - 1) / ToReal(N))  # noqa: E731
    tt_ = lambda x: If(x < 1, RealVal(0), t(x - 1))  # noqa: E731
    return (qb(1 + j) - qb(j)) / H / (2 * PI * k) * g(LOG(((tt_(i) - tt_(j)) * 3600) / ts))


def lemma_zero_load_step():
    """induction step for 'zero load returns exactly the ground temperature': SUP(i,m)=0 and all loads zero => SUP(i,m+1)=0"""
    q, t, g, n, H, k, ts, N = _lemma_env()
    i, m, sup_m = z3.Int("i"), z3.Int("m"), z3.Real("sup_m")
    z = z3.Int("z")
    hyp = [ForAll([z], q(z) == 0), sup_m == 0, H > 0, k > 0, N >= 1, m >= 0]
    return hyp, sup_m + _term(q, t, g, H, k, ts, N, i, m) == 0


def lemma_linear_scaling_step():
    """induction step for 'scaling all loads by c scales the departure by c': SUPc(i,m) = c SUP(i,m) => SUPc(i,m+1) = c SUP(i,m+1)"""
    q, t, g, n, H, k, ts, N = _lemma_env()
    i, m = z3.Int("i"), z3.Int("m")
    c, sup_m, supc_m, G_ = z3.Reals("c sup_m supc_m G_")
    # with g(...) named G_ the step is linear arithmetic in the loads
    qb = lambda x, s: If(x < 1, RealVal(0), s * q(x - 1) / ToReal(N))  # noqa: E731
    term1 = (qb(1 + m, 1) - qb(m, 1)) / H / (2 * PI * k) * G_
    termc = (qb(1 + m, c) - qb(m, c)) / H / (2 * PI * k) * G_
    return [supc_m == c * sup_m, H > 0, k > 0, N >= 1, m >= 0], supc_m + termc == c * (sup_m + term1)


def lemma_ground_temperature_shift():
    """the formula is Tg + (terms independent of Tg): shifting Tg shifts every result equally"""
    tg, d, rest = z3.Reals("tg d rest")
    return [], (tg + d + rest) - (tg + rest) == d


LEMMAS = [("zero-load-gives-ground-temperature/induction-step", lemma_zero_load_step),
          ("linear-in-the-loads/induction-step", lemma_linear_scaling_step),
          ("ground-temperature-shift", lemma_ground_temperature_shift)]


# ---- GHE.simulate (both time-step methods): what is simulated is a function of the configuration only ----------------
GC = z3.Function("GCOMB", z3.IntSort(), z3.RealSort(), z3.RealSort(), z3.RealSort())  # combined g-function: (g-function key, B/H, ln(t/ts)) -> g
HYBRID = EnumVal("TimestepType", "HYBRID", 2)
HOURLY = EnumVal("TimestepType", "HOURLY", 1)
B_ = "ghedesigner.borehole_heat_exchangers"


def BheSim():
    return ObjOf(f"{B_}:SingleUTube", soil=ObjOf("soil", k=Real, ugt=Real), b=ObjOf("borehole", H=Real), m_flow_borehole=Real, fluid=ObjOf("fluid", cp=Real), g_rb=Real)


def GHEfull(times_shape, loads_np=False):
    return ObjOf(f"{G}:GHE", nbh=Int, B_spacing=Real, g_gkey=Int, radial_numerical=ObjOf("ghedesigner.radial_numerical_borehole:RadialNumericalBH", t_s=Real),
                 bhe=BheSim(), bhe_eq=ObjOf("x"),
                 hybrid_load=ObjOf("hl", load=ListOf(Real, np=True, minlen=3), hour=ListOf(Real, np=True, minlen=3)),
                 sim_params=ObjOf("sim", start_month=Int, end_month=Int), hourly_extraction_ground_loads=ListOf(Real, length=8760, np=loads_np),
                 times=times_shape, loading=NoneT(), hp_eft=ListOf(Real), dTb=ListOf(Real))


contract(f"{G}:BaseGHE.grab_g_function", dict(self=ObjOf(f"{G}:GHE", g_gkey=Int), b_over_h=Real), name=f"{G}:BaseGHE.grab_g_function#fn",
         ensures=[("named-by-configuration", lambda E: ForAll([z3.Real("x!")], E.result[0](z3.Real("x!")) == GC(E.self.g_gkey, E.b_over_h, z3.Real("x!"))))],
         returns=TupleOf(FnOf(1), FnOf(1)),
         notes="abstract here (C11): the combined g-function is a function of the stored g-function data and B/H (A-DET)").applies = lambda env: "g_gkey" in env["self"].fields
contract(f"{B_}:SingleUTube.to_single", dict(self=BheSim()), returns=ObjOf("x"), name=f"{B_}:SingleUTube.to_single#sim").applies = lambda env: "g_rb" in env["self"].fields
contract("ghedesigner.radial_numerical_borehole:RadialNumericalBH.calc_sts_g_functions",
         dict(self=ObjOf("ghedesigner.radial_numerical_borehole:RadialNumericalBH", t_s=Real), single_u_tube=ObjOf("x")), returns=NoneT(),
         name="ghedesigner.radial_numerical_borehole:RadialNumericalBH.calc_sts_g_functions#sim",
         notes="A-DET: recomputing the short-time response for the same exchanger leaves t_s (and the response) unchanged").applies = lambda env: "t_s" in env["self"].fields


class _SeqView:
    """a spec-level sequence (length + element function) standing for a derived array"""

    def __init__(self, n, get):
        self.len, self._get = n, get

    def __getitem__(self, j):
        return self._get(j)


def _callee_env(E, q, t):
    class V:
        pass

    v = V()
    v.self, v.q_dot, v.time_values = E.self, q, t
    v.g = lambda x: GC(E.self.g_gkey, E.self.B_spacing / E.old.self.bhe.b.H, x)
    return v


def _hybrid_inputs(E):
    ld, hr = E.old.self.hybrid_load.load, E.old.self.hybrid_load.hour
    return _SeqView(ld.len - 2, lambda j: ld[2 + j] * 1000), _SeqView(hr.len - 2, lambda j: hr[2 + j])


def _hourly_inputs(E):
    sp = E.old.self.sim_params
    n_hours = If((ToReal(sp.end_month - sp.start_month + 1) / 12 * 8760) >= 0, ToInt(ToReal(sp.end_month - sp.start_month + 1) / 12 * 8760),
                 -ToInt(-(ToReal(sp.end_month - sp.start_month + 1) / 12 * 8760)))
    loads = E.old.self.hourly_extraction_ground_loads
    # a horizon of at most one year simulates the whole 8760-hour list that was given (the tool's `else: n_hours = len(q_dot)` arm)
    n_hours = If(n_hours > 8760, n_hours, IntVal(8760))
    return n_hours, _SeqView(n_hours, lambda j: -1 * loads[j % 8760]), _SeqView(n_hours, lambda j: ToReal(1 + j))


def _sim_requires(method):
    reqs = [("physical", lambda E: And(E.self.nbh >= 1, E.self.bhe.b.H > 0, E.self.bhe.soil.k > 0, E.self.radial_numerical.t_s > 0,
                                       E.self.bhe.m_flow_borehole > 0, E.self.bhe.fluid.cp > 0, E.self.B_spacing > 0))]
    if method == "hybrid":
        reqs += [("hybrid-axis", lambda E: And(E.self.hybrid_load.load.len == E.self.hybrid_load.hour.len,
                                               forall(1, lambda j: Implies(And(2 <= j, j < E.self.hybrid_load.hour.len), E.self.hybrid_load.hour[j] > 0)),
                                               forall(2, lambda a, b: Implies(And(2 <= a, a < b, b < E.self.hybrid_load.hour.len), E.self.hybrid_load.hour[a] < E.self.hybrid_load.hour[b]))))]
    else:
        reqs += [("horizon", lambda E: And(E.self.sim_params.start_month == 1, E.self.sim_params.end_month >= 1, E.self.sim_params.end_month <= 360))]
    return reqs


def _sim_ensures(inputs):
    def superposed(E):
        q, t = inputs(E)
        env = _callee_env(E, q, t)
        return And(E.self.hp_eft.len == q.len, forall(1, lambda k: Implies(And(1 <= k, k <= q.len), E.self.hp_eft[k - 1] == formula(env, k))))

    def extremes(E):
        hp = E.self.hp_eft
        return And(forall(1, lambda k: Implies(And(0 <= k, k < hp.len), And(hp[k] <= E.result[0], hp[k] >= E.result[1]))),
                   exists(1, lambda k: And(0 <= k, k < hp.len, hp[k] == E.result[0])), exists(1, lambda k: And(0 <= k, k < hp.len, hp[k] == E.result[1])))

    return [("stored-temperatures-are-the-superposition-for-this-configuration", superposed),
            ("returns-max-and-min-of-the-stored-temperatures", extremes),
            ("height-untouched", lambda E: E.self.bhe.b.H == E.old.self.bhe.b.H)]


contract(f"{G}:GHE.simulate", dict(self=GHEfull(ListOf(Real, np=True)), method=Const(HYBRID)), name=f"{G}:GHE.simulate#hybrid-body",
         requires=_sim_requires("hybrid"), ensures=_sim_ensures(_hybrid_inputs), returns=TupleOf(Real, Real)).applies = lambda env: False
for _tn, _ts in (("fresh", FixedList([])), ("after-another-simulation", ListOf(Real, np=True))):
    contract(f"{G}:GHE.simulate", dict(self=GHEfull(_ts), method=Const(HOURLY)), name=f"{G}:GHE.simulate#hourly-body-{_tn}",
             requires=_sim_requires("hourly"), ensures=_sim_ensures(lambda E: _hourly_inputs(E)[1:]), returns=TupleOf(Real, Real)).applies = lambda env: False
# the loads may also be handed over as a float array (the declared type is list; arrays work for horizons of at most one year, where nothing is repeated):
# the simulation must leave the caller's array as it is (frame obligation)
contract(f"{G}:GHE.simulate", dict(self=GHEfull(ListOf(Real, np=True), loads_np=True), method=Const(HOURLY)), name=f"{G}:GHE.simulate#hourly-body-array-loads",
         requires=_sim_requires("hourly") + [("at-most-one-year (an array is not repeated by `*`)", lambda E: E.self.sim_params.end_month <= 12)],
         ensures=_sim_ensures(lambda E: _hourly_inputs(E)[1:]), returns=TupleOf(Real, Real)).applies = lambda env: False
