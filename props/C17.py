"""C17 - input files written by the tool are schema-valid and round-trip."""
from contracts import inputs, ctors  # noqa: F401
from props.common import *  # noqa: F401,F403

FUNCTIONS = inputs.TO_INPUTS + ctors.BOREHOLE + ["ghedesigner.media:GHEFluid.to_input", "ghedesigner.design:DesignBase.to_input"] + inputs.WRITE_INPUT + inputs.SETTERS + inputs.NAME_SETTERS + inputs.WORKER
NATIVE_FUNCTIONS = [f"{M}:GHEManager.write_input_file"]
NATIVE_CASES = {"quick": 60, "thorough": 3000}
NATIVE_LIMIT_S = {"quick": 150, "thorough": 3000}
CASE_TIMEOUT = 120
LEVEL = "other"


def lemmas():
    return inputs.LEMMAS


ASSUMPTIONS = [A_ENGINE, A_REAL + " - the radians/degrees and radius/diameter conversions are exact over the reals only (see the known finding on the last bit of RowWise rotations)",
               "json.dumps / file write are modelled as recording the serialised object (ghost `_written.json_of`); JSON text formatting, float repr round trip and file I/O are exercised by the bounded runs only",
               "Pipe.place_pipes is used through an unverified caller view (pure; the pipe centre positions are not part of the input file)",
               "write_input_file is proved with a rectangle constraint object / WATER / SYSTEM flow as representatives: the dispatch to the other classes' to_input is Python method resolution, and each class's to_input is under its own contract"]
NOT_PROVED = ["schema validity of the written file (jsonschema semantics); the body of set_fluid (scp fluid: external base class; used through an assumed caller view: the fluid keeps "
              "percent and temperature) and of set_geometry_constraints_bi_rectangle_constrained (set_borehole and GHEBorehole.__init__ are verified down to the ASSUMED contract of pygfunction's Borehole.__init__); JSON text and float repr: bounded run-time contract "
              "API configuration -> write_input_file -> validate_input_file -> real loader (design run stubbed) -> state comparison -> second write byte-identical",
              "'running it produces the same design' follows from state equality plus determinism (C13); not run separately"]
EXPLANATION = ("Each component's to_input is proved to write exactly its fields (diameter = 2 r_b, degrees = radians * 180/pi, perimeter ratio key present iff set); write_input_file is proved, for each of the "
               "four pipe arrangements with and without the optional keys, to serialise those sections plus heights in the geometry section, temperature limits / cap / flag in the design section, "
               "u-tube or coaxial diameters as twice the radii and the loads in order, and to refuse (status 1 or ValueError) when no pipe type is set. Each loading setter is proved to store the inverse "
               "(radius = diameter/2, radians = degrees * pi/180, b_max -> b_max_x). A lemma shows the two conversions are inverse over the reals. On the pinned tree a RowWise configuration "
               "without perimeter ratio wrote null, which the tool's schema rejects (D10, fixed).")
LEVEL_TEXT = ("Proof of what the writer serialises and what the setters store, for all field values; the end-to-end round trip through JSON text, the schemas and the command-line loader is a bounded "
              "run-time contract on the real code - hence level 'other'.")
LEVEL_NOTE = "Trusted: pyvc, z3. Bounded: real write/validate/load/write runs over generated configurations (never counted as proved)."
