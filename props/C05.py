"""C05 - design is not oversized: height is a root, the next smaller field fails."""
from contracts import search
from props.common import *  # noqa: F401,F403

FUNCTIONS = SEARCH_FUNCS + DESIGN_FUNCS + [f"{S}:RowWiseModifiedBisectionSearch.calculate_excess", f"{G}:GHE.size#hourly"]
NATIVE_FUNCTIONS = SEARCH_NATIVES + [f"{G}:GHE.size#hourly"]
NATIVE_CASES_BY_FUNCTION = {f"{G}:GHE.size#hourly": {"quick": 6, "thorough": 200}}
LEVEL = "proof"


def lemmas():
    return search.LEMMAS


ASSUMPTIONS = [A_REAL, A_ENGINE, A_DET, A_ORACLE,
               "A-BRENT: scipy.optimize.brentq returns r in the bracket with a sign change of f within 4*(xtol+rtol*|r|) of r (cross-checked natively on solve_root)",
               "A-NODE: evaluating the three-height g-function family at a stored height equals the single-height computation (hypothesis of the manager-level clause; C11 proves the interpolation part)",
               "A-HMONO: feasibility at the minimum height implies feasibility at the maximum height (hypothesis of the manager-level clause)",
               "A-LIP: |d excess / d height| <= 0.5 K/m on the sizing window and heights <= 400 m (hypothesis of lemma root-within-sizing-tolerance)",
               "the statement quantifies over the bisection-based searches (near-square, rectangle, bi-rectangle, bi-zoned, polygon-constrained); RowWise is not among them"]
NOT_PROVED = ["manager-level clause is proved for the near-square and rectangle designs; bi-rectangle / bi-zoned / constrained are proved at the level of their search classes (Bisection2D.__init__, BisectionZD.*)",
              "numerical tolerance 1e-3 K rests on A-BRENT + A-LIP (lemma), not on the floating-point code"]
EXPLANATION = ("Bisection1D.search: invariant 0<=l<r<=r0, both ends evaluated, every evaluated key <= l has the left sign and every key >= r the other, "
               "i+(r-l)<=r0, r-l<=2^(15-i); postconditions: the selected candidate has the fewest boreholes among all evaluated candidates with negative excess, and for strictly "
               "increasing counts its predecessor was evaluated and fails. BisectionZD.search_successive: the chosen list has the least recorded total drilling and the returned field "
               "is its smallest evaluated feasible candidate (this obligation failed on the pinned tree - defect D14, fixed). GHE.size: root unless clamped (A-BRENT).")
LEVEL_TEXT = ("Deductive proof for candidate lists of every length (not only 1..64) and every sign pattern: minimal count among evaluated feasible candidates, predecessor evaluated "
              "and failing for strictly increasing counts, least total drilling among visited lists for the nested searches, height a root within solver tolerance unless clamped. "
              "The cross-list product inequality (count x height) of the nested searches is checked by the bounded oracle-stubbed run-time contract.")
LEVEL_NOTE = "Trusted: pyvc, z3/cvc5, brentq model (A-BRENT), A-NODE, A-HMONO, A-LIP, A-DET, A-REAL; RowWise search only bounded."
NATIVE_CASES = {"quick": 300, "thorough": 20000}
