#!/usr/bin/env python3
"""Regenerate MANIFEST.json from the props/ modules (run with ./.venv/bin/python tools/mkmanifest.py)."""
import importlib
import json
import os
import sys

VERIF = os.path.dirname(os.path.dirname(os.path.abspath(__file__)))
sys.path.insert(0, VERIF)
ALL = [f"C{k:02d}" for k in range(1, 21)]
PENDING_REASON = "check not built yet: the contract-based machinery for this property has not been written (see DESIGN.md section 5 for the plan)"

baseline_cmd = json.load(open("/root/.vp/BASELINE.json"))["cmd"]

checks, na = [], []
for pid in ALL:
    path = os.path.join(VERIF, "props", f"{pid}.py")
    if not os.path.exists(path):
        na.append({"property_id": pid, "reason": PENDING_REASON})
        continue
    m = importlib.import_module(f"props.{pid}")
    if getattr(m, "NOT_APPLICABLE", None):
        na.append({"property_id": pid, "reason": m.NOT_APPLICABLE})
        continue
    cat = "proof" if m.LEVEL == "proof" else "other"
    checks.append({
        "property_id": pid,
        "quick_cmd": f"./vcheck {pid} --tier quick",
        "thorough_cmd": f"./vcheck {pid} --tier thorough",
        "evidence_file": f"evidence/{pid}.json",
        "replay_cmd_template": "./vcheck replay {path}",
        "engine": "pyvc",
        "level_claimed": {"category": cat, "text": m.LEVEL_TEXT, "design_ref": f"DESIGN.md section 5 ({pid})"},
        "level_note": m.LEVEL_NOTE,
        "technique": m.TECHNIQUE,
    })

manifest = {
    "version": 1,
    "setup_cmd": "./vcheck setup",
    "hooks": {
        "guard": "GHEDESIGNER_VERIF",
        "enable": "no hooks: contracts are sidecar files under /verif/contracts and ghost state lives in the VC generator; /repo is read, never instrumented",
        "baseline_off_cmd": baseline_cmd.replace("--junitxml=<file>", "").strip(),
        "source_commits": [],
        "add_only": True,
    },
    "engines": [{
        "name": "pyvc", "path": "pyvc/",
        "serves_properties": [c["property_id"] for c in checks],
        "kind_free_text": "self-written verification-condition generator: symbolic execution of the real function ASTs (re-read from /repo on every run) against sidecar contracts, modular in callees, loops cut by invariants; obligations discharged by z3 5.1 (cvc5 1.4 on unknown); counter-models replayed on the real code under the overlay venv; run-time contract checks as labelled bounded stand-ins",
    }],
    "checks": checks,
    "not_applicable": na,
    "notes": "Family: contract-based deductive verification of the real code. Exit 0 held / 1 VIOLATION / 2 no verdict (a function that is under a discharged contract on the unchanged tree is outside the verifier's subset after a code change; never on the unchanged tree) / 3 checker fault. KNOWN_FINDINGS.jsonl lists recorded defects and fixed: entries.",
}
json.dump(manifest, open(os.path.join(VERIF, "MANIFEST.json"), "w"), indent=1)
print("checks:", [c["property_id"] for c in checks], "not_applicable:", len(na))
