"""C03 - rectangular-family candidate fields stay on the land and respect spacing."""
from props.common import *  # noqa: F401,F403

CO = "ghedesigner.coordinates"
DM = "ghedesigner.domains"
FUNCTIONS = [f"{CO}:rectangle", f"{CO}:open_rectangle", f"{CO}:l_shape", f"{CO}:lop_u", f"{CO}:c_shape", f"{CO}:zoned_rectangle", f"{CO}:transpose_coordinates",
             f"{DM}:square_and_near_square", f"{DM}:rectangular", f"{DM}:bi_rectangular", f"{DM}:bi_rectangle_nested#body", f"{D}:DesignNearSquare.__init__#body", f"{D}:DesignRectangle.__init__#body"]
NATIVE_FUNCTIONS = [f"{DM}:bi_rectangle_zoned_nested"]
NATIVE_CASES = {"quick": 60, "thorough": 3000}
NATIVE_LIMIT_S = {"quick": 60, "thorough": 1500}
CASE_TIMEOUT = 100
LEVEL = "other"
ASSUMPTIONS = [A_REAL + " - the floor/ceil of side/spacing ratios are discontinuity sites (defect D5 was a floating-point effect invisible over the reals; it is covered by the run-time contract)",
               A_ENGINE,
               "'at least b_min apart' is proved in the form: any two boreholes differ by at least b in x or by at least b in y (which implies Euclidean distance >= b and no coincidence)"]
NOT_PROVED = ["zoned_rectangle_domain, bi_rectangle_zoned_nested and the bi-rectangle / bi-zoned design constructors are not under discharged contracts: "
              "bounded run-time contract on the real generators (8 lots in both orientations x spacings) only",
              "ordering by borehole count of the rectangle list: bounded only (near-square ordering is proved)",
              "floating-point rounding of the ratio computations (T-E/T-B of the design): bounded run-time contract only"]
EXPLANATION = ("All shape builders of coordinates.py are proved for every count and spacing: points lie in the bounding box [0,(nx-1)sx]x[0,(ny-1)sy], any two differ by >= sx in x or >= sy in y "
               "(hence no coincident boreholes), counts as stated; open_rectangle's points lie on the perimeter; zoned_rectangle's interior lattice keeps the spacing to the perimeter. "
               "square_and_near_square and DesignNearSquare: field m is the i x (i+j) grid at exactly spacing b with (i-1) b <= length, counts non-decreasing, first field one borehole. "
               "rectangular and DesignRectangle: every field of the list, on both orientation paths (long side first, transposed back), lies on the land rectangle with spacing >= b_min. "
               "bi_rectangular (long side first, as bi_rectangle_nested calls it) and bi_rectangle_nested: every field of every family lies on the land rectangle in the requested orientation, spacing >= b_min "
               "along the long side and exactly length/(n-1) >= b_min along the short side (three loop invariants; the 1e-9 guard of the ceil is part of the proof). "
               "The bi-zoned generators are covered by the bounded run-time contract, which exposed defects D3, D4 (missing/incorrect transposition) and D5 (rounding) - all fixed.")
LEVEL_TEXT = ("Proof (all counts, spacings, land sizes, both orientations) for the shape builders, the near-square and the rectangle domains and their design constructors; bounded run-time contract "
              "for the bi-rectangle and bi-zoned generators and for floating-point effects - hence level 'other'.")
LEVEL_NOTE = "Trusted: pyvc, z3 (nonlinear arithmetic over int*real products), A-REAL. Bounded part never counted as proved."
