"""Contracts for coordinates.py / domains.py / design.py constructors (C03)."""
import z3

from pyvc.api import *
from pyvc.run import native

CO = "ghedesigner.coordinates"
DM = "ghedesigner.domains"
Point = TupleOf(Real, Real)


# ---- run-time form first: the real domain generators on the land rectangle ----------------------------------------------
def _field_problems(field, lx, ly, bmin, eps=1e-9):
    pts = [tuple(map(float, p)) for p in field]
    for (x, y) in pts:
        if not (-eps <= x <= lx * (1 + eps) + eps and -eps <= y <= ly * (1 + eps) + eps):
            return f"borehole ({x:.4f}, {y:.4f}) outside the land [0,{lx}]x[0,{ly}]"
    srt = sorted(pts)
    for i, (x1, y1) in enumerate(srt):
        for (x2, y2) in srt[i + 1:]:
            if x2 - x1 >= bmin:
                break
            d2 = (x2 - x1) ** 2 + (y2 - y1) ** 2
            if d2 < (bmin * (1 - eps)) ** 2:
                return f"boreholes ({x1:.4f},{y1:.4f}) and ({x2:.4f},{y2:.4f}) are {d2 ** 0.5:.6f} m apart, less than b_min {bmin}" if d2 > 0 else f"coincident boreholes at ({x1:.4f},{y1:.4f})"
    return None


def _domains_check(a):
    from ghedesigner import domains as dm

    lx, ly, bmin, bx, by = a["length"], a["width"], a["b_min"], a["b_max_x"], a["b_max_y"]
    kind = a["kind"]
    from math import ceil, floor

    l1, l2 = max(lx, ly), min(lx, ly)
    b1, b2 = (bx, by) if lx >= ly else (by, bx)
    if ceil(l1 / b1 + 1) > floor(l1 / bmin + 1) or (kind != "rectangle" and ceil(l2 / b2 + 1) > floor(l2 / bmin + 1)):
        return True, {"outcome": "no admissible row count between b_min and b_max on one side: outside the precondition"}
    try:
        if kind == "rectangle":
            lists = [dm.rectangular(lx, ly, bmin, bx)[0]]
        elif kind == "bi_rectangle":
            lists = dm.bi_rectangle_nested(lx, ly, bmin, bx, by)[0]
        else:
            lists = dm.bi_rectangle_zoned_nested(lx, ly, bmin, bx, by)[0]
    except ValueError:
        return True, {"outcome": "ValueError (generator refuses the lot)"}
    except Exception as e:
        return False, {"why": f"generator raised {type(e).__name__}: {e}", "signature": f"{kind}/{type(e).__name__}"}
    for li, lst in enumerate(lists):
        if not lst:
            continue
        if kind != "bi_zoned":
            sizes = [len(f) for f in lst]
            if sizes != sorted(sizes):
                return False, {"why": "candidate list not ordered by borehole count", "signature": f"{kind}/order", "sizes": sizes[:15]}
        for fi, f in enumerate(lst):
            pb = _field_problems(f, lx, ly, bmin)
            if pb:
                orient = "length<width" if lx < ly else ("length=width" if lx == ly else "length>width")
                where = "spacing" if "apart" in pb or "coincident" in pb else "land"
                return False, {"why": pb, "signature": f"{kind}/{where}/{orient}", "list": li, "field": fi, "size": len(f)}
    return True, {}


def _domains_gen(rng):
    kind = rng.choice(["rectangle", "bi_rectangle", "bi_zoned"])
    l, w = rng.choice([(85.0, 40.0), (40.0, 85.0), (60.0, 60.0), (36.5, 85.0), (85.0, 36.5), (100.0, 33.3), (47.3, 52.1), (30.0, 30.0)])
    bmin = rng.choice([2.0, 2.8, 3.0, 4.5, 5.0])
    bx = bmin + rng.choice([0.0, 2.0, 5.0, 7.0])
    by = bmin + rng.choice([0.0, 2.0, 5.0, 9.0]) if kind != "rectangle" else bx
    return {"kind": kind, "length": l, "width": w, "b_min": bmin, "b_max_x": bx, "b_max_y": by}


native(f"{DM}:bi_rectangle_zoned_nested", _domains_check, _domains_gen, None,
       bound="rectangle / bi-rectangle / bi-zoned generators on 8 lots (both orientations, square, non-integer ratios) x 5 b_min x 4 b_max offsets; land, pairwise spacing (1e-9 slack), coincidence, ordering")
