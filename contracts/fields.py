"""Contracts for coordinates.py / domains.py / design.py constructors (C03)."""
import z3

from pyvc.api import *
from pyvc.run import native

CO = "ghedesigner.coordinates"
DM = "ghedesigner.domains"
Point = TupleOf(Real, Real)


# ---- run-time form first: the real domain generators on the land rectangle ----------------------------------------------
def _field_problems(field, lx, ly, bmin, eps=1e-9):
    pts = [tuple(map(float, p)) for p in field]
    for (x, y) in pts:
        if not (-eps <= x <= lx * (1 + eps) + eps and -eps <= y <= ly * (1 + eps) + eps):
            return f"borehole ({x:.4f}, {y:.4f}) outside the land [0,{lx}]x[0,{ly}]"
    srt = sorted(pts)
    for i, (x1, y1) in enumerate(srt):
        for (x2, y2) in srt[i + 1:]:
            if x2 - x1 >= bmin:
                break
            d2 = (x2 - x1) ** 2 + (y2 - y1) ** 2
            if d2 < (bmin * (1 - eps)) ** 2:
                return f"boreholes ({x1:.4f},{y1:.4f}) and ({x2:.4f},{y2:.4f}) are {d2 ** 0.5:.6f} m apart, less than b_min {bmin}" if d2 > 0 else f"coincident boreholes at ({x1:.4f},{y1:.4f})"
    return None


def _domains_check(a):
    from ghedesigner import domains as dm

    kind = a["kind"]
    if kind == "near_square":
        from contracts.realruns import build_manager

        g = build_manager({"geom": "near_square", "b": a["b"], "length": a["length"]})
        dom = g._design.coordinates_domain
        sizes = [len(f) for f in dom]
        if sizes != sorted(sizes) or sizes[0] != 1:
            return False, {"why": "near-square list not ordered / does not start with one borehole", "signature": "near_square/order"}
        for m, f in enumerate(dom):
            i, j = 1 + m // 2, m % 2
            want = [(p * a["b"], q * a["b"]) for p in range(i) for q in range(i + j)]
            if [tuple(c) for c in f] != want:
                return False, {"why": f"field {m} is not the {i} x {i + j} grid at spacing b", "signature": "near_square/grid"}
            if (i - 1) * a["b"] > a["length"] * (1 + 1e-12):
                return False, {"why": f"field {m}: {i} x {i + j} grid has side {(i - 1) * a['b']} m > length {a['length']} m", "signature": "near_square/length"}
        return True, {}
    lx, ly, bmin, bx, by = a["length"], a["width"], a["b_min"], a["b_max_x"], a["b_max_y"]
    from math import ceil, floor


    l1, l2 = max(lx, ly), min(lx, ly)
    b1, b2 = (bx, by) if lx >= ly else (by, bx)
    if ceil(l1 / b1 + 1) > floor(l1 / bmin + 1) or (kind != "rectangle" and ceil(l2 / b2 + 1) > floor(l2 / bmin + 1)):
        return True, {"outcome": "no admissible row count between b_min and b_max on one side: outside the precondition"}
    try:
        if kind == "rectangle":
            lists = [dm.rectangular(lx, ly, bmin, bx)[0]]
        elif kind == "bi_rectangle":
            lists = dm.bi_rectangle_nested(lx, ly, bmin, bx, by)[0]
        else:
            lists = dm.bi_rectangle_zoned_nested(lx, ly, bmin, bx, by)[0]
    except ValueError:
        return True, {"outcome": "ValueError (generator refuses the lot)"}
    except Exception as e:
        return False, {"why": f"generator raised {type(e).__name__}: {e}", "signature": f"{kind}/{type(e).__name__}"}
    for li, lst in enumerate(lists):
        if not lst:
            continue
        if kind != "bi_zoned":
            sizes = [len(f) for f in lst]
            if sizes != sorted(sizes):
                return False, {"why": "candidate list not ordered by borehole count", "signature": f"{kind}/order", "sizes": sizes[:15]}
        for fi, f in enumerate(lst):
            pb = _field_problems(f, lx, ly, bmin)
            if pb:
                orient = "length<width" if lx < ly else ("length=width" if lx == ly else "length>width")
                where = "spacing" if "apart" in pb or "coincident" in pb else "land"
                return False, {"why": pb, "signature": f"{kind}/{where}/{orient}", "list": li, "field": fi, "size": len(f)}
    return True, {}


def _domains_gen(rng):
    if rng.random() < 0.2:
        b = rng.choice([5.0, 5.5, 6.0, 6.096, 7.3])
        return {"kind": "near_square", "b": b, "length": rng.choice([20.0, 22.0, 47.3, 100.0, 155.0, b * 7, b * 7.5, b * 7.51, b * 8.49])}
    kind = rng.choice(["rectangle", "bi_rectangle", "bi_zoned"])
    l, w = rng.choice([(85.0, 40.0), (40.0, 85.0), (60.0, 60.0), (36.5, 85.0), (85.0, 36.5), (100.0, 33.3), (47.3, 52.1), (30.0, 30.0)])
    bmin = rng.choice([2.0, 2.8, 3.0, 4.5, 5.0])
    bx = bmin + rng.choice([0.0, 2.0, 5.0, 7.0])
    by = bmin + rng.choice([0.0, 2.0, 5.0, 9.0]) if kind != "rectangle" else bx
    return {"kind": kind, "length": l, "width": w, "b_min": bmin, "b_max_x": bx, "b_max_y": by}


native(f"{DM}:bi_rectangle_zoned_nested", _domains_check, _domains_gen, None,
       bound="rectangle / bi-rectangle / bi-zoned generators on 8 lots (both orientations, square, non-integer ratios) x 5 b_min x 4 b_max offsets; land, pairwise spacing (1e-9 slack), coincidence, ordering")


# ---- coordinates.py: lattice shapes.  Postconditions without existentials: bounding box, pairwise separation, count ------
def xs(p):
    return p[0]


def BOX(r, lo_x, lo_y, hi_x, hi_y, upto=None):
    n = r.len if upto is None else upto
    return forall(1, lambda k: Implies(And(0 <= k, k < n), And(lo_x <= r[k][0], r[k][0] <= hi_x, lo_y <= r[k][1], r[k][1] <= hi_y)))


def absv(x):
    return If(x >= 0, x, -x)


def SEP(r, sx, sy, upto=None):
    """any two boreholes differ by at least sx in x or by at least sy in y (=> at least min(sx, sy) apart, none coincide)"""
    n = r.len if upto is None else upto
    return forall(2, lambda a, b: Implies(And(0 <= a, a < b, b < n), Or(absv(r[a][0] - r[b][0]) >= sx, absv(r[a][1] - r[b][1]) >= sy)))


def _empty(r):
    return isinstance(r.len, int) and r.len == 0


def _rect_outer(E):
    r, i = E.r, E.i
    x0, y0 = E.origin[0], E.origin[1]
    if _empty(r):
        return i == 0
    return And(r.len == i * E.num_bh_y,
               BOX(r, x0, y0, x0 + to_real(i - 1) * E.spacing_x, y0 + to_real(E.num_bh_y - 1) * E.spacing_y),
               SEP(r, E.spacing_x, E.spacing_y))


def _rect_inner(E):
    r, i, j = E.r, E.i, E.j
    x0, y0 = E.origin[0], E.origin[1]
    start = E.pre.r.len
    row = forall(1, lambda k: Implies(And(start <= k, k < r.len), And(r[k][0] == x0 + to_real(i) * E.spacing_x, r[k][1] == y0 + to_real(k - start) * E.spacing_y)))
    if _empty(r):
        return And(j == 0, start == 0)
    return And(r.len == start + j, start == i * E.num_bh_y, row,
               BOX(r, x0, y0, x0 + to_real(i - 1) * E.spacing_x, y0 + to_real(E.num_bh_y - 1) * E.spacing_y, upto=start),
               SEP(r, E.spacing_x, E.spacing_y, upto=start))


contract(f"{CO}:rectangle", dict(num_bh_x=Int, num_bh_y=Int, spacing_x=Real, spacing_y=Real, origin=TupleOf(Real, Real)),
         requires=[("counts", lambda E: And(E.num_bh_x >= 0, E.num_bh_y >= 0)), ("positive-spacing", lambda E: And(E.spacing_x > 0, E.spacing_y > 0))],
         loops={0: LoopSpec(invariants=[("rows-so-far", _rect_outer)], shapes={"r": ListOf(Point)}),
                1: LoopSpec(invariants=[("row-so-far", _rect_inner)], shapes={"r": ListOf(Point)})},
         ensures=[("count", lambda E: E.result.len == E.num_bh_x * E.num_bh_y),
                  ("inside-its-bounding-box", lambda E: BOX(E.result, E.origin[0], E.origin[1], E.origin[0] + to_real(E.num_bh_x - 1) * E.spacing_x, E.origin[1] + to_real(E.num_bh_y - 1) * E.spacing_y)),
                  ("pairwise-separated", lambda E: SEP(E.result, E.spacing_x, E.spacing_y))],
         returns=ListOf(Point))


# transpose_coordinates: swaps the components, keeps the order
contract(f"{CO}:transpose_coordinates", dict(coordinates=ListOf(Point)),
         loops={0: LoopSpec(invariants=[("swapped-so-far", lambda E: _swapped(E, E.coordinates_transposed, E._k0))], shapes={"coordinates_transposed": ListOf(Point)})},
         ensures=[("swapped", lambda E: And(E.result.len == E.coordinates.len, _swapped(E, E.result, E.coordinates.len)))],
         returns=ListOf(Point))


def _swapped(E, out, upto):
    if _empty(out):
        return upto == 0 if not isinstance(upto, int) else upto == 0
    return And(out.len == upto, forall(1, lambda k: Implies(And(0 <= k, k < upto), And(out[k][0] == E.coordinates[k][1], out[k][1] == E.coordinates[k][0]))))


# ---- line-built shapes: every loop appends points of one row (fixed y) or one column (fixed x) ---------------------------
def ROW(r, lo, hi, y, x_of):
    """elements lo..hi-1 are (x_of(k - lo), y)"""
    return forall(1, lambda k: Implies(And(lo <= k, k < hi), And(r[k][0] == x_of(k - lo), r[k][1] == y)))


def COL(r, lo, hi, x, y_of):
    return forall(1, lambda k: Implies(And(lo <= k, k < hi), And(r[k][0] == x, r[k][1] == y_of(k - lo))))


def _l_shape_inv0(E):
    r = E.l_shape_object
    if _empty(r):
        return E.i == 0
    return And(r.len == E.i, ROW(r, 0, r.len, 0, lambda t: to_real(t) * E.b_x))


def _l_shape_inv1(E):
    r = E.l_shape_object
    nx = If(E.n_x > 0, E.n_x, 0)
    return And(r.len == nx + (E.j - 1), ROW(r, 0, nx, 0, lambda t: to_real(t) * E.b_x), COL(r, nx, r.len, 0, lambda t: to_real(t + 1) * E.b_y))


def l_shape_post(E, r, n_x, n_y, b_x, b_y):
    nx = If(n_x > 0, n_x, 0)
    return And(r.len == nx + If(n_y > 1, n_y - 1, 0), ROW(r, 0, nx, 0, lambda t: to_real(t) * b_x), COL(r, nx, r.len, 0, lambda t: to_real(t + 1) * b_y))


contract(f"{CO}:l_shape", dict(n_x=Int, n_y=Int, b_x=Real, b_y=Real),
         requires=[("positive-spacing", lambda E: And(E.b_x > 0, E.b_y > 0)), ("at-least-one", lambda E: And(E.n_x >= 1, E.n_y >= 1))],
         loops={0: LoopSpec(invariants=[("bottom-row", _l_shape_inv0)], shapes={"l_shape_object": ListOf(Point)}),
                1: LoopSpec(invariants=[("left-column", _l_shape_inv1)], shapes={"l_shape_object": ListOf(Point)})},
         ensures=[("row-then-column", lambda E: l_shape_post(E, E.result, E.n_x, E.n_y, E.b_x, E.b_y)),
                  ("inside-its-bounding-box", lambda E: BOX(E.result, 0, 0, to_real(E.n_x - 1) * E.b_x, to_real(E.n_y - 1) * E.b_y)),
                  ("pairwise-separated", lambda E: SEP(E.result, E.b_x, E.b_y))],
         returns=ListOf(Point))


# generic description of shapes made of consecutive segments, one per loop
class Seg:
    def __init__(self, kind, var, first, count, fixed, step):
        """kind 'row' (points (t*step, fixed)) or 'col' (points (fixed, t*step)); loop variable `var` runs from `first`;
        count(E) = number of points, fixed(E) = the constant coordinate, step(E) = spacing; t = first + position in the segment"""
        self.kind, self.var, self.first, self.count, self.fixed, self.step = kind, var, first, count, fixed, step


def seg_desc(E, r, segs, upto_seg, cur_len=None):
    """segments 0..upto_seg-1 are complete; segment upto_seg (if any) is described up to the current length"""
    cs = []
    off = IntVal(0)
    for k, s in enumerate(segs[: upto_seg + 1]):
        cnt = s.count(E)
        cnt = If(cnt > 0, cnt, 0)
        hi = off + cnt if k < upto_seg else (cur_len if cur_len is not None else off + cnt)
        if k == upto_seg and cur_len is None and k >= len(segs):
            break
        f = (lambda t, s=s: to_real(t + s.first) * s.step(E))
        cs.append(ROW(r, off, hi, s.fixed(E), f) if s.kind == "row" else COL(r, off, hi, s.fixed(E), f))
        off = off + cnt
    return cs, off


def seg_inv(rname, segs, k):
    def inv(E):
        r = getattr(E, rname)
        if _empty(r):
            return getattr(E, segs[k].var) == segs[k].first if k == 0 else False
        prev = IntVal(0)
        for s in segs[:k]:
            c = s.count(E)
            prev = prev + If(c > 0, c, 0)
        cs, _ = seg_desc(E, r, segs, k, cur_len=r.len)
        return And(r.len == prev + (getattr(E, segs[k].var) - segs[k].first), *cs)
    return inv


def seg_post(segs):
    def post(E, r):
        cs, total = seg_desc(E, r, segs, len(segs) - 1)
        return And(r.len == total, *cs)
    return post


def shape_contract(name, params, rname, segs, box, requires_extra=()):
    return contract(f"{CO}:{name}", params,
                    requires=[("positive-spacing", lambda E: And(E.b_x > 0, E.b_y > 0))] + list(requires_extra),
                    loops={k: LoopSpec(invariants=[(f"segment-{k}", seg_inv(rname, segs, k))], shapes={rname: ListOf(Point)}) for k in range(len(segs))},
                    ensures=[("segments", lambda E: seg_post(segs)(E, E.result)),
                             ("inside-its-bounding-box", lambda E: BOX(E.result, 0, 0, *box(E))),
                             ("pairwise-separated", lambda E: SEP(E.result, E.b_x, E.b_y))],
                    returns=ListOf(Point))


LOPU = [Seg("row", "i", 0, lambda E: E.n_x, lambda E: RealVal(0), lambda E: E.b_x),
        Seg("col", "j", 1, lambda E: E.n_y_1 - 1, lambda E: RealVal(0), lambda E: E.b_y),
        Seg("col", "j", 1, lambda E: E.n_y_2 - 1, lambda E: to_real(E.n_x - 1) * E.b_x, lambda E: E.b_y)]
shape_contract("lop_u", dict(n_x=Int, n_y_1=Int, b_x=Real, b_y=Real, n_y_2=Int), "_lop_u", LOPU,
               lambda E: (to_real(E.n_x - 1) * E.b_x, to_real(If(E.n_y_1 >= E.n_y_2, E.n_y_1, E.n_y_2) - 1) * E.b_y),
               [("counts", lambda E: And(E.n_x >= 2, E.n_y_1 >= 1, E.n_y_2 >= 1))])

CSH = [Seg("row", "i", 0, lambda E: E.n_x_1, lambda E: RealVal(0), lambda E: E.b_x),
       Seg("col", "j", 1, lambda E: E.n_y - 1, lambda E: RealVal(0), lambda E: E.b_y),
       Seg("col", "j", 1, lambda E: E.n_y - 1, lambda E: to_real(E.n_x_1 - 1) * E.b_x, lambda E: E.b_y),
       Seg("row", "i", 1, lambda E: E.n_x_2, lambda E: to_real(E.n_y - 1) * E.b_y, lambda E: E.b_x)]
shape_contract("c_shape", dict(n_x_1=Int, n_y=Int, b_x=Real, b_y=Real, n_x_2=Int), "c", CSH,
               lambda E: (to_real(E.n_x_1 - 1) * E.b_x, to_real(E.n_y - 1) * E.b_y),
               [("counts", lambda E: And(E.n_x_1 >= 2, E.n_y >= 2, E.n_x_2 >= 0, E.n_x_2 <= E.n_x_1 - 2))])


# open_rectangle: bottom row, then pairs (left, right) for the inner rows, then the top row; small cases are full rectangles
def _or_parts(E, r, stage, j=None, i2=None):
    nx, ny, sx, sy = E.num_bh_x, E.num_bh_y, E.spacing_x, E.spacing_y
    W, H = to_real(nx - 1) * sx, to_real(ny - 1) * sy
    cs = []
    bottom_hi = r.len if stage == 0 else nx
    cs.append(ROW(r, 0, bottom_hi, 0, lambda t: to_real(t) * sx))
    if stage >= 1:
        pairs = (j - 1) if stage == 1 else (ny - 2)
        cs.append(forall(1, lambda k: Implies(And(nx <= k, k < nx + 2 * pairs),
                                              And(r[k][0] == If((k - nx) % 2 == 0, RealVal(0), W), r[k][1] == to_real((k - nx) / 2 + 1) * sy,
                                                  r[k][1] >= sy, r[k][1] <= H - sy))))  # linear consequences kept for the separation argument
        cs.append(And(W >= 2 * sx, H >= 2 * sy))
        if stage == 1:
            cs.append(r.len == nx + 2 * (j - 1))
    if stage == 2:
        cs.append(ROW(r, nx + 2 * (ny - 2), r.len, H, lambda t: to_real(t) * sx))
        cs.append(r.len == nx + 2 * (ny - 2) + i2)
    return cs


def _or_inv(stage):
    def inv(E):
        r = E.open_r
        if _empty(r):
            return E.i == 0 if stage == 0 else False
        if stage == 0:
            return And(r.len == E.i, *_or_parts(E, r, 0))
        if stage == 1:
            return And(*_or_parts(E, r, 1, j=E.j))
        return And(*_or_parts(E, r, 2, i2=E.i))
    return inv


def open_rectangle_post(E, r, nx, ny, sx, sy, part=None):
    W, H = to_real(nx - 1) * sx, to_real(ny - 1) * sy
    if part == "box":
        return BOX(r, 0, 0, W, H)
    if part == "sep":
        return SEP(r, sx, sy)
    if part == "edge":
        return Implies(And(nx > 2, ny > 2), forall(1, lambda k: Implies(And(0 <= k, k < r.len), Or(r[k][0] == 0, r[k][0] == W, r[k][1] == 0, r[k][1] == H))))
    on_edge = forall(1, lambda k: Implies(And(0 <= k, k < r.len), Or(r[k][0] == 0, r[k][0] == W, r[k][1] == 0, r[k][1] == H)))
    # (small cases nx <= 2 or ny <= 2 are full rectangles; the perimeter clause is claimed for the open case only)
    return And(BOX(r, 0, 0, W, H), SEP(r, sx, sy), Implies(And(nx > 2, ny > 2), on_edge))


contract(f"{CO}:open_rectangle", dict(num_bh_x=Int, num_bh_y=Int, spacing_x=Real, spacing_y=Real), options={"timeout_ms": 90000},
         requires=[("counts", lambda E: And(E.num_bh_x >= 1, E.num_bh_y >= 1)), ("positive-spacing", lambda E: And(E.spacing_x > 0, E.spacing_y > 0))],
         loops={0: LoopSpec(invariants=[("bottom-row", _or_inv(0))], shapes={"open_r": ListOf(Point)}),
                1: LoopSpec(invariants=[("side-pairs", _or_inv(1))], shapes={"open_r": ListOf(Point)}),
                2: LoopSpec(invariants=[("top-row", _or_inv(2))], shapes={"open_r": ListOf(Point)})},
         ensures=[("inside-its-bounding-box", lambda E: open_rectangle_post(E, E.result, E.num_bh_x, E.num_bh_y, E.spacing_x, E.spacing_y, "box")),
                  ("pairwise-separated", lambda E: open_rectangle_post(E, E.result, E.num_bh_x, E.num_bh_y, E.spacing_x, E.spacing_y, "sep")),
                  ("on-the-perimeter", lambda E: open_rectangle_post(E, E.result, E.num_bh_x, E.num_bh_y, E.spacing_x, E.spacing_y, "edge")),
                  ("count", lambda E: E.result.len == If(And(E.num_bh_x > 2, E.num_bh_y > 2), 2 * E.num_bh_x + 2 * (E.num_bh_y - 2), E.num_bh_x * E.num_bh_y))],
         returns=ListOf(Point))


# zoned_rectangle: perimeter + interior lattice
def _zoned_post(E, r):
    nx, ny, bx, by = E.n_x, E.n_y, E.b_x, E.b_y
    W, H = to_real(nx - 1) * bx, to_real(ny - 1) * by
    return And(BOX(r, 0, 0, W, H), SEP(r, bx, by))


contract(f"{CO}:zoned_rectangle", dict(n_x=Int, n_y=Int, b_x=Real, b_y=Real, n_ix=Int, n_it=Int),
         requires=[("positive-spacing", lambda E: And(E.b_x > 0, E.b_y > 0)), ("interior-counts", lambda E: And(E.n_ix >= 1, E.n_it >= 1, E.n_x >= 1, E.n_y >= 1))],
         raises={"ValueError": lambda E: Or(E.n_ix > E.n_x - 2, E.n_it > E.n_y - 2)},
         ensures=[("inside-its-bounding-box-and-separated", lambda E: _zoned_post(E, E.result)),
                  ("count", lambda E: E.result.len == 2 * E.n_x + 2 * (E.n_y - 2) + E.n_ix * E.n_it)],
         returns=ListOf(Point))


# ---- domains.py ---------------------------------------------------------------------------------------------------------
FieldL = ListOf(Point)
Domain = ListOf(FieldL)


def field_in_land(f, lx, ly, b):
    """the field lies on the land rectangle and any two of its boreholes differ by >= b in x or in y"""
    return And(BOX(f, 0, 0, lx, ly), SEP(f, b, b))


def _sns_inv(E):
    d = E.coordinates_domain
    if _empty(d):
        return E.i == E.lower
    return And(d.len == 2 * (E.i - E.lower), E.field_descriptors.len == d.len, _sns_fields(E, d, d.len))


def _sns_fields(E, d, upto):
    b = E.b

    def fld(m):
        i = E.lower + m / 2
        j = m % 2
        return And(d[m].len == i * (i + j), BOX(d[m], 0, 0, to_real(i - 1) * b, to_real(i + j - 1) * b), SEP(d[m], b, b))

    return forall(1, lambda m: Implies(And(0 <= m, m < upto), fld(m)))


contract(f"{DM}:square_and_near_square", dict(lower=Int, upper=Int, b=Real),
         requires=[("positive-spacing", lambda E: E.b > 0)],
         raises={"ValueError": lambda E: Or(E.lower < 1, E.upper < 1, E.upper < E.lower)},
         loops={0: LoopSpec(invariants=[("fields-so-far", _sns_inv)], shapes={"coordinates_domain": Domain, "field_descriptors": ListOf(OpaqueOf("str")), "coordinates": FieldL}),
                1: LoopSpec(unroll=True)},
         ensures=[("two-fields-per-size", lambda E: And(E.result[0].len == 2 * (E.upper - E.lower + 1), E.result[1].len == E.result[0].len)),
                  ("n-by-n-and-n-by-n-plus-1-grids-at-spacing-b", lambda E: _sns_fields(E, E.result[0], E.result[0].len)),
                  ("ordered-by-borehole-count", lambda E: forall(1, lambda m: Implies(And(0 <= m, m + 1 < E.result[0].len), E.result[0][m].len <= E.result[0][m + 1].len)))],
         returns=TupleOf(Domain, ListOf(OpaqueOf("str"))))


def _all_in_land(E, d):
    if _empty(d):
        return True
    return forall(1, lambda m: Implies(And(0 <= m, m < d.len), field_in_land(d[m], E.length_x, E.length_y, E.b_min)))


def _rect_facts(E):
    """what the three loops share: the long/short side bookkeeping"""
    l1 = If(E.length_x >= E.length_y, E.length_x, E.length_y)
    l2 = If(E.length_x >= E.length_y, E.length_y, E.length_x)
    return And(E.length_1 == l1, E.length_2 == l2, E.transpose == (E.length_x < E.length_y), E.n_min >= 2, E.n_max == ToInt(E.length_1 / E.b_min + 1))


_RSH = {"rectangle_domain": Domain, "field_descriptors": ListOf(OpaqueOf("str")), "r": FieldL, "b": Real, "n_2": Int, "n_2_old": Int, "_iter": Int}

contract(f"{DM}:rectangular", dict(length_x=Real, length_y=Real, b_min=Real, b_max=Real, disp=Const(False)),
         requires=[("positive", lambda E: And(E.length_x > 0, E.length_y > 0, E.b_min > 0, E.b_min <= E.b_max))],
         loops={0: LoopSpec(invariants=[("fields-on-the-land", lambda E: And(_rect_facts(E), _all_in_land(E, E.rectangle_domain), E.rectangle_domain.len == E.field_descriptors.len,
                                                                              Or(E._iter == 0, E._iter == 1), (E._iter == 0) == (E.num_borehole == E.n_min)))],
                            shapes=_RSH),
                1: LoopSpec(invariants=[("fields-on-the-land", lambda E: And(_rect_facts(E), _all_in_land(E, E.rectangle_domain), E.rectangle_domain.len == E.field_descriptors.len,
                                                                              E.num_borehole == E.n_min, E.b == E.length_1 / to_real(E.num_borehole - 1), E.b >= E.b_min,
                                                                              E.n_2 == ToInt(E.length_2 / E.b + 1)))], shapes=_RSH),
                2: LoopSpec(invariants=[("fields-on-the-land", lambda E: And(_rect_facts(E), _all_in_land(E, E.rectangle_domain), E.rectangle_domain.len == E.field_descriptors.len,
                                                                              E.num_borehole == E.n_min, E.b == E.length_1 / to_real(E.num_borehole - 1), E.b >= E.b_min,
                                                                              E.n_2 == ToInt(E.length_2 / E.b + 1)))], shapes=_RSH)},
         ensures=[("every-field-on-the-land-with-spacing-at-least-b_min", lambda E: _all_in_land(E, E.result[0])),
                  ("descriptors-aligned", lambda E: E.result[0].len == E.result[1].len)],
         returns=TupleOf(Domain, ListOf(OpaqueOf("str"))))


# ---- design.py constructors: which domain the search will see -----------------------------------------------------------------
DS = "ghedesigner.design"
_DBASE = dict(v_flow=Real, _borehole=ObjOf("x"), bhe_type=Int, fluid=ObjOf("x"), pipe=ObjOf("x"), grout=ObjOf("x"), soil=ObjOf("x"), sim_params=ObjOf("x"),
              hourly_extraction_ground_loads=OpaqueOf("list"), method=OpaqueOf("enum"), flow_type=Int)


def _near_square_fields(E):
    d = E.self.coordinates_domain
    b, length = E.geometric_constraints.b, E.geometric_constraints.length

    def fld(m):
        i = 1 + m / 2
        j = m % 2
        return And(d[m].len == i * (i + j), BOX(d[m], 0, 0, to_real(i - 1) * b, to_real(i + j - 1) * b), SEP(d[m], b, b), to_real(i - 1) * b <= length)

    return And(d.len >= 2, E.self.fieldDescriptors.len == d.len, forall(1, lambda m: Implies(And(0 <= m, m < d.len), fld(m))),
               forall(1, lambda m: Implies(And(0 <= m, m + 1 < d.len), d[m].len <= d[m + 1].len)), d[0].len == 1)


contract(f"{DS}:DesignNearSquare.__init__",
         dict(self=ObjOf(f"{DS}:DesignNearSquare"), geometric_constraints=ObjOf("gc", b=Real, length=Real), **_DBASE),
         name=f"{DS}:DesignNearSquare.__init__#body",
         requires=[("positive", lambda E: And(E.geometric_constraints.b > 0, E.geometric_constraints.length >= 0))],
         ensures=[("near-square-grids-that-fit-the-length", _near_square_fields),
                  ("keeps-flow-and-flow-type", lambda E: And(E.self.V_flow == E.v_flow, E.self.flow_type == E.flow_type))],
         returns=NoneT()).applies = lambda env: False


def _rect_design_fields(E):
    d = E.self.coordinates_domain
    gc = E.geometric_constraints
    return And(E.self.fieldDescriptors.len == d.len,
               forall(1, lambda m: Implies(And(0 <= m, m < d.len), field_in_land(d[m], gc.length, gc.width, gc.b_min))))


contract(f"{DS}:DesignRectangle.__init__",
         dict(self=ObjOf(f"{DS}:DesignRectangle"), geometric_constraints=ObjOf("gc", length=Real, width=Real, b_min=Real, b_max_x=Real), **_DBASE),
         name=f"{DS}:DesignRectangle.__init__#body",
         requires=[("positive", lambda E: And(E.geometric_constraints.length > 0, E.geometric_constraints.width > 0, E.geometric_constraints.b_min > 0,
                                              E.geometric_constraints.b_min <= E.geometric_constraints.b_max_x))],
         ensures=[("fields-on-the-land-with-spacing-at-least-b_min", _rect_design_fields),
                  ("keeps-flow-and-flow-type", lambda E: And(E.self.V_flow == E.v_flow, E.self.flow_type == E.flow_type))],
         returns=NoneT()).applies = lambda env: False


# ---- bi_rectangular: the n_1 x n_2 family for one short-side spacing (called by bi_rectangle_nested with length_x >= length_y) ---------------------------------
def _bi_field_ok(E, f):
    """on the land (in the orientation the caller asked for) with spacing >= b_min along the long side and >= b_2 along the short side"""
    b2 = E.length_y / to_real(_bi_n2(E) - 1)
    return If(E.transpose, And(BOX(f, 0, 0, E.length_y, E.length_x), SEP(f, b2, E.b_min)), And(BOX(f, 0, 0, E.length_x, E.length_y), SEP(f, E.b_min, b2)))


def _bi_n2(E):
    q = E.length_y / E.b_max_y + 1 - R("1/1000000000")
    return -ToInt(-q)  # ceil


def _bi_all(E, d):
    if _empty(d):
        return True
    return forall(1, lambda m: Implies(And(0 <= m, m < d.len), _bi_field_ok(E, d[m])))


def _bi_facts(E):
    return And(E.length_1 == E.length_x, E.length_2 == E.length_y, E.b_max_1 == E.b_max_x, E.b_max_2 == E.b_max_y, E.n_min >= 2, E.n_max == ToInt(E.length_x / E.b_min + 1),
               E.bi_rectangle_domain.len == E.field_descriptors.len)


_BSH = {"bi_rectangle_domain": Domain, "field_descriptors": ListOf(OpaqueOf("str")), "coordinates": FieldL, "b_1": Real, "b_2": Real, "n_2": Int, "_iter": Int, "n_1": Int}

contract(f"{DM}:bi_rectangular", dict(length_x=Real, length_y=Real, b_min=Real, b_max_x=Real, b_max_y=Real, transpose=Bool, disp=Const(False)),
         requires=[("long-side-first (what bi_rectangle_nested passes)", lambda E: And(E.length_x >= E.length_y, E.length_y > 0)),
                   ("spacings", lambda E: And(E.b_min > 0, E.b_min <= E.b_max_x, E.b_max_y > 0, E.length_y / E.b_max_y > R("1/100000000")))],
         loops={0: LoopSpec(invariants=[("fields-on-the-land", lambda E: And(_bi_facts(E), _bi_all(E, E.bi_rectangle_domain), Or(E._iter == 0, E._iter == 1), (E._iter == 0) == (E._k0 == 0)))],
                            shapes=_BSH),
                1: LoopSpec(invariants=[("fields-on-the-land", lambda E: And(_bi_facts(E), _bi_all(E, E.bi_rectangle_domain), E.n_2 == _bi_n2(E), E.b_2 == E.length_y / to_real(E.n_2 - 1),
                                                                              E.b_1 == E.length_x / to_real(E.n_1 - 1), E.b_1 >= E.b_min, E.n_1 >= 2, E.n_2 >= 2))], shapes=_BSH),
                2: LoopSpec(invariants=[("fields-on-the-land", lambda E: And(_bi_facts(E), _bi_all(E, E.bi_rectangle_domain), E.n_2 == _bi_n2(E), E.b_2 == E.length_y / to_real(E.n_2 - 1),
                                                                              E.b_1 == E.length_x / to_real(E.n_1 - 1), E.b_1 >= E.b_min, E.n_1 >= 2, E.n_2 >= 2))], shapes=_BSH)},
         ensures=[("every-field-on-the-land-with-the-two-spacings", lambda E: _bi_all(E, E.result[0])),
                  ("descriptors-aligned", lambda E: E.result[0].len == E.result[1].len),
                  # what bi_rectangle_nested relies on: when the requested short-side spacing divides the short side, it is the spacing used
                  ("short-side-count-when-the-spacing-divides-the-side", lambda E: forall(1, lambda k: Implies(And(k >= 1, to_real(k) * E.b_max_y == E.length_y), _bi_n2(E) == k + 1)))],
         returns=TupleOf(Domain, ListOf(OpaqueOf("str"))), options={"timeout_ms": 60000})


# ---- bi_rectangle_nested: one bi_rectangular family per short-side count -------------------------------------------------------------------------------
Nested = ListOf(Domain)


def _nested_field_ok(E, f):
    """on the land rectangle length_x x length_y, any two boreholes at least b_min apart along x or along y"""
    return And(BOX(f, 0, 0, E.length_x, E.length_y), SEP(f, E.b_min, E.b_min))


def _nested_all(E, nd):
    if _empty(nd):
        return True
    return forall(2, lambda a, m: Implies(And(0 <= a, a < nd.len, 0 <= m, m < nd[a].len), _nested_field_ok(E, nd[a][m])))


def _nested_facts(E):
    long_x = E.length_x >= E.length_y
    return And(E.length_1 == If(long_x, E.length_x, E.length_y), E.length_2 == If(long_x, E.length_y, E.length_x), E.b_max_1 == If(long_x, E.b_max_x, E.b_max_y),
               E.b_max_2 == If(long_x, E.b_max_y, E.b_max_x), E.transpose == Not(long_x), E.n_min >= 2, E.n_max == ToInt(E.length_2 / E.b_min + 1),
               E.bi_rectangle_nested_domain.len == E.field_descriptors.len)


contract(f"{DM}:bi_rectangle_nested", dict(length_x=Real, length_y=Real, b_min=Real, b_max_x=Real, b_max_y=Real, disp=Const(False)),
         requires=[("positive", lambda E: And(E.length_x > 0, E.length_y > 0, E.b_min > 0, E.b_min <= E.b_max_x, E.b_min <= E.b_max_y))],
         loops={0: LoopSpec(invariants=[("families-on-the-land", lambda E: And(_nested_facts(E), _nested_all(E, E.bi_rectangle_nested_domain)))],
                            shapes={"bi_rectangle_nested_domain": Nested, "field_descriptors": ListOf(ListOf(OpaqueOf("str"))), "bi_rectangle_domain": Domain, "f_d": ListOf(OpaqueOf("str")), "b_2": Real})},
         ensures=[("every-field-of-every-family-on-the-land-with-spacing-at-least-b_min", lambda E: _nested_all(E, E.result[0])),
                  ("descriptor-lists-aligned", lambda E: E.result[0].len == E.result[1].len)],
         returns=TupleOf(Nested, ListOf(ListOf(OpaqueOf("str")))), name=f"{DM}:bi_rectangle_nested#body", options={"timeout_ms": 90000}).applies = lambda env: False
