import sys, time, importlib
sys.path.insert(0,'/verif')
from pyvc.api import REG
from pyvc.engine import Exec
from pyvc.program import Program
from pyvc import solve
[importlib.import_module('contracts.'+m) for m in __import__('contracts').MODULES]
ex = Exec(Program('/repo'), REG)
obls = ex.verify(sys.argv[1])
sel=[o for o in obls if sys.argv[2] in o.name]
res = solve.discharge(sel, ex.axioms, jobs=16, timeout_ms=int(sys.argv[3]) if len(sys.argv)>3 else 20000)
for r in res: print(r.obl.name, r.obl.path, r.status, '%.1f'%r.seconds, r.backend, r.tried)
