"""vcheck <PID> [--tier quick|thorough]   |   vcheck replay <file>   |   vcheck setup"""
from __future__ import annotations

import importlib
import json
import os
import subprocess
import sys
import time
import traceback

import z3

from . import solve
from .run import NATIVES, REPO, VERIF, PropertyRun, extract, jsonable, run_native

sys.setrecursionlimit(20000)


def load_known():
    path = os.path.join(VERIF, "KNOWN_FINDINGS.jsonl")
    out = []
    if os.path.exists(path):
        for line in open(path):
            line = line.strip()
            if not line or line.startswith("#") or line.startswith("fixed:"):
                continue
            out.append(json.loads(line))
    return out


def load_baseline(pid):
    path = os.path.join(VERIF, "baseline", f"{pid}.json")
    if os.path.exists(path):
        return set(json.load(open(path))["discharged"])
    return None


def native_batch(qual, n, seed, limit_s, case_timeout=60, known=()):
    payload = json.dumps({"qual": qual, "gen": n, "seed": seed, "limit_s": limit_s, "case_timeout": case_timeout,
                          "known": [k.get("match", []) for k in known if k.get("match")]})
    env = dict(os.environ)
    env["PYTHONPATH"] = VERIF + os.pathsep + env.get("PYTHONPATH", "")
    for _v in ("OMP_NUM_THREADS", "OPENBLAS_NUM_THREADS", "MKL_NUM_THREADS", "NUMEXPR_NUM_THREADS"):
        env.setdefault(_v, "1")  # budgets are CPU time: one numerical thread per real-code run
    try:
        p = subprocess.run([sys.executable, "-m", "pyvc.nativerun"], input=payload, capture_output=True, text=True,
                           timeout=limit_s + 120 + 3 * case_timeout, env=env, cwd=VERIF)  # the soft limit is checked between cases: allow the last case its own budget
    except subprocess.TimeoutExpired:
        return {"ok": None, "detail": "native batch timed out", "evaluations": 0, "failures": []}
    if p.returncode != 0:
        return {"ok": None, "detail": "native harness crashed: " + p.stderr[-2000:], "evaluations": 0, "failures": []}
    try:
        return json.loads(p.stdout.strip().splitlines()[-1])
    except Exception:
        return {"ok": None, "detail": "unparsable: " + p.stdout[-300:], "evaluations": 0, "failures": []}


def main(argv=None):
    argv = argv or sys.argv[1:]
    if argv and argv[0] == "replay":
        return replay_file(argv[1])
    pid = argv[0]
    tier = os.environ.get("VERIF_TIER", "quick")
    if "--tier" in argv:
        tier = argv[argv.index("--tier") + 1]
    seed = int(os.environ.get("VERIF_SEED", "0"))
    try:
        return check_property(pid, tier, seed)
    except Exception:
        traceback.print_exc()
        print(f"CHECKER-FAULT property={pid}")
        return 3


def check_property(pid, tier, seed):
    import contracts

    for m in contracts.MODULES:
        importlib.import_module(f"contracts.{m}")
    from .api import REG

    prop = importlib.import_module(f"props.{pid}")
    run = PropertyRun(pid, tier, seed)
    known = [k for k in load_known() if k["property"] == pid]
    baseline = load_baseline(pid)
    jobs = int(os.environ.get("VERIF_JOBS", "16"))

    # 1. deductive part
    per_fn = run.verify_functions(REG, prop.FUNCTIONS, jobs=jobs)
    if hasattr(prop, "lemmas"):
        run.prove_lemmas(prop.lemmas())
    groups = run.grouped()

    violations, known_hits, undecided, faults = [], [], [], []
    discharged_names, all_names = [], []
    total_inst = 0
    solver_s = 0.0
    backends = {}
    # subset condition of the generator, decided by a scan of the real source: module-level bindings are constants (no function of a module in the
    # property's cone writes module-level state, a class attribute, a mutable default argument, or is memoised).  Where it fails the functions of that
    # module are outside the verifier's subset: no verdict from the deductive part (a bounded run may still produce a concrete violation).
    from .purity import package_modules, scan_module
    from .run import FnReport

    cone = {q.split(":")[0] for q in list(prop.FUNCTIONS) + sorted(getattr(run, "used_contracts", set()))}
    module_scan = {"scope": getattr(prop, "MODULE_STATE_SCOPE", "cone"), "modules": [], "findings": []}
    for mod, path in package_modules(REPO):
        if module_scan["scope"] != "package" and mod not in cone:
            continue
        module_scan["modules"].append(mod)
        found = scan_module(path)
        if found:
            rep = FnReport(f"{mod}:<module-level state>")
            rep.error = "module-level state is written (the generator treats module-level bindings as constants): " + "; ".join(f"line {ln}: {what}" for ln, what in found)[:600]
            run.fn_reports.append(rep)
            module_scan["findings"] += [f"{mod} line {ln}: {what}" for ln, what in found]
    for rep in run.fn_reports:
        if rep.error:
            undecided.append((rep.qual, f"function out of reach of the engine: {rep.error}"))
    for name, rs in groups.items():
        kinds = {r.obl.kind for r in rs}
        for r in rs:
            solver_s += r.seconds
            backends[r.backend] = backends.get(r.backend, 0) + 1
        total_inst += len(rs)
        if kinds == {"cover"}:
            # reachability / vacuity guards: every instance must be satisfiable (unknown is tolerated)
            if any(r.status == solve.UNSAT for r in rs) and name.endswith("requires-sat"):
                faults.append(f"{name}: precondition is unsatisfiable (vacuous contract)")
            elif all(r.status == solve.UNSAT for r in rs):
                faults.append(f"{name}: no path reaches this point (vacuous)")
            continue
        all_names.append(name)
        if all(r.status == solve.UNSAT for r in rs):
            discharged_names.append(name)
            continue
        bad = [r for r in rs if r.status == solve.SAT]
        if not bad:
            # undecided by the solvers: look for a candidate counterexample (quantified assumptions dropped) and replay it;
            # only a natively reproduced failure counts
            unk = [r for r in rs if r.status != solve.UNSAT]
            v = handle_refuted(run, prop, per_fn, name, unk, baseline, known, candidate_only=True)
            if v["class"] == "violation":
                violations.append(v)
            elif v["class"] == "known":
                known_hits.append(v)
            else:
                undecided.append((name, "solver: " + "; ".join(sorted({r.reason or "unknown" for r in unk}))))
            continue
        # a refuted obligation: replay
        v = handle_refuted(run, prop, per_fn, name, bad, baseline, known)
        if v["class"] == "violation":
            violations.append(v)
        elif v["class"] == "known":
            known_hits.append(v)
        else:
            undecided.append((name, v["note"]))

    # 2. bounded stand-ins / run-time contract checks on the real code
    bounded = []
    n_cases = int(os.environ.get("VERIF_NATIVE_CASES", "0")) or (getattr(prop, "NATIVE_CASES", {}).get(tier) or (60 if tier == "quick" else 1500))
    native_quals = list(getattr(prop, "NATIVE_FUNCTIONS", prop.FUNCTIONS))
    for q in native_quals:
        nat = NATIVES.get(q)
        if nat is None or nat.gen is None:
            continue
        limit = getattr(prop, "NATIVE_LIMIT_S", {}).get(tier) or (40 if tier == "quick" else 600)
        n_q = n_cases if os.environ.get("VERIF_NATIVE_CASES") else (getattr(prop, "NATIVE_CASES_BY_FUNCTION", {}).get(q, {}).get(tier) or n_cases)  # cheap run-time contracts may take more cases
        res = native_batch(q, n_q, seed, limit, case_timeout=getattr(prop, "CASE_TIMEOUT", 60), known=known)
        entry = {"function": q, "bounded": True, "bound": nat.bound or f"{n_q} generated inputs (seed {seed})",
                 "evaluations": res.get("evaluations", 0), "distinct": res.get("distinct", 0), "failures": len(res.get("failures", [])), "samples": res.get("samples", [])[:2]}
        if res.get("ok") is False and not res.get("failures"):
            res["ok"] = True
        bounded.append(entry)
        if res.get("ok") is None and not res.get("failures"):
            faults.append(f"native harness of {q}: {res.get('detail')}")
        for f in res.get("failures", []):
            if f["ok"] is None:
                faults.append(f"native harness of {q} crashed on {json.dumps(f['args'])[:200]}: {str(f['detail'])[-400:]}")
                continue
            sig = json.dumps(f["args"], sort_keys=True)
            kf = match_known(known, f"{short_q(q)}/runtime-contract", sig + " " + json.dumps(f["detail"]))
            if kf:
                known_hits.append({"class": "known", "name": f"{short_q(q)}/runtime-contract", "finding": kf})
                continue
            path = run.write_replay(f"{short_q(q)}/runtime-contract", {"property": pid, "obligation": f"{short_q(q)}/runtime-contract", "function": q,
                                    "mode": "direct", "args": f["args"], "observed": f["detail"], "repo": REPO})
            violations.append({"class": "violation", "name": f"{short_q(q)}/runtime-contract", "replay": path, "suffix": ""})
            break
    if hasattr(prop, "bounded"):
        for entry in prop.bounded(run, tier, seed):
            for f in entry.pop("failing", []):
                kf = match_known(known, entry["name"], json.dumps(f))
                if kf:
                    known_hits.append({"class": "known", "name": entry["name"], "finding": kf})
                else:
                    path = run.write_replay(entry["name"], {"property": pid, "obligation": entry["name"], "mode": "bounded", "case": f, "repo": REPO})
                    violations.append({"class": "violation", "name": entry["name"], "replay": path, "suffix": ""})
            for ft in entry.pop("faults", []):
                faults.append(ft)
            bounded.append(entry)

    # an undecided obligation that a recorded finding explains, and whose finding was reproduced natively in this run, is that finding
    explained = {n for k in known_hits for n in k["finding"].get("explains", [])}
    undecided = [(n, w) for n, w in undecided if n not in explained]

    # 3. evidence
    n_obl = len(all_names)
    n_dis = len(discharged_names)
    functions = []
    for rep in run.fn_reports:
        functions.append({"function": rep.qual, "source_sha256_16": rep.src_hash, "obligation_instances": len(rep.results),
                          "vc_generation_s": round(rep.gen_s, 3), "error": rep.error, "library_models": rep.models, "abstracted_loops": rep.abstracted,
                          "discontinuity_sites": [f"{l}: {t}" for _, l, t in rep.discont][:25]})
    samples = []
    for rep in run.fn_reports:
        for r in rep.results:
            if r.obl.kind not in ("cover",) and not r.obl.extra.get("trivial") and len(samples) < 3:
                samples.append({"obligation": r.obl.name, "path": r.obl.path, "status": r.status, "backend": r.backend,
                                "smt2_head": solve.to_smt2([], r.obl.assumptions[-3:], r.obl.goal)[:1200]})
    level = getattr(prop, "LEVEL", "proof")
    if undecided:
        level = "other"
    coverage = {
        "obligations": n_obl, "discharged": n_dis, "obligation_instances": total_inst,
        "checker_cmd": f"./vcheck {pid} --tier {tier}",
        "trusted_base": sorted(run.trusted) + list(getattr(prop, "ASSUMPTIONS", [])),
        "functions_under_contract": functions, "backends": backends, "solver_s": round(solver_s, 2),
        "undecided": [{"obligation": n, "reason": why} for n, why in undecided],
        "bounded_parts": bounded,
        "evaluations": sum(b.get("evaluations", 0) for b in bounded),
        "distinct_nontrivial": sum(b.get("distinct", 0) for b in bounded),
        "rule": "bounded parts: inputs drawn by the sidecar generators (seeded); distinct = distinct serialised inputs; the deductive part is counted in obligations/discharged, never here",
        "samples": samples or [{"note": "no non-trivial obligation sample"}],
        "explanation": getattr(prop, "EXPLANATION", ""),
        "known_findings_reported": [k["finding"]["what"] for k in known_hits],
        "not_proved_clauses": list(getattr(prop, "NOT_PROVED", [])),
        "assumed_callee_contracts": _assumed_callees(getattr(run, "used_contracts", set())),
        "module_state_scan": module_scan,
    }
    if level != "proof":
        coverage["explanation"] = (coverage["explanation"] + " | level 'other': " + "; ".join(w for _, w in undecided))[:4000] if undecided else coverage["explanation"]
    ev = {"property_id": pid, "tier": tier, "seed": seed, "level": level, "coverage": coverage,
          "assumptions": list(getattr(prop, "ASSUMPTIONS", [])) + sorted(run.trusted),
          "wall_s": round(time.time() - run.t0, 2), "violations": len(violations)}
    evdir = os.environ.get("VERIF_EVIDENCE_DIR") or os.path.join(VERIF, "evidence")  # seeded runs write elsewhere
    os.makedirs(evdir, exist_ok=True)
    with open(os.path.join(evdir, f"{pid}.json"), "w") as f:
        json.dump(jsonable(ev), f, indent=1)

    # 4. verdict
    print(f"[{pid}] tier={tier} functions={len(run.fn_reports)} obligations={n_obl} discharged={n_dis} instances={total_inst} "
          f"solver_s={solver_s:.1f} wall_s={time.time() - run.t0:.1f} backends={backends}")
    for b in bounded:
        print(f"[{pid}] bounded {b.get('function') or b.get('name')}: evaluations={b.get('evaluations')} failures={b.get('failures', 0)}")
    seen = set()
    for k in known_hits:
        key = k["finding"]["what"]
        if key not in seen:
            seen.add(key)
            print(f"KNOWN-FINDING: property={pid} {key}")
    for n, why in undecided:
        print(f"UNDECIDED {n}: {why}")
    for ft in faults:
        print(f"CHECKER-FAULT {ft}")
    if os.environ.get("VERIF_WRITE_BASELINE") == "1" and not violations and not undecided and not faults:
        os.makedirs(os.path.join(VERIF, "baseline"), exist_ok=True)
        with open(os.path.join(VERIF, "baseline", f"{pid}.json"), "w") as f:
            json.dump({"discharged": sorted(discharged_names)}, f, indent=0)
    if violations:
        for v in violations:
            print(f"VIOLATION property={pid} replay={v['replay']} obligation={v['name']}{(' ' + v['suffix']) if v.get('suffix') else ''}")
        return 1
    if faults:
        return 3
    if baseline is not None:
        # names of safety sites and of call-site preconditions follow the incidental structure of the code (ordinals of divisions, subscripts, calls):
        # a harmless refactoring renumbers them.  Only clauses named by the sidecar (ensures, invariants, steps, variants, frames, result types, lemmas) must
        # still be generated.
        missing = sorted(n for n in baseline if n not in set(all_names) and "/safety/" not in n and "/call#" not in n)
        loop_only = missing and all(any(t in n for t in ("/inv", "/step", "/decreases", "/variant", "/body-reachable")) for n in missing)
        if loop_only and not undecided:
            # the loops the sidecar's invariants were written for are gone (e.g. a loop replaced by an array expression): whatever else was proved, the sidecar no longer
            # matches the code - no verdict, not a checker crash
            print(f"NO-VERDICT property={pid} loop obligations of the baseline are no longer generated (the loops they belong to are gone): {missing[:4]} ...")
            return 2
        if missing and not undecided:
            print(f"CHECKER-FAULT obligations of the baseline are no longer generated: {missing[:5]} ...")
            return 3
    if undecided:
        # undecided is never a violation.  A function that the generator can no longer process (it is under a discharged contract on
        # the unchanged tree, so this only happens after a code change) leaves its obligations without a verdict: exit status 2,
        # no VIOLATION line.  Solver timeouts with clean bounded stand-ins keep exit status 0.
        out_of_reach = [rep.qual for rep in run.fn_reports if rep.error]
        if out_of_reach:
            print(f"NO-VERDICT property={pid} functions outside the verifier's subset after a code change: {', '.join(short_q(q) for q in out_of_reach)}")
            return 2
        return 0 if bounded else 2
    return 0


def _assumed_callees(used):
    """contracts that were applied at call sites in this run but are not verified against a body by any property check (caller views of external or
    out-of-reach functions, abstract oracles): a mechanical scan, reported as assumptions"""
    verified = set()
    props_dir = os.path.join(VERIF, "props")
    for f in sorted(os.listdir(props_dir)):
        if f.startswith("C") and f.endswith(".py"):
            try:
                m = importlib.import_module(f"props.{f[:-3]}")
                verified |= set(getattr(m, "FUNCTIONS", []))
            except Exception:  # noqa: BLE001
                pass
    from .api import REG

    out = []
    for n in sorted(used):
        if n in verified:
            continue
        c = REG.contracts.get(n)
        # a caller view whose function has some verified variant is a *view* of verified code; anything else is assumed
        has_body = c is not None and any(v.qual == c.qual and v.name in verified for v in REG.contracts.values())
        out.append(n + (" (caller view; a variant of this function is verified against its body)" if has_body else " (ASSUMED: no variant verified against a body)"))
    return out


def short_q(q):
    return q.split(":", 1)[1]


def match_known(known, name, text):
    for k in known:
        if k.get("obligation") and k["obligation"] != name and not name.startswith(k["obligation"]):
            continue
        if all(m in text for m in k.get("match", [])):
            return k
    return None


def _provably_false(run, name, unk, baseline, ex):
    """An obligation that was discharged on the unchanged tree, is undecided now, and has a quantifier-free conjunct that the
    quantifier-free part of its (satisfiable) path condition contradicts: it fails, although no model could be completed."""
    if baseline is None or name not in baseline or ex is None:
        return None
    for r in unk:
        try:
            c = solve.provably_false(r.obl, ex.axioms)
        except Exception:
            c = None
        if c is not None:
            path = run.write_replay(name, {"property": run.pid, "obligation": name, "function": r.obl.extra.get("vname") or r.obl.func, "path": r.obl.path, "line": r.obl.line,
                                           "kind": r.obl.kind, "solver": {"status": r.status, "backend": r.backend, "seconds": r.seconds, "reason": r.reason},
                                           "contradicted_conjunct": str(c)[:3000], "repo": REPO, "frame_locations": r.obl.extra.get("frame_locations"),
                                           "note": "obligation was discharged on the unchanged tree; now this quantifier-free conjunct of its goal is contradicted by the "
                                                   "quantifier-free assumptions of the path (satisfiable on their own); the solvers could not complete a model because "
                                                   "callee postconditions are quantified, so there is no concrete failing input"})
            return {"class": "violation", "name": name, "replay": path, "suffix": "no-failing-input-found"}
    return None


def handle_refuted(run, prop, per_fn, name, bad, baseline, known, candidate_only=False):
    """A named obligation has a satisfiable negation on some path: build a replay and classify."""
    r = bad[0]
    obl = r.obl
    qual = obl.extra.get("vname") or obl.func
    ex = per_fn[qual][0] if qual in per_fn else None
    model = solve.model_for(obl, ex.axioms if ex else [], timeout_ms=min(run.timeout_ms, 20000), drop_quantified=candidate_only) if ex else None
    if candidate_only and model is None:
        return _provably_false(run, name, bad, baseline, ex) or {"class": "undecided", "name": name, "note": "undecided"}
    inputs = None
    if model is not None and ex is not None:
        try:
            inputs = {k: extract(v, model) for k, v in ex.input_syms_for(qual).items()}
            from .run import zval

            inputs["__eval__"] = lambda e, model=model: zval(model, e)
            inputs["__sym__"] = ex.input_syms_for(qual)
        except Exception as e:  # extraction problems never turn into violations
            inputs = {"__extract_error__": repr(e)}
    payload = {"property": run.pid, "obligation": name, "function": qual, "path": obl.path, "line": obl.line, "kind": obl.kind,
               "solver": {"status": r.status, "backend": r.backend, "seconds": r.seconds},
               "model_inputs": jsonable(plain(inputs)), "repo": REPO,
               "goal": str(obl.goal)[:3000]}
    if obl.extra.get("detail"):
        payload["detail"] = obl.extra["detail"]
    sig_text = f"{name} {obl.path} " + json.dumps(jsonable(plain(inputs)), sort_keys=True)
    nat = NATIVES.get(qual)
    reproduced = None
    # (a) direct replay of the model's inputs
    if nat is not None and nat.from_model is not None and inputs is not None and obl.kind in ("ensures", "safety", "raises", "precondition", "lemma"):
        try:
            args = nat.from_model(inputs)
            res = run_native(qual, args)
            payload["native_args"] = jsonable(args)
            payload["native_result"] = res
            if res.get("ok") is False:
                reproduced = True
                sig_text += " " + json.dumps(jsonable(args), sort_keys=True) + " " + json.dumps(res.get("detail"))
            elif res.get("ok") is True:
                reproduced = False
        except Exception as e:
            payload["native_error"] = repr(e)
    # (b) bounded search with the run-time contract
    if reproduced is not True and nat is not None and nat.gen is not None and not candidate_only:
        res = native_batch(qual, 400, run.seed, 60)
        payload["native_search"] = {k: res.get(k) for k in ("evaluations", "ok")}
        fails = [f for f in res.get("failures", []) if f["ok"] is False]
        if fails:
            reproduced = True
            payload["native_args"] = fails[0]["args"]
            payload["native_result"] = fails[0]
            sig_text += " " + json.dumps(fails[0]["args"], sort_keys=True) + " " + json.dumps(fails[0]["detail"])
    # (c) property-specific replay (oracle-stubbed search, witness synthesis)
    if reproduced is not True and hasattr(prop, "replay"):
        try:
            rr = prop.replay(name, obl, inputs, model)
            if rr is not None:
                payload["custom_replay"] = jsonable(rr)
                if rr.get("reproduced"):
                    reproduced = True
                    sig_text += " " + json.dumps(jsonable(rr), sort_keys=True)
        except Exception:
            payload["custom_replay_error"] = traceback.format_exc()[-1500:]
    kf = match_known(known, name, sig_text)
    if kf:
        return {"class": "known", "name": name, "finding": kf}
    if reproduced:
        path = run.write_replay(name, payload)
        return {"class": "violation", "name": name, "replay": path, "suffix": ""}
    if candidate_only:
        return _provably_false(run, name, bad, baseline, ex) or {"class": "undecided", "name": name, "note": "undecided"}
    if baseline is not None and name in baseline:
        payload["note"] = "obligation was discharged on the unchanged tree and is now refuted by the solver; no concrete failing input could be constructed"
        path = run.write_replay(name, payload)
        return {"class": "violation", "name": name, "replay": path, "suffix": "no-failing-input-found"}
    path = run.write_replay(name, payload)
    return {"class": "undecided", "name": name, "note": f"refuted by the solver but not reproduced natively and not in the baseline (replay {path})"}


def plain(x):
    from .run import ModelFn

    if isinstance(x, dict):
        return {k: plain(v) for k, v in x.items() if not str(k).startswith("__")}
    if isinstance(x, (list, tuple)):
        return [plain(v) for v in x]
    if isinstance(x, ModelFn):
        return "<function under model>"
    return x


def replay_file(path):
    d = json.load(open(path))
    import contracts

    for m in contracts.MODULES:
        importlib.import_module(f"contracts.{m}")
    if "native_args" in d and d.get("function") in NATIVES:
        res = run_native(d["function"], d["native_args"])
        print(json.dumps(res, indent=1))
        return 0 if res.get("ok") else 1
    if d.get("mode") == "direct" and d.get("function") in NATIVES:
        res = run_native(d["function"], d["args"])
        print(json.dumps(res, indent=1))
        return 0 if res.get("ok") else 1
    prop = importlib.import_module(f"props.{d['property']}")
    if hasattr(prop, "replay_case"):
        res = prop.replay_case(d)
        print(json.dumps(jsonable(res), indent=1))
        return 0 if res.get("ok") else 1
    print("replay file carries the solver output only (no-failing-input-found):")
    print(json.dumps({k: d[k] for k in d if k in ("obligation", "function", "path", "solver", "goal", "note")}, indent=1))
    return 1


if __name__ == "__main__":
    sys.exit(main())
