"""Contracts for the flow-specification plumbing (C20): BaseGHE.__init__, get_bhe_object, RowWise.initialize_ghe."""
import z3

from contracts.search import (BOREHOLE_FLOW, SYSTEM_FLOW, BHE, Borehole, Field, Fluid, GFo, GHEs, S, SimP, Str, flow_spec, GFK, GHECFG, SPACING)
from pyvc.api import *
from pyvc.run import native

G = "ghedesigner.ground_heat_exchangers"
B = "ghedesigner.borehole_heat_exchangers"

BheObj = lambda: ObjOf(f"{B}:SingleUTube", m_flow_borehole=Real, b=Borehole(), fluid=Fluid(), pipe=ObjOf("pipe"), grout=ObjOf("grout"), soil=ObjOf("soil"))  # noqa: E731

# constructors of the exchanger classes (bodies call into pygfunction: abstract; what matters here is which flow they receive)
for _cls in ("SingleUTube", "MultipleUTube", "CoaxialPipe"):
    _params = dict(self=ObjOf(f"{B}:{_cls}"), m_flow_borehole=Real, fluid=Fluid(), _borehole=Borehole(), pipe=ObjOf("pipe"), grout=ObjOf("grout"), soil=ObjOf("soil"))
    if _cls == "MultipleUTube":
        _params["config"] = OpaqueOf("enum")
    contract(f"{B}:{_cls}.__init__", _params,
             assigns=[((lambda P, k=k: (P.self, k)), sh) for k, sh in dict(
                 m_flow_borehole=AliasOf(lambda P: P.m_flow_borehole), fluid=AliasOf(lambda P: P.fluid), b=AliasOf(lambda P: P._borehole),
                 borehole=AliasOf(lambda P: P._borehole), pipe=AliasOf(lambda P: P.pipe), grout=AliasOf(lambda P: P.grout), soil=AliasOf(lambda P: P.soil)).items()],
             returns=NoneT(), notes="trusted: constructor bodies call pygfunction; the first statements store the arguments (GHEDesignerBoreholeBase.__init__ is verified)")

contract(f"{B}:GHEDesignerBoreholeBase.__init__",
         dict(self=ObjOf(f"{B}:GHEDesignerBoreholeBase"), m_flow_borehole=Real, fluid=Fluid(), _borehole=Borehole(), pipe=ObjOf("pipe"), grout=ObjOf("grout"), soil=ObjOf("soil")),
         ensures=[("stores-the-flow-it-was-given", lambda E: E.self.m_flow_borehole == E.m_flow_borehole)], returns=NoneT())

contract(f"{B}:get_bhe_object",
         dict(bhe_type=Int, m_flow_borehole=Real, fluid=Fluid(), _borehole=Borehole(), pipe=ObjOf("pipe"), grout=ObjOf("grout"), soil=ObjOf("soil")),
         raises={"TypeError": lambda E: Not(And(1 <= E.bhe_type, E.bhe_type <= 4))},
         ensures=[("exchanger-gets-the-flow-unchanged", lambda E: E.result.m_flow_borehole == E.m_flow_borehole)],
         returns=BheObj())

# abstract callees of BaseGHE.__init__
contract(f"{B}:SingleUTube.to_single", dict(self=BheObj()), returns=BheObj(), notes="abstract here; verified for C15")
contract("ghedesigner.radial_numerical_borehole:RadialNumericalBH.__init__", dict(self=ObjOf("rn"), single_u_tube=BheObj()), returns=NoneT(), notes="abstract here; C10",
         name="ghedesigner.radial_numerical_borehole:RadialNumericalBH.__init__#caller").applies = lambda env: True
contract("ghedesigner.radial_numerical_borehole:RadialNumericalBH.calc_sts_g_functions", dict(self=ObjOf("rn"), single_u_tube=BheObj()), returns=NoneT(), notes="abstract here; C10")

contract(f"{G}:BaseGHE.__init__",
         dict(self=ObjOf(f"{G}:BaseGHE"), v_flow_system=Real, b_spacing=Real, bhe_type=Int, fluid=Fluid(), borehole=Borehole(), pipe=ObjOf("pipe"),
              grout=ObjOf("grout"), soil=ObjOf("soil"), g_function=GFo(), sim_params=SimP(NoneT()), hourly_extraction_ground_loads=OpaqueOf("list")),
         requires=[("field-not-empty", lambda E: E.g_function.bore_locations.len >= 1), ("known-pipe-type", lambda E: And(1 <= E.bhe_type, E.bhe_type <= 4))],
         ensures=[("borehole-count", lambda E: E.self.nbh == E.g_function.bore_locations.len),
                  ("per-borehole-mass-flow", lambda E: E.self.m_flow_borehole == E.v_flow_system / ToReal(E.g_function.bore_locations.len) / 1000 * E.fluid.rho),
                  ("exchanger-gets-that-flow", lambda E: E.self.bhe.m_flow_borehole == E.self.m_flow_borehole),
                  ("system-flow-kept", lambda E: E.self.V_flow_system == E.v_flow_system)],
         returns=NoneT(), name=f"{G}:BaseGHE.__init__#body")
REG.contracts[f"{G}:BaseGHE.__init__#body"].applies = lambda env: False


def RW():
    return ObjOf(f"{S}:RowWiseModifiedBisectionSearch", V_flow=Real, flow_type=Int, bhe_type=Int, fluid=Fluid(), pipe=ObjOf("pipe"), grout=ObjOf("grout"),
                 soil=ObjOf("soil"), borehole=Borehole(), log_time=OpaqueOf("list"), sim_params=SimP(NoneT()),
                 hourly_extraction_ground_loads=OpaqueOf("list"), fieldType=Str, load_years=OpaqueOf("list"), ghe=GHEs())


contract(f"{S}:RowWiseModifiedBisectionSearch.initialize_ghe", dict(self=RW(), coordinates=Field, h=Real, field_specifier=Str), name=f"{S}:RowWiseModifiedBisectionSearch.initialize_ghe#body",
         requires=[("at-least-one-borehole", lambda E: E.coordinates.len >= 1),
                   ("known-flow-type", lambda E: Or(E.self.flow_type == BOREHOLE_FLOW, E.self.flow_type == SYSTEM_FLOW))],
         ensures=[("height-set", lambda E: And(E.self.ghe.bhe.b.H == E.h, E.self.ghe.g_H0 == E.h, E.self.ghe.g_field == E.coordinates.id)),
                  ("system-flow-forwarded", lambda E: E.self.ghe.V_flow_system == flow_spec(E.self.flow_type, E.self.V_flow, E.coordinates.len, E.self.fluid.rho)[0]),
                  ("mass-flow-consistent", lambda E: E.self.ghe.m_flow_borehole == flow_spec(E.self.flow_type, E.self.V_flow, E.coordinates.len, E.self.fluid.rho)[1]),
                  ("g-function-for-that-flow-and-height",
                   lambda E: E.self.ghe.g_cfg == GHECFG(GFK(SPACING(E.coordinates.id, E.self.borehole.r_b), E.h, E.self.borehole.r_b, E.self.borehole.D,
                                                              flow_spec(E.self.flow_type, E.self.V_flow, E.coordinates.len, E.self.fluid.rho)[1], E.coordinates.id),
                                                          flow_spec(E.self.flow_type, E.self.V_flow, E.coordinates.len, E.self.fluid.rho)[0],
                                                          SPACING(E.coordinates.id, E.self.borehole.r_b), E.h))],
         returns=NoneT())
REG.contracts[f"{S}:RowWiseModifiedBisectionSearch.initialize_ghe#body"].applies = lambda env: False


# ---- lemmas over the contracts -------------------------------------------------------------------------------
def lemma_equivalence():
    """BOREHOLE with v and SYSTEM with N*v give the same system flow and the same per-borehole mass flow, at retrieve_flow
    (what the g-function receives) and in BaseGHE.__init__ (what the exchanger receives)."""
    v, rho = z3.Reals("v rho")
    n = z3.Int("n")
    sb = flow_spec(IntVal(BOREHOLE_FLOW), v, n, rho)
    ss = flow_spec(IntVal(SYSTEM_FLOW), ToReal(n) * v, n, rho)
    ghe_m = lambda vsys: vsys / ToReal(n) / 1000 * rho  # noqa: E731  (postcondition of BaseGHE.__init__)
    return [n >= 1], And(sb[0] == ss[0], sb[1] == ss[1], ghe_m(sb[0]) == ghe_m(ss[0]), ghe_m(sb[0]) == sb[1], sb[1] == v / 1000 * rho)


def lemma_one_over_n():
    """with a system flow the per-borehole flow times the borehole count is the same for every candidate"""
    v, rho = z3.Reals("v rho")
    n1, n2 = z3.Ints("n1 n2")
    m1 = flow_spec(IntVal(SYSTEM_FLOW), v, n1, rho)[1]
    m2 = flow_spec(IntVal(SYSTEM_FLOW), v, n2, rho)[1]
    return [n1 >= 1, n2 >= 1], And(m1 * ToReal(n1) == m2 * ToReal(n2), m1 * ToReal(n1) == v / 1000 * rho)


LEMMAS = [("borehole-and-system-specification-equivalent", lemma_equivalence), ("system-flow-splits-as-one-over-N", lemma_one_over_n)]


# ---- run-time form ---------------------------------------------------------------------------------------------
def _flow_check(a):
    from ghedesigner.enums import FlowConfigType
    from ghedesigner.search_routines import Bisection1D, RowWiseModifiedBisectionSearch

    n, v, rho = a["n"], a["v"], a["rho"]
    coords = [(0.0, float(i)) for i in range(n)]
    for cls in (Bisection1D, RowWiseModifiedBisectionSearch):
        o = object.__new__(cls)
        o.V_flow, o.flow_type = v, FlowConfigType.BOREHOLE
        vs_b, m_b = o.retrieve_flow(coords, rho)
        o.V_flow, o.flow_type = v * n, FlowConfigType.SYSTEM
        vs_s, m_s = o.retrieve_flow(coords, rho)
        tol = 4 * 2.0 ** -52
        if abs(vs_b - vs_s) > tol * abs(vs_b) or abs(m_b - m_s) > tol * abs(m_b) or abs(m_b - v / 1000.0 * rho) > tol * abs(m_b):
            return False, {"cls": cls.__name__, "borehole": [vs_b, m_b], "system": [vs_s, m_s]}
        o.flow_type = "neither"
        try:
            o.retrieve_flow(coords, rho)
            return False, {"why": "no ValueError for an unknown flow type"}
        except ValueError:
            pass
    return True, {}


native(f"{S}:Bisection1D.retrieve_flow", _flow_check, lambda rng: {"n": rng.randint(1, 400), "v": rng.uniform(0.05, 2.0), "rho": rng.uniform(950, 1100)},
       lambda inp: {"n": max(1, int(inp["coordinates"]["len"])), "v": float(inp["self"]["V_flow"]), "rho": float(inp["rho"])},
       bound="fields of 1..400 boreholes, flows 0.05..2 L/s, densities 950..1100 kg/m3, both search classes; equality up to 4 ulp")


def _ghe_flow_check(a):
    """same field built with per-borehole flow v and with system flow N*v: same mass flow, resistance and temperatures"""
    from contracts.realruns import build_manager
    from ghedesigner.enums import FlowConfigType, TimestepType
    from ghedesigner.search_routines import Bisection1D

    g = build_manager({**a, "length": 12.0})
    d = g._design
    coords = [(float(i % a["nx"]) * 6.0, float(i // a["nx"]) * 6.0) for i in range(a["n"])]
    out = []
    for ft, v in ((FlowConfigType.BOREHOLE, a["v"]), (FlowConfigType.SYSTEM, a["v"] * a["n"])):
        s = Bisection1D([coords], ["f"], v, d.borehole, d.bhe_type, d.fluid, d.pipe, d.grout, d.soil, d.sim_params,
                        d.hourly_extraction_ground_loads, method=TimestepType.HYBRID, flow_type=ft, search=False)
        s.initialize_ghe(coords, 100.0)
        mx, mn = s.ghe.simulate(method=TimestepType.HYBRID)
        out.append((s.ghe.bhe.m_flow_borehole, s.ghe.bhe.calc_effective_borehole_resistance(), mx, mn, s.ghe.m_flow_borehole))
    (m1, r1, a1, b1, g1), (m2, r2, a2, b2, g2) = out
    rel = lambda x, y: abs(x - y) <= 1e-9 * max(1.0, abs(x))  # noqa: E731
    ok = rel(m1, m2) and rel(r1, r2) and rel(a1, a2) and rel(b1, b2) and rel(m1, g1) and rel(m2, g2) and rel(m1, a["v"] / 1000.0 * d.fluid.rho)
    return ok, {"borehole": out[0], "system": out[1]}


native(f"{S}:Bisection1D.initialize_ghe", _ghe_flow_check,
       lambda rng: {"n": rng.choice([1, 2, 4, 6, 9]), "nx": 3, "v": rng.choice([0.1, 0.3, 0.6]), "pipe": rng.choice(["single", "double_parallel", "double_series", "coaxial"]),
                    "kind": "balanced", "scale": 2.0e4, "months": 12},
       None, bound="real GHE objects for 1..9 boreholes x 4 pipe types x 3 flows: mass flow, effective borehole resistance and hybrid temperatures compared to 1e-9 relative")


# ---- GHEManager.set_design hands the parsed flow type to the design object (all six geometry branches) -----------
from pyvc.values import EnumVal  # noqa: E402

D_ = "ghedesigner.design"
GEOMS = {"NEARSQUARE": ("DesignNearSquare", 4), "RECTANGLE": ("DesignRectangle", 5), "BIRECTANGLE": ("DesignBiRectangle", 1),
         "BIZONEDRECTANGLE": ("DesignBiZoned", 3), "BIRECTANGLECONSTRAINED": ("DesignBiRectangleConstrained", 2), "ROWWISE": ("DesignRowWise", 6)}

for _g, (_cls, _val) in GEOMS.items():
    # constructor, caller view: the design object keeps the flow and the flow type it was given (DesignBase.__init__ is verified below)
    contract(f"{D_}:{_cls}.__init__",
             dict(self=ObjOf(f"{D_}:{_cls}"), v_flow=Real, _borehole=ObjOf("x"), bhe_type=Int, fluid=ObjOf("x"), pipe=ObjOf("x"), grout=ObjOf("x"), soil=ObjOf("x"),
                  sim_params=ObjOf("x"), geometric_constraints=ObjOf("x"), hourly_extraction_ground_loads=OpaqueOf("list"), method=OpaqueOf("enum"), flow_type=Int),
             assigns=[((lambda P, k=k: (P.self, k)), sh) for k, sh in dict(V_flow=AliasOf(lambda P: P.v_flow), flow_type=AliasOf(lambda P: P.flow_type)).items()],
             returns=NoneT(), notes="caller view; the class bodies forward flow_type positionally to DesignBase.__init__")

contract(f"{D_}:DesignBase.__init__",
         dict(self=ObjOf(f"{D_}:DesignBase"), v_flow=Real, _borehole=ObjOf("x"), bhe_type=Int, fluid=ObjOf("x"), pipe=ObjOf("x"), grout=ObjOf("x"), soil=ObjOf("x"),
              sim_params=ObjOf("x"), geometric_constraints=ObjOf("x"), hourly_extraction_ground_loads=OpaqueOf("list"), method=Const(EnumVal("TimestepType", "HYBRID", 2)),
              flow_type=Int),
         ensures=[("keeps-flow-and-flow-type", lambda E: And(E.self.V_flow == E.v_flow, E.self.flow_type == E.flow_type))], returns=NoneT(), name=f"{D_}:DesignBase.__init__#body")
REG.contracts[f"{D_}:DesignBase.__init__#body"].applies = lambda env: False

contract(f"{D_}:DesignRowWise.__init__",
         dict(self=ObjOf(f"{D_}:DesignRowWise"), v_flow=Real, _borehole=ObjOf("x"), bhe_type=Int, fluid=ObjOf("x"), pipe=ObjOf("x"), grout=ObjOf("x"), soil=ObjOf("x"),
              sim_params=ObjOf("x"), geometric_constraints=ObjOf("x"), hourly_extraction_ground_loads=OpaqueOf("list"), method=Const(EnumVal("TimestepType", "HYBRID", 2)), flow_type=Int),
         ensures=[("keeps-flow-and-flow-type", lambda E: And(E.self.V_flow == E.v_flow, E.self.flow_type == E.flow_type))], returns=NoneT(), name=f"{D_}:DesignRowWise.__init__#body")
REG.contracts[f"{D_}:DesignRowWise.__init__#body"].applies = lambda env: False
# when DesignRowWise.__init__#body is verified, its super().__init__ call is DesignBase.__init__: give that a caller view too
contract(f"{D_}:DesignBase.__init__",
         dict(self=ObjOf(f"{D_}:DesignBase"), v_flow=Real, _borehole=ObjOf("x"), bhe_type=Int, fluid=ObjOf("x"), pipe=ObjOf("x"), grout=ObjOf("x"), soil=ObjOf("x"),
              sim_params=ObjOf("x"), geometric_constraints=ObjOf("x"), hourly_extraction_ground_loads=OpaqueOf("list"), method=OpaqueOf("enum"), flow_type=Int),
         assigns=[((lambda P, k=k: (P.self, k)), sh) for k, sh in dict(V_flow=AliasOf(lambda P: P.v_flow), flow_type=AliasOf(lambda P: P.flow_type)).items()],
         returns=NoneT(), name=f"{D_}:DesignBase.__init__#caller").applies = lambda env: True


def _set_design_contract(geom, flow_str, flow_val, again=False):
    cls, gval = GEOMS[geom]
    # `again`: set_design called a second time - the manager already holds a design for the same constraints object, with whatever flow specification
    prev = dict(_design=ObjOf(f"{D_}:{cls}", V_flow=Real, flow_type=Int, geometric_constraints=ObjOf("gc"))) if again else dict(_design=NoneT())
    return contract(
        "ghedesigner.manager:GHEManager.set_design",
        dict(self=ObjOf("ghedesigner.manager:GHEManager", _geometric_constraints=ObjOf("gc", type=Const(EnumVal("DesignGeomType", geom, gval))),
                        _borehole=ObjOf("x"), pipe_type=Int, _fluid=ObjOf("x"), _pipe=ObjOf("x"), _grout=ObjOf("x"), _soil=ObjOf("x"),
                        _simulation_parameters=ObjOf("x"), _ground_loads=OpaqueOf("list"), **prev),
             flow_rate=Real, flow_type_str=Const(flow_str), throw=Const(True)),
        name=f"ghedesigner.manager:GHEManager.set_design#{geom}-{flow_str}" + ("-again" if again else ""),
        options=({"entry_aliases": [(lambda P: (P.self.fields["_design"], "geometric_constraints"), lambda P: P.self.fields["_geometric_constraints"])]} if again else {}),
        ensures=[("design-gets-the-requested-flow-specification", lambda E: And(E.self._design.flow_type == flow_val, E.self._design.V_flow == E.flow_rate)),
                 ("success", lambda E: E.result == 0)],
        assigns=writes("self._design"), returns=Int)


SET_DESIGN = []
for _g in GEOMS:
    for _fs, _fv in (("system", SYSTEM_FLOW), ("Borehole", BOREHOLE_FLOW)):
        SET_DESIGN.append(_set_design_contract(_g, _fs, _fv).name)
for _g, _fs, _fv in (("NEARSQUARE", "system", SYSTEM_FLOW), ("BIZONEDRECTANGLE", "Borehole", BOREHOLE_FLOW), ("ROWWISE", "system", SYSTEM_FLOW)):
    SET_DESIGN.append(_set_design_contract(_g, _fs, _fv, again=True).name)

