"""C13 - results are deterministic and independent of call history."""
from contracts import ctors, flow, gfunc, history, inputs  # noqa: F401
from props.common import *  # noqa: F401,F403

SIM = [f"{G}:BaseGHE._simulate_detailed", f"{G}:GHE.simulate#hybrid-body", f"{G}:GHE.simulate#hourly-body-fresh", f"{G}:GHE.simulate#hourly-body-after-another-simulation", f"{G}:GHE.simulate#hourly-body-array-loads"]
GF = "ghedesigner.gfunction"
FUNCTIONS = (SIM + [f"{G}:BaseGHE.grab_g_function#body", f"{G}:BaseGHE.compute_g_functions#body", f"{GF}:GFunction.borehole_radius_correction", f"{G}:BaseGHE.combine_sts_lts", f"{G}:GHE.size", f"{G}:GHE.size#hourly", f"{S}:Bisection1D.calculate_excess", f"{S}:Bisection1D.initialize_ghe", f"{S}:RowWiseModifiedBisectionSearch.initialize_ghe#body",
                    f"{S}:Bisection1D.__init__#search-nocap", f"{S}:Bisection1D.__init__#search-cap", f"{S}:Bisection1D.__init__#nosearch"]
             + [f"{M}:GHEManager.find_design#DesignNearSquare-nocap", f"{M}:GHEManager.find_design#DesignNearSquare-cap",
                f"{M}:GHEManager.find_design#DesignRectangle-nocap", f"{M}:GHEManager.find_design#DesignRectangle-cap"]
             + inputs.SETTERS + ctors.BOREHOLE + flow.SET_DESIGN)
NATIVE_FUNCTIONS = [f"{M}:GHEManager.find_design", f"{G}:GHE.simulate", f"{GF}:GFunction.g_function_interpolation"]
NATIVE_CASES = {"quick": 3, "thorough": 60}
NATIVE_CASES_BY_FUNCTION = {f"{GF}:GFunction.g_function_interpolation": {"quick": 60, "thorough": 3000}}
NATIVE_LIMIT_S = {"quick": 150, "thorough": 3000}
CASE_TIMEOUT = 400
LEVEL = "other"


MODULE_STATE_SCOPE = "package"  # the design pipeline runs through every module: the no-module-level-state scan covers the whole package


def lemmas():
    return history.LEMMAS


ASSUMPTIONS = [A_REAL, A_ENGINE, A_DET + " - 'bit-identical' is equality of the A-DET terms: the same library calls on the same arguments",
               A_ORACLE,
               "set_fluid and set_geometry_constraints_bi_rectangle_constrained are not under a discharged contract (external base classes); set_borehole is verified down to the ASSUMED contract of pygfunction's Borehole.__init__; "
               "their slot discipline is exercised by the bounded runs",
               "frames are proved for the parameter shapes of the sidecars (manager: all configuration slots; GHE: configuration + result fields); attributes the shapes do not mention are outside the statement"]
NOT_PROVED = ["the composition 'every sequence of API calls ending in the same configuration gives the same design' is a meta-level induction over the call sequence from the two lemmas and the "
              "per-function frames/postconditions; the bounded runs compare real histories bit for bit",
              "module-level or class-level state: a scan of every module of the package (evidence: module_state_scan) decides syntactically, by name, that no function of the package rebinds or mutates a module-level binding, "
              "a class attribute, a mutable default argument or an attribute of an imported module, and that nothing is memoised by decorator; a mutation through an alias of a module-level object is "
              "not seen by that scan; where the scan finds such state the module is outside the verifier's subset (NO-VERDICT, exit 2, never a VIOLATION by itself: a memo keyed by everything the result depends on is harmless) (bounded runs: a sibling design differing in one thermal property is compared with the same design computed by a fresh interpreter)",
              "GFunction.g_function_interpolation builds its interpolation table on the first query and reuses it (body out of reach): bounded runs compare every ordered pair of queries "
              "between / below / above the stored heights on a used object with the same query on a fresh object (found D19: in-range first, then out-of-range raised ValueError; repaired)"]
EXPLANATION = ("Every function between the API and the temperatures is under a contract whose postcondition gives the result as a function of the *configuration* fields only, for arbitrary "
               "values of the residue fields, and whose frame (obligation frame/only-declared-locations-change, proved for every normal exit) names the only locations it writes: "
               "GHE.simulate (hybrid, hourly on a fresh object, hourly after another simulation: same postcondition; writes times/loading/hp_eft/dTb/bhe_eq only; the borehole height is untouched), "
               "GHE.size, Bisection1D.calculate_excess/initialize_ghe (each evaluation builds a new GHE with an explicit height, so the incoming borehole height - a symbolic, unconstrained field of the "
               "shape - cannot influence the result), the search constructors, GHEManager.find_design (writes _search, _search_time and the nominal height of the design's borehole; the result is "
               "stated through the oracle EX(field, h) only), and the manager's setters (each writes its own slot with values determined by its arguments; set_design writes _design only). "
               "Two lemmas compose these: writes to different slots commute and are idempotent; a result given as a function of the configuration is equal across pre-states that agree on it. "
               "On the pinned tree the hourly simulation read self.times left by an earlier simulation (D8, fixed).")
LEVEL_TEXT = ("Proof of per-function non-interference (postcondition over configuration only + checked frame) and of the two composition lemmas; whole-history equality of real runs is a bounded "
              "run-time contract (repeat, re-set, unrelated design first, permuted setters, other nominal heights; simulate sequences) - hence level 'other'.")
LEVEL_NOTE = "Trusted: pyvc, z3, A-DET, A-REAL. Bounded: real GHEManager / GHE histories compared bit for bit (never counted as proved)."
