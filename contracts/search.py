"""Contracts for ghedesigner/search_routines.py (C01, C02, C05, C12, C20)."""
import z3

from contracts.ghe import OBJ
from pyvc.api import *
from pyvc.run import native

S = "ghedesigner.search_routines"
Field = OpaqueOf("field", id=Int, len=Int)
Str = OpaqueOf("str")

# EX(field id, height): excess temperature of simulating that field built and simulated at that height
# (hybrid loads built at the same height) -- the oracle interface the property quantifies over.
EX = z3.Function("EX", z3.IntSort(), z3.RealSort(), z3.RealSort())
R0 = z3.Int("R0")  # ghost: right end of the search window (last index whose count is below the cap)


def SimP(cap):
    return ObjOf("ghedesigner.simulation:SimulationParameters", max_height=Real, min_height=Real, max_boreholes=cap,
                 continue_if_design_unmet=Bool, max_EFT_allowable=Real, min_EFT_allowable=Real, start_month=Int, end_month=Int)


def Fluid():
    return ObjOf("fluid", rho=Real, cp=Real, mu=Real, k=Real)


def Borehole():
    return ObjOf("ghedesigner.borehole:GHEBorehole", H=Real, D=Real, r_b=Real)


def BHE(borehole=None, fluid=None):
    return ObjOf("bhe", b=borehole or Borehole(), fluid=fluid or Fluid(), pipe=ObjOf("pipe"), grout=ObjOf("grout"), soil=ObjOf("soil"),
                 m_flow_borehole=Real)


def GFo(loc=None):
    return ObjOf("ghedesigner.gfunction:GFunction", bore_locations=loc or Field, g_key=Int)


def GHEs(sim=None, borehole=None, fluid=None):
    """A GHE object as the search classes see it.  Ghost fields: g_field (field id it was built for), g_H0 (height it was
    built at, i.e. the height the hybrid loads were computed for), g_cfg (configuration id, everything but the height),
    g_Hsim (height of the last simulate)."""
    return ObjOf("ghedesigner.ground_heat_exchangers:GHE", g_field=Int, g_H0=Real, g_cfg=Int, g_Hsim=Real,
                 sim_params=sim or SimP(NoneT()), bhe=BHE(borehole, fluid), V_flow_system=Real, m_flow_borehole=Real, nbh=Int,
                 gFunction=GFo(), B_spacing=Real)


def _alias_sim(P):
    return P.self.fields["sim_params"]


def GHEfresh():
    """frame shape of `self.ghe = GHE(...)`: a new object that shares the search object's sim_params, borehole and fluid"""
    return GHEs(sim=AliasOf(_alias_sim),
                borehole=AliasOf(lambda P: P.self.fields["ghe"].fields["bhe"].fields["b"]),
                fluid=AliasOf(lambda P: P.self.fields["ghe"].fields["bhe"].fields["fluid"]))


Row = FixedList([Str, Real, Real, Real])


def B1(cap, calc=None):
    sim = SimP(cap)
    return ObjOf(f"{S}:Bisection1D", coordinates_domain=ListOf(Field, minlen=1), fieldDescriptors=ListOf(Str), sim_params=sim,
                 calculated_temperatures=calc or EmptyMap(), max_iter=Const(15), disp=Const(False), ghe=GHEs(),
                 searchTracker=ListOf(Row), V_flow=Real, flow_type=Int, bhe_type=Int, log_time=OpaqueOf("list"),
                 hourly_extraction_ground_loads=OpaqueOf("list"), field_type=Str, load_years=OpaqueOf("list"), method=Int)


# ---- flow specification (C20) ------------------------------------------------------------------------------
BOREHOLE_FLOW, SYSTEM_FLOW = 1, 2  # FlowConfigType member values (enum auto(): declaration order)


def flow_spec(flow_type, V, n, rho):
    """(system volume flow [L/s], per-borehole mass flow [kg/s]) for n boreholes"""
    nr = ToReal(n)
    return (If(flow_type == BOREHOLE_FLOW, V * nr, V), If(flow_type == BOREHOLE_FLOW, V / 1000 * rho, V / nr / 1000 * rho))


for _cls in ("Bisection1D", "RowWiseModifiedBisectionSearch"):
    contract(f"{S}:{_cls}.retrieve_flow",
             dict(self=ObjOf(f"{S}:{_cls}", V_flow=Real, flow_type=Int), coordinates=Field, rho=Real),
             requires=[("at-least-one-borehole", lambda E: E.coordinates.len >= 1)],
             raises={"ValueError": lambda E: And(E.self.flow_type != BOREHOLE_FLOW, E.self.flow_type != SYSTEM_FLOW)},
             ensures=[("system-flow", lambda E: E.result[0] == flow_spec(E.self.flow_type, E.self.V_flow, E.coordinates.len, E.rho)[0]),
                      ("per-borehole-mass-flow", lambda E: E.result[1] == flow_spec(E.self.flow_type, E.self.V_flow, E.coordinates.len, E.rho)[1]),
                      ("known-flow-type", lambda E: Or(E.self.flow_type == BOREHOLE_FLOW, E.self.flow_type == SYSTEM_FLOW))],
             returns=TupleOf(Real, Real))

# ---- external / abstract callees of initialize_ghe -----------------------------------------------------------
GFK = z3.Function("GFK", z3.RealSort(), z3.RealSort(), z3.RealSort(), z3.RealSort(), z3.RealSort(), z3.IntSort(), z3.IntSort())
GHECFG = z3.Function("GHECFG", z3.IntSort(), z3.RealSort(), z3.RealSort(), z3.RealSort(), z3.IntSort())
SPACING = z3.Function("SPACING", z3.IntSort(), z3.RealSort(), z3.RealSort())

contract("ghedesigner.utilities:borehole_spacing", dict(borehole=Borehole(), coordinates=Field), name="ghedesigner.utilities:borehole_spacing#field",
         ensures=[("deterministic", lambda E: E.result == SPACING(E.coordinates.id, E.borehole.r_b))], returns=Real,
         notes="caller view over an opaque field; the list view is verified in contracts/utilities.py").applies = lambda env: True

contract("ghedesigner.utilities:eskilson_log_times", dict(), inline=True)

def _n_heights(env):
    h = env.get("h_values")
    try:
        n = h.length()
        return n if isinstance(n, int) else None
    except Exception:  # noqa: BLE001
        return None


# calc_g_func_for_multiple_lengths with a single height [H]: A-DET naming of the g-function by its arguments
contract("ghedesigner.gfunction:calc_g_func_for_multiple_lengths",
         dict(b=Real, h_values=FixedList([Real]), r_b=Real, depth=Real, m_flow_borehole=Real, bhe_type=Int, log_time=OpaqueOf("list"),
              coordinates=Field, fluid=Fluid(), pipe=ObjOf("pipe"), grout=ObjOf("grout"), soil=ObjOf("soil")),
         name="ghedesigner.gfunction:calc_g_func_for_multiple_lengths#single",
         ensures=[("same-field", lambda E: And(E.result.bore_locations.id == E.coordinates.id, E.result.bore_locations.len == E.coordinates.len)),
                  ("named-by-arguments", lambda E: E.result.g_key == GFK(E.b, E.h_values[0], E.r_b, E.depth, E.m_flow_borehole, E.coordinates.id))],
         returns=GFo(), notes="A-DET: pygfunction is a deterministic function of its arguments").applies = lambda env: _n_heights(env) == 1

# GHE(...) constructor, caller view (flow part verified on BaseGHE.__init__ in C20)
contract("ghedesigner.ground_heat_exchangers:GHE.__init__",
         dict(self=ObjOf("ghedesigner.ground_heat_exchangers:GHE"), v_flow_system=Real, b_spacing=Real, bhe_type=Int, fluid=Fluid(),
              borehole=Borehole(), pipe=ObjOf("pipe"), grout=ObjOf("grout"), soil=ObjOf("soil"), g_function=GFo(), sim_params=SimP(NoneT()),
              hourly_extraction_ground_loads=OpaqueOf("list")),
         requires=[("field-not-empty", lambda E: E.g_function.bore_locations.len >= 1)],
         assigns=[((lambda P, k=k: (P.self, k)), sh) for k, sh in dict(
             g_field=Int, g_H0=Real, g_cfg=Int, g_Hsim=Real, V_flow_system=Real, m_flow_borehole=Real, nbh=Int, B_spacing=Real,
             sim_params=AliasOf(lambda P: P.sim_params), gFunction=AliasOf(lambda P: P.g_function),
             bhe=ObjOf("bhe", b=AliasOf(lambda P: P.borehole), fluid=AliasOf(lambda P: P.fluid), pipe=AliasOf(lambda P: P.pipe),
                       grout=AliasOf(lambda P: P.grout), soil=AliasOf(lambda P: P.soil), m_flow_borehole=Real)).items()],
         ensures=[("configuration", lambda E: And(E.self.g_field == E.g_function.bore_locations.id, E.self.g_H0 == E.borehole.H,
                                                   E.self.g_cfg == GHECFG(E.g_function.g_key, E.v_flow_system, E.b_spacing, E.borehole.H))),
                  ("flow", lambda E: And(E.self.V_flow_system == E.v_flow_system, E.self.nbh == E.g_function.bore_locations.len,
                                         E.self.B_spacing == E.b_spacing,
                                         E.self.m_flow_borehole == E.v_flow_system / ToReal(E.g_function.bore_locations.len) / 1000 * E.fluid.rho,
                                         E.self.bhe.m_flow_borehole == E.self.m_flow_borehole))],
         returns=NoneT())


def CFG1(E, field, h):
    """configuration id of the GHE that initialize_ghe(field, h) builds (determined by the arguments it forwards)"""
    s = E.self
    rb, D = s.ghe.bhe.b.r_b, s.ghe.bhe.b.D
    vsys, mflow = flow_spec(s.flow_type, s.V_flow, field.len, s.ghe.bhe.fluid.rho)
    b = SPACING(field.id, rb)
    return GHECFG(GFK(b, h, rb, D, mflow, field.id), vsys, b, h)


# ---- callee contracts (what search() may assume about the oracle-facing methods) --------------------------

def _ghe_at(E, fid, h):
    g = E.self.ghe
    return And(g.g_field == fid, g.g_H0 == h, g.bhe.b.H == h)


def _init_body_clauses():
    return [
        ("height-set", lambda E: And(E.self.ghe.bhe.b.H == E.h, E.self.ghe.g_H0 == E.h, E.self.ghe.g_field == E.coordinates.id)),
        ("system-flow-forwarded", lambda E: E.self.ghe.V_flow_system == flow_spec(E.old.self.flow_type, E.old.self.V_flow, E.coordinates.len, E.old.self.ghe.bhe.fluid.rho)[0]),
        ("mass-flow-consistent", lambda E: E.self.ghe.m_flow_borehole == flow_spec(E.old.self.flow_type, E.old.self.V_flow, E.coordinates.len, E.old.self.ghe.bhe.fluid.rho)[1]),
        ("g-function-for-that-flow-and-height", lambda E: E.self.ghe.g_cfg == CFG1(E.old, E.coordinates, E.h)),
        ("borehole-count", lambda E: E.self.ghe.nbh == E.coordinates.len),
    ]


_ci = contract(f"{S}:Bisection1D.initialize_ghe",
               dict(self=B1(Int, IntMapOf(Real)), coordinates=Field, h=Real, field_specifier=Str),
               requires=[("at-least-one-borehole", lambda E: E.coordinates.len >= 1),
                         ("known-flow-type", lambda E: Or(E.self.flow_type == BOREHOLE_FLOW, E.self.flow_type == SYSTEM_FLOW))],
               ensures=_init_body_clauses(),
               ensures_caller=[("ghe-rebuilt", lambda E: _ghe_at(E, E.coordinates.id, E.h))] + _init_body_clauses()[1:],
               assigns=[(lambda P: (P.self, "ghe"), GHEfresh())],
               returns=NoneT())

_cc = contract(f"{S}:Bisection1D.calculate_excess",
               dict(self=B1(Int, IntMapOf(Real)), coordinates=Field, h=Real, field_specifier=Str),
               requires=[("at-least-one-borehole", lambda E: E.coordinates.len >= 1),
                         ("known-flow-type", lambda E: Or(E.self.flow_type == BOREHOLE_FLOW, E.self.flow_type == SYSTEM_FLOW))],
               ensures=[("excess-of-the-rebuilt-ghe", lambda E: E.result == OBJ(E.self.ghe.g_cfg, E.h)),
                        ("ghe-rebuilt", lambda E: And(_ghe_at(E, E.coordinates.id, E.h), E.self.ghe.g_cfg == CFG1(E.old, E.coordinates, E.h))),
                        ("log-row-appended", lambda E: And(E.self.searchTracker.len == E.old.self.searchTracker.len + 1,
                                                           row_ok(E, E.self.searchTracker[E.old.self.searchTracker.len]),
                                                           E.self.searchTracker[E.old.self.searchTracker.len][1] == E.result)),
                        ("log-prefix-kept", lambda E: forall(1, lambda j: Implies(And(0 <= j, j < E.old.self.searchTracker.len),
                                                                                   And(*[E.self.searchTracker[j][c] == E.old.self.searchTracker[j][c] for c in (1, 2, 3)]))))],
               ensures_caller=[("excess", lambda E: E.result == EX(E.coordinates.id, E.h)),
                               ("ghe-rebuilt", lambda E: _ghe_at(E, E.coordinates.id, E.h)),
                               ("log-rows-consistent", lambda E: Implies(rows_ok(E.old, E.old.self.searchTracker), rows_ok(E, E.self.searchTracker)))],
               assigns=[(lambda P: (P.self, "ghe"), GHEfresh()), (lambda P: (P.self, "searchTracker"), ListOf(Row))],
               returns=Real)


def row_ok(E, row):
    """C12: every search-log row satisfies excess = max(maxEFT - upper limit, lower limit - minEFT)"""
    a = row[2] - E.self.sim_params.max_EFT_allowable
    b = E.self.sim_params.min_EFT_allowable - row[3]
    return row[1] == If(a >= b, a, b)


def rows_ok(E, rows):
    if isinstance(rows.len, int) and rows.len == 0:
        return True
    return forall(1, lambda j: Implies(And(0 <= j, j < rows.len), row_ok(E, rows[j])))


# ---- Bisection1D.search --------------------------------------------------------------------------------

def _dom(E):
    return E.self.coordinates_domain


def fid(E, k):
    return _dom(E)[k].id


def cnt(E, k):
    return _dom(E)[k].len


def Hmax(E):
    return E.self.sim_params.max_height


def Hmin(E):
    return E.self.sim_params.min_height


def A(E):
    return EX(fid(E, 0), Hmin(E))


def B(E):
    return EX(fid(E, 0), Hmax(E))


def br(x, y):
    return Or(And(x < 0, y > 0), And(y < 0, x > 0))


def cont(E):
    return E.self.sim_params.continue_if_design_unmet


def has_sign(x, s):
    return If(s == 1, x > 0, x < 0)


def pow2_15_minus(i):
    out = IntVal(1)
    for k in range(14, -1, -1):
        out = If(i == k, IntVal(2 ** (15 - k)), out)
    return out


def distinct_excess(E):
    n = _dom(E).len
    return forall(2, lambda i, j: Implies(And(0 <= i, i < j, j < n), EX(fid(E, i), Hmax(E)) != EX(fid(E, j), Hmax(E))))


def strictly_increasing_counts(E):
    n = _dom(E).len
    return forall(2, lambda i, j: Implies(And(0 <= i, i < j, j < n), cnt(E, i) < cnt(E, j)))


def nondecreasing_counts(E):
    n = _dom(E).len
    return forall(2, lambda i, j: Implies(And(0 <= i, i <= j, j < n), cnt(E, i) <= cnt(E, j)))


def calc_facts(E, calc, l, r, s_l):
    """every evaluated key: in the window, value is the oracle value, left part has the left sign, right part the other"""
    return forall(1, lambda k: Implies(calc.has(k), And(0 <= k, k <= R0, calc[k] == EX(fid(E, k), Hmax(E)),
                                                       Or(And(k <= l, has_sign(calc[k], s_l)), And(k >= r, has_sign(calc[k], -s_l))))),
                  pats=lambda k: [calc.has(k)])


SEARCH_CLAUSES = {}


def _search_contract(variant, cap_shape, r0_def, extra_requires, extra_ensures, applies):
    def clauses(sel, r0):
        """ensures of search(); sel(E) = selected key, r0(E) = right end of the search window."""
        def M_(E):
            return EX(fid(E, r0(E)), Hmax(E))

        def unmet_(E):
            return And(Not(br(A(E), B(E))), Not(br(B(E), M_(E))))

        calc = lambda E: E.self.calculated_temperatures  # noqa: E731
        bisected = lambda E: And(Not(br(A(E), B(E))), br(B(E), M_(E)))  # noqa: E731
        return unmet_, [
            ("in-range", lambda E: And(0 <= sel(E), sel(E) <= r0(E), r0(E) < _dom(E).len, E.result[1].id == fid(E, sel(E)))),
            ("feasible", lambda E: Implies(Not(And(cont(E), unmet_(E))),
                                           Or(And(br(A(E), B(E)), sel(E) == 0), EX(fid(E, sel(E)), Hmax(E)) < 0))),
            ("ghe-is-selection", lambda E: And(E.self.ghe.g_field == fid(E, sel(E)),
                                               E.self.ghe.bhe.b.H == If(And(unmet_(E), A(E) < 0), Hmin(E), Hmax(E)),
                                               E.self.ghe.g_H0 == E.self.ghe.bhe.b.H,
                                               E.self.ghe.g_cfg == CFG1(E, _dom(E)[sel(E)], E.self.ghe.bhe.b.H))),
            ("policy-too-small-loads", lambda E: Implies(And(cont(E), unmet_(E), A(E) < 0), sel(E) == 0)),
            ("policy-too-large-loads", lambda E: Implies(And(cont(E), unmet_(E), A(E) > 0), sel(E) == r0(E))),
            ("min-count-among-evaluated-feasible",
             lambda E: Implies(And(bisected(E), distinct_excess(E)),
                               forall(1, lambda k: Implies(And(calc(E).has(k), calc(E)[k] < 0), cnt(E, sel(E)) <= cnt(E, k)),
                                      pats=lambda k: [calc(E).has(k)]))),
            ("evaluated-are-oracle-values",
             lambda E: forall(1, lambda k: Implies(calc(E).has(k), And(0 <= k, k <= r0(E), calc(E)[k] == EX(fid(E, k), Hmax(E)))),
                              pats=lambda k: [calc(E).has(k)])),
            ("selection-evaluated-feasible", lambda E: Implies(bisected(E), And(calc(E).has(sel(E)), calc(E)[sel(E)] < 0))),
            ("search-log-rows-consistent", lambda E: rows_ok(E, E.self.searchTracker)),
            ("predecessor-evaluated-and-fails",
             lambda E: Implies(And(bisected(E), B(E) > 0, distinct_excess(E), strictly_increasing_counts(E)),
                               And(calc(E).has(sel(E) - 1), calc(E)[sel(E) - 1] > 0))),
        ] + [(n, (lambda E, f=f: f(E, sel))) for n, f in extra_ensures]

    SEARCH_CLAUSES[variant] = (clauses, r0_def, extra_requires)
    unmet_v, ens_v = clauses(lambda E: E.result[0], lambda E: R0)
    unmet_c, ens_c = clauses(lambda E: E.result[0], lambda E: E.result[2])
    c = contract(
        f"{S}:Bisection1D.search", dict(self=B1(cap_shape)), name=f"{S}:Bisection1D.search#{variant}",
        requires=[
            ("descriptors-cover-domain", lambda E: E.self.fieldDescriptors.len >= _dom(E).len),
            ("domain-size", lambda E: _dom(E).len <= 32768),
            ("counts-positive", lambda E: forall(1, lambda k: Implies(And(0 <= k, k < _dom(E).len), cnt(E, k) >= 1))),
            ("non-degenerate-excess", lambda E: ForAll([z3.Int("f!"), z3.Real("h!")], EX(z3.Int("f!"), z3.Real("h!")) != 0)),
            ("fresh-table", lambda E: E.self.calculated_temperatures.n == 0),
            ("known-flow-type", lambda E: Or(E.self.flow_type == BOREHOLE_FLOW, E.self.flow_type == SYSTEM_FLOW)),
            ("log-consistent", lambda E: rows_ok(E, E.self.searchTracker)),
        ] + extra_requires,
        defs=[("R0", lambda E: r0_def(E, R0))],
        loops={
            0: LoopSpec(
                invariants=[
                    ("window", lambda E: And(0 <= E.x_l_idx, E.x_l_idx < E.x_r_idx, E.x_r_idx <= R0, E.i >= 0)),
                    ("ends-evaluated", lambda E: And(E.self.calculated_temperatures.has(E.x_l_idx), E.self.calculated_temperatures.has(E.x_r_idx),
                                                     E.self.calculated_temperatures.has(0), E.self.calculated_temperatures.has(R0))),
                    ("evaluated-keys", lambda E: calc_facts(E, E.self.calculated_temperatures, E.x_l_idx, E.x_r_idx, E.x_l_sign)),
                    ("budget", lambda E: E.i + (E.x_r_idx - E.x_l_idx) <= R0),
                    ("halving", lambda E: And(E.i <= 15, E.x_r_idx - E.x_l_idx <= pow2_15_minus(E.i))),
                    ("log-consistent", lambda E: rows_ok(E, E.self.searchTracker)),
                ],
                decreases=lambda E: E.x_r_idx - E.x_l_idx,
            ),
            1: LoopSpec(
                invariants=[
                    ("no-negative-before", lambda E: forall(1, lambda j: Implies(And(0 <= j, j < E._k1), E.sorted_values[j] >= 0))),
                    ("choice-unchanged", lambda E: E.excess_of_interest == E.pre.excess_of_interest),
                ],
            ),
        },
        raises={"ValueError": lambda E: And(Not(cont(E)), unmet_v(E))},
        exc_ensures={"ValueError": [("search-log-rows-consistent", lambda E: rows_ok(E, E.self.searchTracker))]},
        ensures=ens_v,
        ensures_caller=ens_c + [("window-end", lambda E: r0_def(E, E.result[2]))],
        assigns=[(lambda P: (P.self, "ghe"), GHEfresh()), (lambda P: (P.self, "searchTracker"), ListOf(Row)),
                 (lambda P: (P.self, "calculated_temperatures"), IntMapOf(Real))],
        returns=TupleOf(Int, Field, Int),
    )
    c.ghost_results = 1
    c.applies = applies
    # on the raising path (callers with try/except): the search found no design and the flag is off
    c.raises_caller = {"ValueError": lambda E: And(Not(cont(E)), unmet_c(E), r0_def(E, E.result[2]))}
    return c


_search_contract(
    "nocap", NoneT(),
    lambda E, r0: r0 == _dom(E).len - 1, [], [],
    applies=lambda env: env["self"].fields["sim_params"].fields["max_boreholes"] is None)

_search_contract(
    "cap", Int,
    lambda E, r0: And(0 <= r0, r0 < _dom(E).len, cnt(E, r0) < E.self.sim_params.max_boreholes,
                      forall(1, lambda k: Implies(And(r0 < k, k < _dom(E).len), cnt(E, k) >= E.self.sim_params.max_boreholes))),
    [("smallest-field-below-cap", lambda E: cnt(E, 0) < E.self.sim_params.max_boreholes)],
    [("cap", lambda E, sel: Implies(Or(nondecreasing_counts(E), distinct_excess(E)), cnt(E, sel(E)) < E.self.sim_params.max_boreholes))],
    applies=lambda env: env["self"].fields["sim_params"].fields["max_boreholes"] is not None)


# ---- run-time form: the real search() on an object whose oracle methods are table-driven --------------------
HMIN, HMAX = 60.0, 135.0


def make_b1(counts, ex_max, ex_min0, cap, cont_flag, cls=None):
    """Bisection1D instance (no __init__) with coordinates of the given counts and a stubbed oracle."""
    from ghedesigner.search_routines import Bisection1D
    from ghedesigner.simulation import SimulationParameters

    b = object.__new__(cls or Bisection1D)
    b.coordinates_domain = [[(float(k), float(i)) for i in range(c)] for k, c in enumerate(counts)]
    b.fieldDescriptors = [f"f{k}" for k in range(len(counts))]
    b.sim_params = SimulationParameters(1, 12, 35.0, 5.0, HMAX, HMIN, max_boreholes=cap, continue_if_design_unmet=cont_flag)
    b.calculated_temperatures = {}
    b.max_iter = 15
    b.disp = False
    b.searchTracker = []
    b.ghe = None
    b.log = []
    b.state = None

    def index_of(coords):
        for k, c in enumerate(b.coordinates_domain):
            if c is coords:
                return k
        raise AssertionError("search passed a coordinate list that is not an element of the domain")

    def ex_table(k, h):
        if h == HMAX:
            return ex_max[k]
        if h == HMIN and k == 0:
            return ex_min0
        raise AssertionError(f"unexpected oracle query ({k}, {h})")

    def calculate_excess(coords, h, field_specifier="N/A"):
        k = index_of(coords)
        b.log.append((k, h))
        b.state = (k, h)
        t = ex_table(k, h)
        b.searchTracker.append([field_specifier, t, 0.0, 0.0])
        return t

    def initialize_ghe(coords, h, field_specifier="N/A"):
        b.state = (index_of(coords), h)

    b.calculate_excess = calculate_excess
    b.initialize_ghe = initialize_ghe
    return b


def search_expectations(counts, ex_max, ex_min0, cap, cont_flag, outcome, b):
    """The contract of Bisection1D.search evaluated on concrete data.  outcome = ('ok', key, coords) | ('raise', cls)"""
    n = len(counts)
    r0 = n - 1 if cap is None else max(k for k in range(n) if counts[k] < cap)
    a_, b_, m_ = ex_min0, ex_max[0], ex_max[r0]
    brk = lambda x, y: (x < 0 < y) or (y < 0 < x)  # noqa: E731
    unmet_ = (not brk(a_, b_)) and (not brk(b_, m_))
    if outcome[0] == "raise":
        if outcome[1] != "ValueError":
            return False, f"raised {outcome[1]}"
        return ((not cont_flag) and unmet_), "ValueError raised although a design exists or continue_if_design_unmet is set"
    _, sel, coords = outcome
    if not (0 <= sel <= r0 and coords is b.coordinates_domain[sel]):
        return False, "selection out of range / coordinates are not the selected candidate"
    if unmet_ and not cont_flag:
        return False, "no candidate meets the limits and continue flag is off, yet a design was returned"
    escape = cont_flag and unmet_
    if not escape and not ((brk(a_, b_) and sel == 0) or ex_max[sel] < 0):
        return False, f"selected candidate {sel} is infeasible at max height (excess {ex_max[sel]})"
    want_h = HMIN if (unmet_ and a_ < 0) else HMAX
    if b.state != (sel, want_h):
        return False, f"ghe left at {b.state}, expected {(sel, want_h)}"
    if escape and a_ < 0 and sel != 0:
        return False, "loads too small: smallest candidate expected"
    if escape and a_ > 0 and sel != r0:
        return False, "loads too large: largest allowed candidate expected"
    if cap is not None and not counts[sel] < cap:
        return False, f"selected field has {counts[sel]} boreholes, cap {cap}"
    bisected = (not brk(a_, b_)) and brk(b_, m_)
    if bisected:
        calc = b.calculated_temperatures
        for k, v in calc.items():
            if not (0 <= k <= r0 and v == ex_max[k]):
                return False, "calculated_temperatures holds a value that is not the oracle value"
            if v < 0 and counts[sel] > counts[k]:
                return False, f"evaluated feasible candidate {k} ({counts[k]} boreholes) is smaller than the selected {sel} ({counts[sel]})"
        strictly = all(counts[i] < counts[i + 1] for i in range(n - 1))
        if b_ > 0 and strictly and not (sel - 1 in calc and calc[sel - 1] > 0 and calc.get(sel, 1) < 0):
            return False, f"predecessor of the selected candidate {sel} was not evaluated or does not fail"
    return True, ""


def _search_check(args):
    counts, ex_max, ex_min0 = args["counts"], args["ex_max"], args["ex_min0"]
    cap, cont_flag = args.get("cap"), args.get("cont", False)
    b = make_b1(counts, ex_max, ex_min0, cap, cont_flag)
    try:
        key, coords = b.search()
        outcome = ("ok", key, coords)
    except Exception as e:  # the contract decides which exceptions are allowed
        outcome = ("raise", type(e).__name__)
    ok, why = search_expectations(counts, ex_max, ex_min0, cap, cont_flag, outcome, b)
    return ok, {"why": why, "outcome": [outcome[0], outcome[1] if len(outcome) > 1 else None], "log": b.log[:40]}


def distinct_values(rng, n, signs):
    """n distinct non-zero magnitudes with the given signs"""
    mags = rng.sample(range(1, 10 * n + 10), n)
    return [s * m / 7.0 for s, m in zip(signs, mags)]


def _search_gen(rng):
    n = rng.choice([1, 2, 3, 4, 5, 7, 8, 9, 16, 17, 33, 64])
    mode = rng.random()
    if mode < 0.5:  # monotone excess: threshold position t (first feasible index), all positions incl. none
        t = rng.randint(0, n)
        signs = [1] * t + [-1] * (n - t)
    else:
        signs = [rng.choice([-1, 1]) for _ in range(n)]
    ex_max = distinct_values(rng, n, signs)
    if rng.random() < 0.5:
        counts = list(range(1, n + 1)) if rng.random() < 0.5 else [1] + sorted(rng.sample(range(2, 4 * n + 3), n - 1))
    else:
        counts = [1] + [rng.randint(2, 3 * n + 2) for _ in range(n - 1)]
    cap = None
    if rng.random() < 0.4:
        cap = rng.randint(2, max(counts) + 2)
    ex_min0 = rng.choice([-1, 1]) * rng.uniform(0.1, 9.0)
    if ex_max[0] < 0 and rng.random() < 0.7:
        ex_min0 = -abs(ex_min0) if rng.random() < 0.5 else abs(ex_min0)
    return {"counts": counts, "ex_max": ex_max, "ex_min0": ex_min0, "cap": cap, "cont": rng.random() < 0.5}


def _search_from_model(inp):
    ev = inp["__eval__"]
    sym = inp["__sym__"]
    dom = sym["self"].fields["coordinates_domain"]
    n = int(ev(to_z3(dom.length())))
    n = max(1, min(n, 64))
    sp = sym["self"].fields["sim_params"].fields
    hmax, hmin = to_real(sp["max_height"]), to_real(sp["min_height"])
    counts, ex_max = [], []
    for k in range(n):
        f = dom.get(z3.IntVal(k))
        counts.append(max(1, int(ev(f.attrs["len"]))))
        ex_max.append(float(ev(EX(f.attrs["id"], hmax))))
    ex_min0 = float(ev(EX(dom.get(z3.IntVal(0)).attrs["id"], hmin)))
    cap = sp["max_boreholes"]
    cap = None if cap is None else int(ev(cap))
    return {"counts": counts, "ex_max": ex_max, "ex_min0": ex_min0, "cap": cap, "cont": bool(ev(sp["continue_if_design_unmet"]))}


for _v in ("nocap", "cap"):
    native(f"{S}:Bisection1D.search#{_v}", _search_check, _search_gen, _search_from_model,
           bound="oracle-stubbed real search(): list lengths 1..64, monotone thresholds at every position and random sign patterns, distinct non-zero excess values, monotone and non-monotone counts, caps, both policies")


# ---- Bisection1D.__init__ ---------------------------------------------------------------------------------
def _ctor_frame(searched):
    fields = dict(
        load_years=OpaqueOf("list"), searchTracker=(ListOf(Row) if searched else FixedList([])), field_type=Str, V_flow=AliasOf(lambda P: P.v_flow),
        flow_type=AliasOf(lambda P: P.flow_type), method=AliasOf(lambda P: P.method), log_time=OpaqueOf("list"),
        bhe_type=AliasOf(lambda P: P.bhe_type), sim_params=AliasOf(lambda P: P.sim_params),
        hourly_extraction_ground_loads=AliasOf(lambda P: P.hourly_extraction_ground_loads),
        coordinates_domain=AliasOf(lambda P: P.coordinates_domain), fieldDescriptors=AliasOf(lambda P: P.field_descriptors),
        max_iter=Const(15), disp=Const(False), calculated_temperatures=(IntMapOf(Real) if searched else EmptyMap()),
        ghe=GHEs(sim=AliasOf(lambda P: P.sim_params), borehole=AliasOf(lambda P: P.borehole), fluid=AliasOf(lambda P: P.fluid)))
    if searched:
        fields.update(selection_key=Int, selected_coordinates=Field)
    return [((lambda P, k=k: (P.self, k)), sh) for k, sh in fields.items()]


class _View:
    """present constructor-time names (self.coordinates_domain, ...) to the clause builders of search()"""


def _init_params(cap_shape, search_flag):
    return dict(self=ObjOf(f"{S}:Bisection1D"), coordinates_domain=ListOf(Field, minlen=1), field_descriptors=ListOf(Str), v_flow=Real,
                borehole=Borehole(), bhe_type=Int, fluid=Fluid(), pipe=ObjOf("pipe"), grout=ObjOf("grout"), soil=ObjOf("soil"),
                sim_params=SimP(cap_shape), hourly_extraction_ground_loads=OpaqueOf("list"), method=Int, flow_type=Int,
                search=Const(search_flag))


def _init_requires(variant):
    _, _, extra = SEARCH_CLAUSES[variant]
    dom = lambda E: E.coordinates_domain  # noqa: E731
    reqs = [
        ("descriptors-aligned", lambda E: E.field_descriptors.len == dom(E).len),
        ("domain-size", lambda E: dom(E).len <= 32768),
        ("counts-positive", lambda E: forall(1, lambda k: Implies(And(0 <= k, k < dom(E).len), dom(E)[k].len >= 1))),
        ("non-degenerate-excess", lambda E: ForAll([z3.Int("f!"), z3.Real("h!")], EX(z3.Int("f!"), z3.Real("h!")) != 0)),
        ("known-flow-type", lambda E: Or(E.flow_type == BOREHOLE_FLOW, E.flow_type == SYSTEM_FLOW)),
    ]
    if variant == "cap":
        reqs.append(("smallest-field-below-cap", lambda E: dom(E)[0].len < E.sim_params.max_boreholes))
    return reqs


def _init_contract(variant, cap_shape):
    clauses, r0_def, _ = SEARCH_CLAUSES[variant]

    class _R:  # result view (selection_key, selected_coordinates, ghost r0) built from the object's fields
        pass

    def as_search_env(E):
        """the postcondition of search() read on the constructed object"""
        class V:
            pass

        v = V()
        v.self = E.self
        v.result = (E.self.selection_key, E.self.selected_coordinates, R0)
        v.old = None
        return v

    unmet_, ens = clauses(lambda V: V.result[0], lambda V: R0)
    c = contract(
        f"{S}:Bisection1D.__init__", _init_params(cap_shape, True), name=f"{S}:Bisection1D.__init__#search-{variant}",
        requires=_init_requires(variant),
        defs=[("R0", lambda E: r0_def(_dom_view(E), R0))],
        options={"empty_dict_is_intmap": True},
        raises={"ValueError": lambda E: And(Not(E.sim_params.continue_if_design_unmet), unmet_(_dom_view(E)))},
        ensures=[("fields", lambda E: And(E.self.max_iter == 15, E.self.flow_type == E.flow_type, E.self.V_flow == E.v_flow))]
        + [(n, (lambda E, f=f: f(as_search_env(E)))) for n, f in ens],
        assigns=_ctor_frame(True),
        returns=NoneT(),
    )
    c.applies = lambda env: env.get("search") is True and (env["sim_params"].fields["max_boreholes"] is None) == (variant == "nocap")
    return c


def _dom_view(E):
    """environment in which `self.coordinates_domain` etc. are the constructor arguments (before they are stored)"""
    class V:
        pass

    class S_:
        pass

    v, s_ = V(), S_()
    s_.coordinates_domain = E.coordinates_domain
    s_.sim_params = E.sim_params
    s_.calculated_temperatures = None
    v.self = s_
    return v


_init_contract("nocap", NoneT())
_init_contract("cap", Int)

contract(f"{S}:Bisection1D.__init__", _init_params(Int, False), name=f"{S}:Bisection1D.__init__#nosearch",
         requires=[("descriptors-aligned", lambda E: E.field_descriptors.len == E.coordinates_domain.len),
                   ("counts-positive", lambda E: E.coordinates_domain[0].len >= 1),
                   ("known-flow-type", lambda E: Or(E.flow_type == BOREHOLE_FLOW, E.flow_type == SYSTEM_FLOW))],
         options={"empty_dict_is_intmap": True},
         assigns=_ctor_frame(False),
         ensures=[("fields", lambda E: And(E.self.max_iter == 15, E.self.flow_type == E.flow_type, E.self.V_flow == E.v_flow,
                                           E.self.searchTracker.len == 0, E.self.calculated_temperatures.n == 0)),
                  ("initial-ghe", lambda E: And(E.self.ghe.g_field == E.coordinates_domain[0].id, E.self.ghe.bhe.b.H == E.borehole.H))],
         returns=NoneT()).applies = lambda env: env.get("search") is False


# ---- Bisection2D.__init__ (bi-rectangle: outer search over the last field of every list, then inner search) ----
Nested = ListOf(ListOf(Field, minlen=1), minlen=1)
NestedStr = ListOf(ListOf(Str))


def _nested_requires(E, cap):
    nd, fd = E.coordinates_domain_nested, E.field_descriptors
    reqs = [
        ("descriptors-aligned", And(fd.len == nd.len, forall(1, lambda j: Implies(And(0 <= j, j < nd.len), fd[j].len == nd[j].len)))),
        # the outer search indexes field_descriptors[0] with positions of the OUTER domain (one entry per list plus one)
        ("outer-descriptors-long-enough", fd[0].len >= nd.len + 1),
        ("domain-sizes", And(nd.len + 1 <= 32768, forall(1, lambda j: Implies(And(0 <= j, j < nd.len), nd[j].len <= 32768)))),
        ("counts-positive", forall(2, lambda j, k: Implies(And(0 <= j, j < nd.len, 0 <= k, k < nd[j].len), nd[j][k].len >= 1))),
        ("non-degenerate-excess", ForAll([z3.Int("f!"), z3.Real("h!")], EX(z3.Int("f!"), z3.Real("h!")) != 0)),
        ("known-flow-type", Or(E.flow_type == BOREHOLE_FLOW, E.flow_type == SYSTEM_FLOW)),
    ]
    if cap:
        reqs.append(("smallest-fields-below-cap", forall(1, lambda j: Implies(And(0 <= j, j < nd.len), nd[j][0].len < E.sim_params.max_boreholes))))
    return reqs


def _b2d_contract(variant, cap_shape):
    clauses, r0_def, _ = SEARCH_CLAUSES[variant]
    params = dict(self=ObjOf(f"{S}:Bisection2D"), coordinates_domain_nested=Nested, field_descriptors=NestedStr, v_flow=Real,
                  borehole=Borehole(), bhe_type=Int, fluid=Fluid(), pipe=ObjOf("pipe"), grout=ObjOf("grout"), soil=ObjOf("soil"),
                  sim_params=SimP(cap_shape), hourly_extraction_ground_loads=OpaqueOf("list"), method=Int, flow_type=Int)
    names = [n for n, _ in _nested_requires(_Dummy(), variant == "cap")] if False else None

    def env_of(E):
        class V:
            pass

        v = V()
        v.self = E.self
        v.result = (E.self.selection_key, E.self.selected_coordinates, E._g_search_1)
        v.old = None
        return v

    unmet_, ens = clauses(lambda V: V.result[0], lambda V: V.result[2])
    nreq = len(_nested_requires_names(variant == "cap"))
    return contract(
        f"{S}:Bisection2D.__init__", params, name=f"{S}:Bisection2D.__init__#{variant}",
        requires=[(n, (lambda E, i=i: _nested_requires(E, variant == "cap")[i][1])) for i, n in enumerate(_nested_requires_names(variant == "cap"))],
        options={"empty_dict_is_intmap": True},
        loops={0: LoopSpec(invariants=[
            ("outer-domain", lambda E: And(E.outer_domain.len == E._k0 + 1,
                                           E.outer_domain[0].id == E.coordinates_domain_nested[0][0].id,
                                           E.outer_domain[0].len == E.coordinates_domain_nested[0][0].len,
                                           forall(1, lambda j: Implies(And(0 <= j, j < E._k0),
                                                                       And(E.outer_domain[j + 1].id == E.coordinates_domain_nested[j][E.coordinates_domain_nested[j].len - 1].id,
                                                                           E.outer_domain[j + 1].len == E.coordinates_domain_nested[j][E.coordinates_domain_nested[j].len - 1].len))))),
        ], shapes={"outer_domain": ListOf(Field, minlen=1)})},
        raises={"ValueError": None},
        ensures=[("inner-list-is-a-nested-list", lambda E: Or(E.self.coordinates_domain.len >= 1)),
                 ("stores-flow-specification", lambda E: And(E.self.flow_type == E.flow_type, E.self.V_flow == E.v_flow))]
        + [(n, (lambda E, f=f: f(env_of(E)))) for n, f in ens if n != "search-log-rows-consistent"]
        + [("window-end", lambda E: r0_def(env_of(E), E._g_search_1))],
        returns=NoneT(),
    )


def _nested_requires_names(cap):
    base = ["descriptors-aligned", "outer-descriptors-long-enough", "domain-sizes", "counts-positive", "non-degenerate-excess", "known-flow-type"]
    return base + (["smallest-fields-below-cap"] if cap else [])


class _Dummy:
    pass


_b2d_contract("nocap", NoneT())
_b2d_contract("cap", Int)


# ---- BisectionZD (bi-zoned and polygon-constrained): successive searches over the nested lists ---------------
from contracts.ghe import CFG3  # noqa: E402


def BZD(cap):
    base = B1(cap, IntMapOf(Real)).fields
    return ObjOf(f"{S}:BisectionZD", **{**base, "coordinates_domain_nested": Nested, "nested_fieldDescriptors": NestedStr,
                                        "calculated_temperatures_nested": EmptyMap(IntMapOf(Real)), "calculated_heights": EmptyMap(Real),
                                        "selection_key_outer": Int})


def fid2(E, j, k):
    return E.self.coordinates_domain_nested[j][k].id


def cnt2(E, j, k):
    return E.self.coordinates_domain_nested[j][k].len


def _zd_requires(variant):
    def nd(E):
        return E.self.coordinates_domain_nested

    reqs = [
        ("start-list", lambda E: And(0 <= E.self.selection_key_outer, E.self.selection_key_outer < nd(E).len)),
        ("descriptors-aligned", lambda E: And(E.self.nested_fieldDescriptors.len == nd(E).len,
                                              forall(1, lambda j: Implies(And(0 <= j, j < nd(E).len), E.self.nested_fieldDescriptors[j].len == nd(E)[j].len)))),
        ("domain-sizes", lambda E: forall(1, lambda j: Implies(And(0 <= j, j < nd(E).len), nd(E)[j].len <= 32768))),
        ("counts-positive", lambda E: forall(2, lambda j, k: Implies(And(0 <= j, j < nd(E).len, 0 <= k, k < nd(E)[j].len), nd(E)[j][k].len >= 1))),
        ("non-degenerate-excess", lambda E: And(ForAll([z3.Int("f!"), z3.Real("h!")], EX(z3.Int("f!"), z3.Real("h!")) != 0),
                                                ForAll([z3.Int("c!"), z3.Real("h!")], OBJ(z3.Int("c!"), z3.Real("h!")) != 0))),
        ("known-flow-type", lambda E: Or(E.self.flow_type == BOREHOLE_FLOW, E.self.flow_type == SYSTEM_FLOW)),
        ("height-window", lambda E: E.self.sim_params.min_height < E.self.sim_params.max_height),
        ("log-consistent", lambda E: rows_ok(E, E.self.searchTracker)),
        ("fresh-tables", lambda E: And(E.self.calculated_heights.n == 0, E.self.calculated_temperatures_nested.n == 0)),
    ]
    if variant == "cap":
        reqs.append(("smallest-fields-below-cap", lambda E: forall(1, lambda j: Implies(And(0 <= j, j < nd(E).len), nd(E)[j][0].len < E.self.sim_params.max_boreholes))))
    return reqs


def _visited_facts(E, heights, tn):
    """every list with a recorded total drilling has its evaluated table recorded; tables hold oracle values of that list"""
    nd = E.self.coordinates_domain_nested
    return And(
        forall(1, lambda j: Implies(heights.has(j), And(tn.has(j), 0 <= j, j < nd.len)), pats=lambda j: [heights.has(j)]),
        forall(2, lambda j, k: Implies(And(tn.has(j), tn[j].has(k)),
                                       And(0 <= j, j < nd.len, 0 <= k, k < nd[j].len, tn[j][k] == EX(fid2(E, j, k), Hmax(E)))),
               pats=lambda j, k: [tn[j].has(k)]),
    )


def _zd_clauses(o):
    return [
            ("chosen-list-visited", lambda E: And(E.self.calculated_heights.has(o(E)), 0 <= o(E), o(E) < E.self.coordinates_domain_nested.len)),
            ("least-total-drilling-among-visited-lists",
             lambda E: forall(1, lambda j: Implies(E.self.calculated_heights.has(j), E.self.calculated_heights[o(E)] <= E.self.calculated_heights[j]),
                              pats=lambda j: [E.self.calculated_heights.has(j)])),
            ("selection-is-a-candidate-of-the-chosen-list",
             lambda E: And(0 <= E.result[0], E.result[0] < E.self.coordinates_domain_nested[o(E)].len, E.result[1].id == fid2(E, o(E), E.result[0]))),
            ("feasible", lambda E: EX(E.result[1].id, Hmax(E)) < 0),
            ("min-count-among-evaluated-feasible-of-chosen-list",
             lambda E: Implies(forall(2, lambda a, b: Implies(And(0 <= a, a < b, b < E.self.coordinates_domain_nested[o(E)].len),
                                                               EX(fid2(E, o(E), a), Hmax(E)) != EX(fid2(E, o(E), b), Hmax(E)))),
                               forall(1, lambda k: Implies(And(E.self.calculated_temperatures.has(k), E.self.calculated_temperatures[k] < 0),
                                                           E.result[1].len <= cnt2(E, o(E), k)),
                                      pats=lambda k: [E.self.calculated_temperatures.has(k)]))),
            ("sized-ghe-of-the-selection",
             lambda E: And(E.self.ghe.g_field == E.result[1].id, E.self.ghe.g_H0 == Hmax(E),
                           Hmin(E) <= E.self.ghe.bhe.b.H, E.self.ghe.bhe.b.H <= Hmax(E))),
            ("search-log-rows-consistent", lambda E: rows_ok(E, E.self.searchTracker)),
    ]


def _zd_contract(variant, cap_shape):
    c = contract(
        f"{S}:BisectionZD.search_successive", dict(self=BZD(cap_shape), max_iter=NoneT()), name=f"{S}:BisectionZD.search_successive#{variant}",
        requires=_zd_requires(variant),
        options={"empty_dict_is_intmap": True, "abstract_mul": True},
        loops={0: LoopSpec(
            invariants=[
                ("position", lambda E: And(E.self.selection_key_outer <= E.i, E.i <= E.self.coordinates_domain_nested.len)),
                ("visited", lambda E: _visited_facts(E, E.self.calculated_heights, E.self.calculated_temperatures_nested)),
                ("visited-before-i", lambda E: forall(1, lambda j: Implies(E.self.calculated_heights.has(j), j < E.i), pats=lambda j: [E.self.calculated_heights.has(j)])),
                ("log-consistent", lambda E: rows_ok(E, E.self.searchTracker)),
            ],
            shapes={"self.calculated_temperatures_nested": IntMapOf(IntMapOf(Real)), "self.calculated_heights": IntMapOf(Real),
                    "selection_key": Int, "selected_coordinates": Field},
        )},
        raises={"ValueError": None},
        ensures=_zd_clauses(lambda E: E.selection_key_outer),
        ensures_caller=_zd_clauses(lambda E: E.result[2]),
        assigns=[(lambda P: (P.self, "ghe"), GHEfresh()), (lambda P: (P.self, "searchTracker"), ListOf(Row)),
                 (lambda P: (P.self, "calculated_temperatures"), IntMapOf(Real)), (lambda P: (P.self, "coordinates_domain"), ListOf(Field, minlen=1)),
                 (lambda P: (P.self, "fieldDescriptors"), ListOf(Str)), (lambda P: (P.self, "calculated_heights"), IntMapOf(Real)),
                 (lambda P: (P.self, "calculated_temperatures_nested"), IntMapOf(IntMapOf(Real)))],
        returns=TupleOf(Int, Field, Int),
    )
    c.ghost_results = 1
    c.applies = lambda env: (env["self"].fields["sim_params"].fields["max_boreholes"] is None) == (variant == "nocap")
    return c


_zd_contract("nocap", NoneT())
_zd_contract("cap", Int)


# ---- run-time form of search_successive: real method, table-driven oracle and sizing -------------------------
def make_zd(lists, outer, cap=None, cont_flag=False):
    """lists: [{'counts': [...], 'ex_max': [...], 'ex_min0': x, 'size': [...]}]; size[k] = height the sizing returns for field k"""
    from ghedesigner.search_routines import BisectionZD
    from ghedesigner.simulation import SimulationParameters

    b = object.__new__(BisectionZD)
    b.coordinates_domain_nested = [[[(float(j), float(k), float(i)) for i in range(c)] for k, c in enumerate(L["counts"])] for j, L in enumerate(lists)]
    b.nested_fieldDescriptors = [[f"L{j}f{k}" for k in range(len(L["counts"]))] for j, L in enumerate(lists)]
    b.sim_params = SimulationParameters(1, 12, 35.0, 5.0, HMAX, HMIN, max_boreholes=cap, continue_if_design_unmet=cont_flag)
    b.calculated_temperatures = {}
    b.calculated_temperatures_nested = {}
    b.calculated_heights = {}
    b.selection_key_outer = outer
    b.max_iter = 15
    b.disp = False
    b.searchTracker = []
    b.log = []
    b.state = None

    def locate(coords):
        for j, L in enumerate(b.coordinates_domain_nested):
            for k, c in enumerate(L):
                if c is coords:
                    return j, k
        raise AssertionError("coordinates are not a candidate of any list")

    class _B:
        H = None

    class _Bhe:
        b = _B()

    class FakeGHE:
        def __init__(self, j, k, h):
            self.where, self.bhe = (j, k), _Bhe()
            self.bhe.b = _B()
            self.bhe.b.H = h
            self.sized = False

        def compute_g_functions(self):
            pass

        def size(self, method=None):
            j, k = self.where
            self.bhe.b.H = lists[j]["size"][k]
            self.sized = True

    def ex_table(j, k, h):
        if h == HMAX:
            return lists[j]["ex_max"][k]
        if h == HMIN and k == 0:
            return lists[j]["ex_min0"]
        raise AssertionError(f"unexpected oracle query {(j, k, h)}")

    def calculate_excess(coords, h, field_specifier="N/A"):
        j, k = locate(coords)
        b.log.append((j, k, h))
        b.ghe = FakeGHE(j, k, h)
        t = ex_table(j, k, h)
        b.searchTracker.append([field_specifier, t, 0.0, 0.0])
        return t

    def initialize_ghe(coords, h, field_specifier="N/A"):
        j, k = locate(coords)
        b.ghe = FakeGHE(j, k, h)

    b.calculate_excess = calculate_excess
    b.initialize_ghe = initialize_ghe
    return b


def _zd_check(args):
    lists, outer = args["lists"], args["outer"]
    b = make_zd(lists, outer, args.get("cap"), args.get("cont", False))
    try:
        key, coords = b.search_successive()
    except ValueError:
        return True, {"outcome": "ValueError"}
    except Exception as e:
        return False, {"why": f"raised {type(e).__name__}: {e}"}
    o = None
    for j, L in enumerate(b.coordinates_domain_nested):
        for k, c in enumerate(L):
            if c is coords:
                o = (j, k)
    if o is None or o[1] != key:
        return False, {"why": "returned coordinates are not the candidate with the returned key"}
    j0, k0 = o
    if not lists[j0]["ex_max"][k0] < 0:
        return False, {"why": f"returned candidate {o} is infeasible at max height"}
    if b.ghe.where != o or not b.ghe.sized or not HMIN <= b.ghe.bhe.b.H <= HMAX:
        return False, {"why": f"ghe left at {b.ghe.where} sized={b.ghe.sized} H={b.ghe.bhe.b.H}"}
    total = len(coords) * b.ghe.bhe.b.H
    # C05: the returned total drilling never exceeds count x max height of any candidate the search evaluated feasible
    for j, table in b.calculated_temperatures_nested.items():
        for k, v in table.items():
            if v != lists[j]["ex_max"][k]:
                return False, {"why": "recorded excess is not the oracle value"}
            if v < 0 and total > lists[j]["counts"][k] * HMAX + 1e-9:
                return False, {"why": f"returned {len(coords)} boreholes x {b.ghe.bhe.b.H} m = {total} m exceeds evaluated feasible candidate {(j, k)}: {lists[j]['counts'][k]} x {HMAX}",
                               "returned": list(o)}
            if j == j0 and v < 0 and len(coords) > lists[j]["counts"][k]:
                return False, {"why": f"evaluated feasible candidate {(j, k)} of the chosen list has fewer boreholes ({lists[j]['counts'][k]}) than the returned one ({len(coords)})",
                               "returned": list(o)}
    for j, h in b.calculated_heights.items():
        if b.calculated_heights[j0] > h:
            return False, {"why": "chosen list does not have the least total drilling among the visited lists"}
    return True, {}


def _zd_gen(rng):
    nl = rng.randint(1, 5)
    lists = []
    for _ in range(nl):
        n = rng.choice([2, 3, 5, 9, 12, 20])
        if rng.random() < 0.5:
            t = rng.randint(1, n - 1)
            signs = [1] * t + [-1] * (n - t)
        else:
            signs = [1] + [rng.choice([-1, 1]) for _ in range(n - 2)] + [-1]
        ex_max = distinct_values(rng, n, signs)
        counts = [1] + (sorted(rng.sample(range(2, 6 * n), n - 1)) if rng.random() < 0.5 else [rng.randint(2, 6 * n) for _ in range(n - 1)])
        size = [round(rng.uniform(HMIN, HMAX), 1) for _ in range(n)]
        lists.append({"counts": counts, "ex_max": ex_max, "ex_min0": abs(ex_max[0]) + 1.0, "size": size})
    return {"lists": lists, "outer": rng.randrange(nl)}


for _v in ("nocap", "cap"):
    native(f"{S}:BisectionZD.search_successive#{_v}", _zd_check, _zd_gen, None,
           bound="oracle-stubbed real search_successive(): 1..5 lists of 2..20 candidates, monotone and arbitrary sign patterns (first infeasible, last feasible), monotone and non-monotone counts, table-driven sizing")


def _bzd_init_contract(variant, cap_shape):
    params = dict(self=ObjOf(f"{S}:BisectionZD"), coordinates_domain_nested=Nested, field_descriptors=NestedStr, v_flow=Real,
                  borehole=Borehole(), bhe_type=Int, fluid=Fluid(), pipe=ObjOf("pipe"), grout=ObjOf("grout"), soil=ObjOf("soil"),
                  sim_params=SimP(cap_shape), hourly_extraction_ground_loads=OpaqueOf("list"), method=Int, flow_type=Int)

    def reqs(E):
        r = dict(_nested_requires(E, variant == "cap"))
        nd = E.coordinates_domain_nested
        r.pop("outer-descriptors-long-enough")
        r["descriptors-non-empty"] = forall(1, lambda j: Implies(And(0 <= j, j < nd.len), E.field_descriptors[j].len >= 1))
        r["non-degenerate-objective"] = ForAll([z3.Int("c!"), z3.Real("h!")], OBJ(z3.Int("c!"), z3.Real("h!")) != 0)
        r["height-window"] = E.sim_params.min_height < E.sim_params.max_height
        return r

    names = ["descriptors-aligned", "domain-sizes", "counts-positive", "non-degenerate-excess", "known-flow-type",
             "descriptors-non-empty", "non-degenerate-objective", "height-window"] + (["smallest-fields-below-cap"] if variant == "cap" else [])
    return contract(
        f"{S}:BisectionZD.__init__", params, name=f"{S}:BisectionZD.__init__#{variant}",
        requires=[(n, (lambda E, n=n: reqs(E)[n])) for n in names],
        options={"empty_dict_is_intmap": True},
        loops={0: LoopSpec(invariants=[
            ("outer-domain", lambda E: And(E.outer_domain.len == E._k0 + 1, E.outer_descriptors.len == E._k0 + 1,
                                           E.outer_domain[0].id == E.coordinates_domain_nested[0][0].id,
                                           E.outer_domain[0].len == E.coordinates_domain_nested[0][0].len,
                                           forall(1, lambda j: Implies(And(0 <= j, j < E._k0),
                                                                       And(E.outer_domain[j + 1].id == E.coordinates_domain_nested[j][E.coordinates_domain_nested[j].len - 1].id,
                                                                           E.outer_domain[j + 1].len == E.coordinates_domain_nested[j][E.coordinates_domain_nested[j].len - 1].len))))),
        ], shapes={"outer_domain": ListOf(Field, minlen=1), "outer_descriptors": ListOf(Str, minlen=1)})},
        raises={"ValueError": None},
        ensures=[("stores-flow-specification", lambda E: And(E.self.flow_type == E.flow_type, E.self.V_flow == E.v_flow)),
                 ("feasible", lambda E: EX(E.self.selected_coordinates.id, E.sim_params.max_height) < 0),
                 ("sized-ghe-of-the-selection", lambda E: And(E.self.ghe.g_field == E.self.selected_coordinates.id, E.self.ghe.g_H0 == E.sim_params.max_height,
                                                              E.sim_params.min_height <= E.self.ghe.bhe.b.H, E.self.ghe.bhe.b.H <= E.sim_params.max_height)),
                 ("search-log-rows-consistent", lambda E: rows_ok(E, E.self.searchTracker))],
        returns=NoneT(),
    )


_bzd_init_contract("nocap", NoneT())
_bzd_init_contract("cap", Int)


# ---- Design*.find_design (construct the search object) and GHEManager.find_design ----------------------------
D = "ghedesigner.design"


def DesignObj(cls, cap_shape, domain_shape, descr_shape):
    return ObjOf(f"{D}:{cls}", V_flow=Real, borehole=Borehole(), bhe_type=Int, fluid=Fluid(), pipe=ObjOf("pipe"), grout=ObjOf("grout"),
                 soil=ObjOf("soil"), sim_params=SimP(cap_shape), hourly_extraction_ground_loads=OpaqueOf("list"), method=Int, flow_type=Int,
                 load_years=OpaqueOf("list"), coordinates_domain=domain_shape, fieldDescriptors=descr_shape,
                 coordinates_domain_nested=Nested, geometric_constraints=ObjOf("gc"))


def _as_init_env(E):
    """Design fields seen under the parameter names of Bisection1D.__init__"""
    class V:
        pass

    v = V()
    s = E.self
    v.coordinates_domain, v.field_descriptors, v.sim_params, v.flow_type = s.coordinates_domain, s.fieldDescriptors, s.sim_params, s.flow_type
    return v


def _design1d_contract(cls, variant, cap_shape):
    clauses, r0_def, _ = SEARCH_CLAUSES[variant]

    def senv(E):
        class V:
            pass

        v = V()
        v.self = E.result
        v.result = (E.result.selection_key, E.result.selected_coordinates, R0)
        v.old = None
        return v

    unmet_, ens = clauses(lambda V: V.result[0], lambda V: R0)
    c = contract(
        f"{D}:{cls}.find_design", dict(self=DesignObj(cls, cap_shape, ListOf(Field, minlen=1), ListOf(Str))), name=f"{D}:{cls}.find_design#{variant}",
        requires=[(n, (lambda E, f=f: f(_as_init_env(E)))) for n, f in _init_requires(variant)],
        defs=[("R0", lambda E: r0_def(_dom_view(_as_init_env(E)), R0))],
        raises={"ValueError": lambda E: And(Not(E.self.sim_params.continue_if_design_unmet), unmet_(_dom_view(_as_init_env(E))))},
        ensures=[(n, (lambda E, f=f: f(senv(E)))) for n, f in ens]
        + [("searched-the-design-domain", lambda E: And(E.result.coordinates_domain.len == E.self.coordinates_domain.len,
                                                       E.result.sim_params.max_height == E.self.sim_params.max_height,
                                                       E.result.sim_params.min_height == E.self.sim_params.min_height))],
        returns=ObjOf(f"{S}:Bisection1D", coordinates_domain=AliasOf(lambda P: P.self.fields["coordinates_domain"]),
                      fieldDescriptors=AliasOf(lambda P: P.self.fields["fieldDescriptors"]), sim_params=AliasOf(lambda P: P.self.fields["sim_params"]),
                      ghe=GHEs(sim=AliasOf(lambda P: P.self.fields["sim_params"]), borehole=AliasOf(lambda P: P.self.fields["borehole"]),
                               fluid=AliasOf(lambda P: P.self.fields["fluid"])),
                      selection_key=Int, selected_coordinates=Field, calculated_temperatures=IntMapOf(Real), searchTracker=ListOf(Row),
                      V_flow=AliasOf(lambda P: P.self.fields["V_flow"]), flow_type=AliasOf(lambda P: P.self.fields["flow_type"]),
                      max_iter=Const(15), disp=Const(False)),
    )
    c.applies = lambda env: (env["self"].fields["sim_params"].fields["max_boreholes"] is None) == (variant == "nocap")
    return c


for _cls in ("DesignNearSquare", "DesignRectangle"):
    for _v, _cs in (("nocap", NoneT()), ("cap", Int)):
        _design1d_contract(_cls, _v, _cs)


M_ = "ghedesigner.manager"


def _manager_contract(cls, variant, cap_shape):
    from contracts.utilities import _near_sign_change

    clauses, r0_def, _ = SEARCH_CLAUSES[variant]
    design = DesignObj(cls, cap_shape, ListOf(Field, minlen=1), ListOf(Str))

    def denv(E):
        class V:
            pass

        v = V()
        v.self = E.self._design
        return v

    def ienv(E):
        return _as_init_env(denv(E))

    def dom(E):
        return E.self._design.coordinates_domain

    def sp(E):
        return E.self._design.sim_params

    def cfg1(E, field, h):
        d = E.self._design
        rb, Dp = d.borehole.r_b, d.borehole.D
        vsys, mflow = flow_spec(d.flow_type, d.V_flow, field.len, d.fluid.rho)
        b = SPACING(field.id, rb)
        return GHECFG(GFK(b, h, rb, Dp, mflow, field.id), vsys, b, h)

    def hyps(E):
        n = dom(E).len
        hmin, hmax = sp(E).min_height, sp(E).max_height
        return And(
            # DEF-EX: the abstract oracle EX(field, h) is the excess of the GHE that initialize_ghe(field, h) builds, simulated at h
            forall(1, lambda k: Implies(And(0 <= k, k < n), And(EX(dom(E)[k].id, hmax) == OBJ(cfg1(E, dom(E)[k], hmax), hmax),
                                                                EX(dom(E)[k].id, hmin) == OBJ(cfg1(E, dom(E)[k], hmin), hmin)))),
            # A-NODE: evaluating the three-height g-function family at a stored height gives the single-height result
            forall(1, lambda k: Implies(And(0 <= k, k < n), OBJ(CFG3(cfg1(E, dom(E)[k], hmax)), hmax) == OBJ(cfg1(E, dom(E)[k], hmax), hmax))),
            # A-HMONO: a configuration that is feasible at the minimum height is feasible at the maximum height
            ForAll([z3.Int("c!")], Implies(OBJ(z3.Int("c!"), hmin) < 0, OBJ(z3.Int("c!"), hmax) < 0)),
            forall(1, lambda k: Implies(And(0 <= k, k < n, EX(dom(E)[k].id, hmin) < 0), EX(dom(E)[k].id, hmax) < 0)),
        )

    unmet_, _ens = clauses(lambda V: V.result[0], lambda V: R0)

    def escape(E):
        return And(sp(E).continue_if_design_unmet, unmet_(_dom_view(ienv(E))))

    def g(E):
        return E.self._search.ghe

    tol = R("1/1000000")
    c = contract(
        f"{M_}:GHEManager.find_design",
        dict(self=ObjOf(f"{M_}:GHEManager", _fluid=ObjOf("x"), _grout=ObjOf("x"), _soil=ObjOf("x"), _pipe=ObjOf("x"), _borehole=ObjOf("x"),
                        _simulation_parameters=ObjOf("x"), _ground_loads=ListOf(Real, minlen=1), _geometric_constraints=ObjOf("x"), _design=design),
             throw=Const(True)),
        name=f"{M_}:GHEManager.find_design#{cls}-{variant}",
        requires=[(n, (lambda E, f=f: f(ienv(E)))) for n, f in _init_requires(variant)]
        + [("height-window", lambda E: sp(E).min_height < sp(E).max_height),
           ("non-degenerate-objective", lambda E: ForAll([z3.Int("c!"), z3.Real("h!")], OBJ(z3.Int("c!"), z3.Real("h!")) != 0))],
        defs=[("R0", lambda E: r0_def(_dom_view(ienv(E)), R0))],
        raises={"ValueError": lambda E: And(Not(sp(E).continue_if_design_unmet), unmet_(_dom_view(ienv(E))))},
        ensures=[
            ("height-within-bounds", lambda E: And(sp(E).min_height <= g(E).bhe.b.H, g(E).bhe.b.H <= sp(E).max_height)),
            ("returned-design-meets-limits",
             lambda E: Implies(And(Not(escape(E)), hyps(E)),
                               And(OBJ(g(E).g_cfg, sp(E).max_height) < 0,
                                   Implies(OBJ(g(E).g_cfg, sp(E).min_height) < 0, g(E).bhe.b.H == sp(E).min_height),
                                   Implies(OBJ(g(E).g_cfg, sp(E).min_height) > 0,
                                           _near_sign_change(lambda h: OBJ(g(E).g_cfg, h), g(E).bhe.b.H, sp(E).min_height, sp(E).max_height, tol, tol))))),
            ("policy-too-large-loads", lambda E: Implies(And(escape(E), A(_dom_view(ienv(E))) > 0, hyps(E), nondecreasing_counts(_dom_view(ienv(E)))),
                                                         And(E.self._search.selection_key == R0, g(E).bhe.b.H == sp(E).max_height))),
            ("policy-too-small-loads", lambda E: Implies(And(escape(E), A(_dom_view(ienv(E))) < 0), E.self._search.selection_key == 0)),
        ],
        returns=Int,
    )
    c.applies = lambda env: False  # never used at call sites
    return c


for _cls in ("DesignNearSquare", "DesignRectangle"):
    for _v, _cs in (("nocap", NoneT()), ("cap", Int)):
        _manager_contract(_cls, _v, _cs)


# ---- lemma: near a sign change + Lipschitz => within the sizing tolerance (C01 / C05 "root" clause) ------------
def lemma_root_within_tolerance():
    H, p, q, fH, fp, fq, L = z3.Reals("H p q fH fp fq L")
    tol = R("1/1000000")
    delta = 4 * (tol + tol * H)
    hyp = [H > 0, H <= 400, L == R("1/2"),
           p - H <= delta, H - p <= delta, q - H <= delta, H - q <= delta, fp <= 0, fq >= 0,
           # A-LIP on the bracket: |f(H) - f(x)| <= L |H - x|
           fH - fp <= L * delta, fp - fH <= L * delta, fH - fq <= L * delta, fq - fH <= L * delta]
    return hyp, And(fH <= R("1/1000"), fH >= -R("1/1000"))


LEMMAS = [("root-within-sizing-tolerance", lemma_root_within_tolerance)]


# ---- run-time form of RowWiseModifiedBisectionSearch.search: real method, stubbed field generator and oracle --------
def _rw_check(a):
    import ghedesigner.search_routines as sr
    from ghedesigner.simulation import SimulationParameters

    area, n_star, cont_flag, perimeter = a["area"], a["n_star"], a["cont"], a.get("perimeter")
    noise = a.get("noise", {})

    def field_for(spacing):
        n = max(1, int(area / (spacing * spacing)))
        side = max(1, int(n ** 0.5))
        return [[(i % side) * spacing, (i // side) * spacing] for i in range(n)], f"S{spacing:.4f}"

    def ex_of(n):
        base = (n_star - n) * 0.37 + (0.11 if n < n_star else -0.13)
        return base + noise.get(str(n), 0.0)

    saved = (sr.field_optimization_fr, sr.field_optimization_wp_space_fr, sr.gen_shape)
    sr.field_optimization_fr = lambda spacing, rs, pb, ng_zones=None, rotate_start=None, rotate_stop=None: field_for(spacing)
    sr.field_optimization_wp_space_fr = lambda p, spacing, rs, pb, ng_zones=None, rotate_start=None, rotate_stop=None: field_for(spacing)
    sr.gen_shape = lambda pb, ng: (pb, ng)
    try:
        b = object.__new__(sr.RowWiseModifiedBisectionSearch)

        class GC:
            min_spacing, max_spacing, spacing_step, rotate_step = a["smin"], a["smax"], a.get("step", 0.5), 15.0
            property_boundary, no_go_boundaries, min_rotation, max_rotation = [[0, 0]], [], -1.0, 1.0
            perimeter_spacing_ratio = perimeter

        b.geometricConstraints = GC()
        b.sim_params = SimulationParameters(1, 12, 35.0, 5.0, HMAX, HMIN, continue_if_design_unmet=cont_flag)
        b.max_iter, b.disp, b.searchTracker = 10, False, []
        b.advanced_tracking = [["TargetSpacing", "Field Specifier", "nbh", "ExcessTemperature"]]
        b.checkedFields = []
        b.probed = []

        class _B:
            H = HMAX

        class _Bhe:
            b = _B()

        class Fake:
            bhe = _Bhe()

            def compute_g_functions(self):
                pass

            def size(self, method=None):
                self.bhe.b.H = a.get("sized", 100.0)

        def calculate_excess(coords, h, field_specifier="N/A"):
            b.probed.append(len(coords))
            b.ghe = Fake()
            return ex_of(len(coords))

        def initialize_ghe(coords, h, field_specifier="N/A"):
            b.ghe = Fake()

        b.calculate_excess, b.initialize_ghe = calculate_excess, initialize_ghe
        n_up, n_lo = len(field_for(a["smin"])[0]), len(field_for(a["smax"])[0])
        t_up, t_lo = ex_of(n_up), ex_of(n_lo)
        try:
            sel, spec = b.search()
        except ValueError:
            ok = (t_up > 0 and t_lo > 0 and not cont_flag)
            return ok, {"why": "ValueError although a design exists or the continue flag is set", "outcome": "ValueError", "t": [t_up, t_lo]}
        except Exception as e:
            return False, {"why": f"search raised {type(e).__name__}: {e}", "signature": f"rowwise-{type(e).__name__}", "t": [t_up, t_lo], "n": [n_up, n_lo]}
        n_sel = len(sel)
        if t_up > 0 and t_lo > 0:
            if not cont_flag:
                return False, {"why": "no candidate meets the limits, continue flag off, yet a design was returned"}
            return n_sel == n_up, {"why": f"loads too large: the largest field ({n_up}) expected, got {n_sel}"}
        if not ex_of(n_sel) < 0:
            return False, {"why": f"returned field with {n_sel} boreholes is infeasible at max height (excess {ex_of(n_sel)})", "probed": b.probed[:30]}
        if t_lo < 0 and t_up < 0 and not noise:
            feas = [n for n in set(b.probed) if ex_of(n) < 0]
            if n_sel > min(feas):
                return False, {"why": f"a probed feasible field with {min(feas)} boreholes is smaller than the returned {n_sel}"}
        return True, {"n": n_sel}
    finally:
        sr.field_optimization_fr, sr.field_optimization_wp_space_fr, sr.gen_shape = saved


def _rw_gen(rng):
    smin = rng.choice([3.0, 4.0, 5.0])
    smax = smin + rng.choice([2.0, 5.0, 10.0])
    area = rng.choice([400.0, 1500.0, 6000.0])
    n_up, n_lo = max(1, int(area / smin ** 2)), max(1, int(area / smax ** 2))
    r = rng.random()
    if r < 0.25:
        n_star = n_up + rng.randint(1, 30)  # nothing fits
    elif r < 0.6:
        n_star = rng.randint(n_lo + 1, max(n_lo + 1, n_up))  # between the two bounding fields
    else:
        n_star = rng.randint(1, n_lo)  # even the sparsest field is oversized: borehole removal arm (incl. n_star == n_lo)
        if rng.random() < 0.3:
            n_star = n_lo
    return {"area": area, "smin": smin, "smax": smax, "n_star": n_star, "cont": rng.random() < 0.5, "perimeter": rng.choice([None, 0.8]),
            "sized": round(rng.uniform(HMIN, HMAX), 1)}


native(f"{S}:RowWiseModifiedBisectionSearch.search", _rw_check, _rw_gen, None,
       bound="real RowWise search() with a stubbed field generator (count ~ area/spacing^2) and a monotone table-driven oracle: nothing fits / threshold between the bounding fields / borehole-removal arm incl. 'only the full sparsest field passes'; both policies; with/without perimeter ratio")


# ---- RowWiseModifiedBisectionSearch.calculate_excess: the same oracle-facing step as Bisection1D's (its own method body) ----------------------------
def RWs():
    sim = SimP(NoneT())
    return ObjOf(f"{S}:RowWiseModifiedBisectionSearch", sim_params=sim, ghe=GHEs(), searchTracker=ListOf(Row), V_flow=Real, flow_type=Int, bhe_type=Int, log_time=OpaqueOf("list"),
                 hourly_extraction_ground_loads=OpaqueOf("list"), fieldType=Str, load_years=OpaqueOf("list"), method=Int,
                 fluid=AliasOf(lambda P: None), borehole=AliasOf(lambda P: None))


def _rw_self():
    o = RWs()
    del o.fields["fluid"], o.fields["borehole"]
    return o


contract(f"{S}:RowWiseModifiedBisectionSearch.initialize_ghe", dict(self=_rw_self(), coordinates=Field, h=Real, field_specifier=Str),
         name=f"{S}:RowWiseModifiedBisectionSearch.initialize_ghe#caller",
         ensures=[("ghe-rebuilt", lambda E: And(_ghe_at(E, E.coordinates.id, E.h), E.self.ghe.g_cfg == CFGRW(E.self.flow_type, E.self.V_flow, E.coordinates.id, E.coordinates.len, E.h),
                                                E.self.ghe.sim_params.raw() is E.self.sim_params.raw()))],
         assigns=[(lambda P: (P.self, "ghe"), _ghe_fresh_rw())] if False else [(lambda P: (P.self, "ghe"), GHEfresh())], returns=NoneT(),
         notes="caller view of the body verified in C20 (flow.py): a new GHE for exactly this field and height; its configuration is named by the arguments (A-DET)").applies = (
             lambda env: "searchTracker" in env["self"].fields and "fluid" not in env["self"].fields)
CFGRW = z3.Function("CFG_ROWWISE", z3.IntSort(), z3.RealSort(), z3.IntSort(), z3.IntSort(), z3.RealSort(), z3.IntSort())
contract(f"{S}:RowWiseModifiedBisectionSearch.calculate_excess", dict(self=_rw_self(), coordinates=Field, h=Real, field_specifier=Str),
         requires=[("at-least-one-borehole", lambda E: E.coordinates.len >= 1)],
         ensures=[("excess-of-the-rebuilt-ghe", lambda E: E.result == OBJ(E.self.ghe.g_cfg, E.h)),
                  ("ghe-rebuilt-for-this-field-and-height", lambda E: _ghe_at(E, E.coordinates.id, E.h)),
                  ("log-row-appended", lambda E: And(E.self.searchTracker.len == E.old.self.searchTracker.len + 1,
                                                     row_ok(E, E.self.searchTracker[E.old.self.searchTracker.len]),
                                                     E.self.searchTracker[E.old.self.searchTracker.len][1] == E.result)),
                  ("log-prefix-kept", lambda E: forall(1, lambda j: Implies(And(0 <= j, j < E.old.self.searchTracker.len),
                                                                             And(*[E.self.searchTracker[j][c] == E.old.self.searchTracker[j][c] for c in (1, 2, 3)]))))],
         assigns=[(lambda P: (P.self, "ghe"), GHEfresh()), (lambda P: (P.self, "searchTracker"), ListOf(Row))], returns=Real)
