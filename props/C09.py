"""C09 - simulated fluid temperatures equal the documented temporal superposition."""
from contracts import simulate
from props.common import *  # noqa: F401,F403

FUNCTIONS = [f"{G}:BaseGHE._simulate_detailed", f"{G}:GHE.simulate#hybrid-body", f"{G}:GHE.simulate#hourly-body-fresh",
             f"{G}:GHE.simulate#hourly-body-after-another-simulation", f"{G}:GHE.simulate#hourly-body-array-loads", f"{G}:BaseGHE.cost"]
NATIVE_FUNCTIONS = [f"{G}:BaseGHE._simulate_detailed", f"{G}:GHE.simulate", f"{G}:BaseGHE.cost"]
NATIVE_CASES = {"quick": 60, "thorough": 3000}
NATIVE_LIMIT_S = {"quick": 45, "thorough": 1500}
CASE_TIMEOUT = 200
LEVEL = "other"


def lemmas():
    return simulate.LEMMAS


ASSUMPTIONS = [A_REAL, A_ENGINE, A_DET, "numpy model (hstack, slices, broadcasting, dot as a prefix sum) listed in trusted_base",
               "extensionality of finite sums (pointwise equal summands => equal sums): theorem by induction, used as an axiom",
               "products of two symbolic reals are abstracted as MUL(x,y) in _simulate_detailed: the postcondition is the formula with the same products (sound; only sign facts are used)",
               "the g-function is an arbitrary function of ln(t/ts) (interp1d object as an uninterpreted function): nothing about its values is used",
               "R_b* = calc_effective_borehole_resistance() is a function of the exchanger state (ghost g_rb)",
               "calc_sts_g_functions / to_single leave t_s and the exchanger unchanged when called again for the same object (A-DET idempotence)",
               "corollaries 'zero load', 'linear scaling' are proved as induction steps over the sum (the induction principle itself is meta-level); sign clause (rejection raises, extraction lowers) needs g non-decreasing and g + 2 pi k R_b >= 0 (C10) and is cross-checked at run time only"]
NOT_PROVED = ["sign corollary (rejection raises / extraction lowers the temperature): depends on C10's monotonicity; bounded run-time check only",
              "an hourly run over a horizon of at most 12 months simulates the full 8760-hour list that was given (observation; the formula clause is unaffected)"]
EXPLANATION = ("_simulate_detailed is proved, for load/time arrays of every length, to return at step i exactly Tg + sum_j (q_j - q_(j-1))/N g(ln((t_i - t_(j-1)) 3600/ts))/(2 pi k H) "
               "+ q_i/N R_b*/H - q_i/N/(2 m cp) (loop invariant over the symbolic step count; the dot product is tied to the spec sum by extensionality). GHE.simulate is proved to feed it "
               "q = 1000*load[2:], t = hour[2:] (hybrid) or q = -loads repeated over the horizon, t = 1..n (hourly) whatever self.times held before - the hourly obligations "
               "(equal lengths, increasing axis) failed on the pinned tree: defects D8 and D15, fixed. Unit handling kW->W, hours->seconds, field->per borehole is part of the formula.")
LEVEL_TEXT = ("[level other because the sign corollary of the statement (rejection raises / extraction lowers the temperature) is not a consequence of the proved formula alone and is cross-checked at run time only] Deductive proof for all load sequences, time axes, g-functions, heights, counts and media that both time-step methods compute exactly the documented superposition; "
              "zero-load / scaling / ground-temperature-shift corollaries proved as induction steps or linear identities; sign corollary bounded.")
LEVEL_NOTE = "Trusted: pyvc, z3, A-REAL, numpy model, sum extensionality axiom, A-DET for pygfunction/radial model objects."
