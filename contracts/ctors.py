"""Every design class hands the flow rate and the flow type it was given to DesignBase.__init__ (C20): constructor bodies under contract.

DesignNearSquare / DesignRectangle carry the clause in their C03 body contracts (fields.py), DesignRowWise in flow.py."""
from contracts.flow import D_
from contracts.polygons import Poly
from pyvc.api import *
# ---- every design class hands the flow and the flow type it was given to DesignBase.__init__ (bodies; the domain generators are abstract here) -------------
DM_ = "ghedesigner.domains"
_NESTED = OpaqueOf("domain")
for _fn, _params in (("bi_rectangle_zoned_nested", dict(length_x=Real, length_y=Real, b_min=Real, b_max_x=Real, b_max_y=Real)),
                     ("bi_rectangle_nested", dict(length_x=Real, length_y=Real, b_min=Real, b_max_x=Real, b_max_y=Real, disp=Const(False))),
                     ):
    contract(f"{DM_}:{_fn}", _params, name=f"{DM_}:{_fn}#flow-view", returns=TupleOf(_NESTED, OpaqueOf("list")), raises={"Exception": None},
             notes="abstract in the flow contracts (the domain generators are under contract in C03 / C04)").applies = lambda env: "#flow-body" in env["__verifying__"]
    REG.contracts[f"{DM_}:{_fn}#flow-view"].priority = 1
DESIGN_CTORS = []
_GC = {"DesignBiRectangle": dict(length=Real, width=Real, b_min=Real, b_max_x=Real, b_max_y=Real), "DesignBiZoned": dict(length=Real, width=Real, b_min=Real, b_max_x=Real, b_max_y=Real),
       "DesignBiRectangleConstrained": dict(b_min=Real, b_max_x=Real, b_max_y=Real, property_boundary=ListOf(Poly, minlen=1), no_go_boundaries=ListOf(Poly))}
for _cls, _gc in _GC.items():
    _n = f"{D_}:{_cls}.__init__#flow-body"
    contract(f"{D_}:{_cls}.__init__",
             dict(self=ObjOf(f"{D_}:{_cls}"), v_flow=Real, _borehole=ObjOf("x"), bhe_type=Int, fluid=ObjOf("x"), pipe=ObjOf("x"), grout=ObjOf("x"), soil=ObjOf("x"),
                  sim_params=ObjOf("x"), geometric_constraints=ObjOf("gc", **_gc), hourly_extraction_ground_loads=OpaqueOf("list"), method=OpaqueOf("enum"), flow_type=Int),
             name=_n, raises={"Exception": None, "ValueError": None}, assigns=writes("self.*"),
             ensures=[("keeps-flow-and-flow-type", lambda E: And(E.self.V_flow == E.v_flow, E.self.flow_type == E.flow_type))], returns=NoneT()).applies = lambda env: False
    DESIGN_CTORS.append(_n)

