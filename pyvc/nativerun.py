"""Subprocess entry: run the native (run-time) form of a contract on the real function.

stdin: {"qual": ..., "args": ...}                      -> one case
       {"qual": ..., "gen": N, "seed": s, "limit_s": t} -> N generated cases (bounded stand-in)
stdout (last line): JSON {"ok": bool|None, "detail": ..., "evaluations": n, "failures": [...]}
"""
import contextlib
import importlib
import io
import json
import os
import random
import signal
import sys
import time
import traceback

REPO = os.environ.get("VERIF_REPO", "/repo")
if REPO not in sys.path:
    sys.path.insert(0, REPO)


class _Timeout(Exception):
    """the case used more than its budget of CPU time (a non-terminating real function ends here)"""


class _WallTimeout(BaseException):
    """wall-clock backstop (10x the budget): the machine is busy or the time is spent in child processes - inconclusive, never a failure"""


def _alarm(signum, frame):
    if signum == signal.SIGPROF:
        raise _Timeout()
    raise _WallTimeout()


def _arm(per_case):
    signal.setitimer(signal.ITIMER_PROF, per_case)
    signal.alarm(10 * per_case)


def _disarm():
    signal.setitimer(signal.ITIMER_PROF, 0)
    signal.alarm(0)


def load_contract_modules():
    import contracts

    for m in contracts.MODULES:
        importlib.import_module(f"contracts.{m}")


def _perturbed(x, rng):
    """a copy of the (JSON-like) arguments with one float leaf scaled by a few per cent"""
    import copy

    y = copy.deepcopy(x)
    leaves = []

    def walk(o, path):
        if isinstance(o, dict):
            for k, v in o.items():
                walk(v, path + [k])
        elif isinstance(o, list):
            if len(o) <= 16:
                for k, v in enumerate(o):
                    walk(v, path + [k])
        elif isinstance(o, float) and o != 0.0:
            leaves.append(path)

    walk(y, [])
    if not leaves:
        return y
    path = leaves[rng.randrange(len(leaves))]
    o = y
    for k in path[:-1]:
        o = o[k]
    o[path[-1]] = o[path[-1]] * rng.choice([0.93, 1.07, 1.31])
    return y


def main():
    req = json.loads(sys.stdin.read())
    load_contract_modules()
    from pyvc.run import NATIVES, jsonable

    nat = NATIVES[req["qual"]]
    signal.signal(signal.SIGALRM, _alarm)
    signal.signal(signal.SIGPROF, _alarm)
    per_case = int(req.get("case_timeout", 20))
    if "args" in req:
        _arm(per_case)
        try:
            with contextlib.redirect_stdout(io.StringIO()):
                ok, detail = nat.check(req["args"])
            out = {"ok": bool(ok), "detail": jsonable(detail), "evaluations": 1}
        except _Timeout:
            out = {"ok": False, "detail": f"no result within {per_case} s of CPU time", "timeout": True, "evaluations": 1}
        except _WallTimeout:
            out = {"ok": None, "detail": f"inconclusive: wall-clock backstop of {10 * per_case} s reached", "evaluations": 1}
        except Exception:
            out = {"ok": None, "detail": "harness exception: " + traceback.format_exc()[-1500:], "evaluations": 1}
        finally:
            _disarm()
        print(json.dumps(out))
        return
    rng = random.Random(req.get("seed", 0))
    n = req["gen"]
    t_end = time.time() + req.get("limit_s", 60)
    failures, evals, distinct = [], 0, set()
    samples = []
    known = req.get("known", [])  # lists of substrings: failures matching one of them are recorded findings
    known_failures = []
    known_count = {}
    # history: before about half of the (cheap) cases a perturbed sibling of the case - one numeric leaf changed - is run through the same real code
    # in this interpreter and its outcome ignored.  A result that depends on what was computed before (a memo keyed on part of the inputs, state left on
    # a re-used object) then shows up as a failure of the case itself, whose contract is checked against independent references.
    rng_h = random.Random(req.get("seed", 0) + 7919)
    last_cost = 0.0
    inconclusive = 0
    for _ in range(n):
        if time.time() > t_end:
            break
        args = nat.gen(rng)
        evals += 1
        key = json.dumps(jsonable(args), sort_keys=True)[:2000]
        distinct.add(key)
        if len(samples) < 3:
            samples.append(jsonable(args))
        if last_cost < 1.0 and rng_h.random() < 0.5:
            sib = _perturbed(jsonable(args), rng_h)
            _arm(per_case)
            try:
                with contextlib.redirect_stdout(io.StringIO()):
                    nat.check(sib)
            except BaseException:  # noqa: BLE001 - the sibling only creates history (it may violate the case's precondition)
                pass
            finally:
                _disarm()
        _arm(per_case)
        t_case = time.process_time()
        try:
            with contextlib.redirect_stdout(io.StringIO()):
                ok, detail = nat.check(args)
        except _Timeout:
            ok, detail = False, f"no result within {per_case} s of CPU time"
        except _WallTimeout:
            inconclusive += 1
            last_cost = float(per_case)
            continue
        except Exception:
            ok, detail = None, "harness exception: " + traceback.format_exc()[-1500:]
        finally:
            _disarm()
            last_cost = time.process_time() - t_case
        if ok is not True:
            rec = {"args": jsonable(args), "ok": ok, "detail": jsonable(detail)}
            text = json.dumps(rec["args"], sort_keys=True) + " " + json.dumps(rec["detail"])
            hit = next((k for k, ms in enumerate(known) if all(m in text for m in ms)), None) if ok is False else None
            if hit is not None:
                known_count[hit] = known_count.get(hit, 0) + 1
                if known_count[hit] <= 2:  # two witnesses per recorded finding are enough
                    known_failures.append(rec)
                continue
            failures.append(rec)
            if len(failures) >= 5:
                break
    out = {"ok": not failures, "evaluations": evals - inconclusive, "distinct": len(distinct), "failures": failures + known_failures, "samples": samples, "inconclusive_wall_timeouts": inconclusive}
    if not failures and evals and inconclusive * 2 > evals:
        out["ok"] = None
        out["detail"] = f"{inconclusive} of {evals} cases hit the wall-clock backstop: the bounded stand-in could not run"
    print(json.dumps(out))


if __name__ == "__main__":
    main()
