"""Run-time contract checks on the real, un-stubbed pipeline (witness synthesis for replays; bounded stand-ins).

Nothing here is counted as proved: every entry is a bounded check with a stated input family."""
import math
import os

from pyvc.run import native

G = "ghedesigner.ground_heat_exchangers"


def synth_loads(kind, scale, phase=0, spike=0.0):
    """8760 hourly ground loads in W (extraction positive): seasonal + daily sinusoids, optional spikes."""
    out = []
    for h in range(8760):
        day = h // 24
        season = math.cos(2 * math.pi * (day - phase) / 365.0)  # +1 mid winter
        daily = 0.3 * math.sin(2 * math.pi * (h % 24) / 24.0)
        if kind == "heating":
            v = max(0.0, season + 0.2 + daily)
        elif kind == "cooling":
            v = -max(0.0, -season + 0.2 + daily)
        elif kind == "balanced":
            v = season + daily
        elif kind == "constant":
            v = 1.0
        else:
            v = season + daily
        out.append(v * scale)
    if spike:
        for m in range(12):
            out[(m * 730 + 37 * (m + 1)) % 8760] *= (1 + spike)
    return out


def build_manager(a):
    from ghedesigner.manager import GHEManager

    g = GHEManager()
    pipe = a.get("pipe", "single")
    if pipe == "single":
        g.set_single_u_tube_pipe(inner_diameter=0.03404, outer_diameter=0.04216, shank_spacing=0.01856, roughness=1.0e-6,
                                 conductivity=a.get("k_pipe", 0.4), rho_cp=a.get("rho_cp_pipe", 1542000.0))
    elif pipe == "double_parallel":
        g.set_double_u_tube_pipe_parallel(inner_diameter=0.03404, outer_diameter=0.04216, shank_spacing=0.01856, roughness=1.0e-6,
                                          conductivity=0.4, rho_cp=a.get("rho_cp_pipe", 1542000.0))
    elif pipe == "double_series":
        g.set_double_u_tube_pipe_series(inner_diameter=0.03404, outer_diameter=0.04216, shank_spacing=0.01856, roughness=1.0e-6,
                                        conductivity=0.4, rho_cp=a.get("rho_cp_pipe", 1542000.0))
    else:
        g.set_coaxial_pipe(inner_pipe_d_in=0.0442, inner_pipe_d_out=0.050, outer_pipe_d_in=0.0974, outer_pipe_d_out=0.11,
                           roughness=1.0e-6, conductivity_inner=0.4, conductivity_outer=0.4, rho_cp=a.get("rho_cp_pipe", 1542000.0))
    g.set_soil(conductivity=a.get("k_soil", 2.0), rho_cp=a.get("rho_cp_soil", 2343493.0), undisturbed_temp=a.get("ugt", 18.3))
    g.set_grout(conductivity=a.get("k_grout", 1.0), rho_cp=a.get("rho_cp_grout", 3901000.0))
    g.set_fluid()
    g.set_borehole(height=a.get("nominal_height", 96.0), buried_depth=2.0, diameter=0.140)
    g.set_simulation_parameters(num_months=a.get("months", 24), max_eft=35, min_eft=5, max_height=a.get("hmax", 135.0), min_height=a.get("hmin", 60.0),
                                max_boreholes=a.get("cap"), continue_if_design_unmet=a.get("cont", False))
    g.set_ground_loads_from_hourly_list(synth_loads(a.get("kind", "balanced"), a.get("scale", 2.0e4), a.get("phase", 0), a.get("spike", 0.0)))
    geom = a.get("geom", "near_square")
    if geom == "near_square":
        g.set_geometry_constraints_near_square(b=a.get("b", 6.0), length=a.get("length", 30.0))
    elif geom == "rectangle":
        g.set_geometry_constraints_rectangle(length=a.get("length", 30.0), width=a.get("width", 18.0), b_min=3.0, b_max=9.0)
    elif geom == "rowwise":
        side = a.get("length", 50.0)
        g.set_geometry_constraints_rowwise(perimeter_spacing_ratio=a.get("perimeter"), max_spacing=a.get("max_spacing", 12.0), min_spacing=a.get("min_spacing", 7.0), spacing_step=0.5,
                                           max_rotation=0.0, min_rotation=-45.0, rotate_step=15.0,
                                           property_boundary=[[5.0, 5.0], [5.0 + side, 5.0], [5.0 + side, 5.0 + side], [5.0, 5.0 + side]], no_go_boundaries=[])
    g.set_design(flow_rate=a.get("flow", 0.3), flow_type_str=a.get("flow_type", "borehole"))
    return g


def _design_check(a):
    """find_design on the real pipeline, then: height bounds, feasibility unless escaped, reported temperatures are
    those of the reported height (C12), summary consistency."""
    from ghedesigner.enums import TimestepType

    g = build_manager(a)
    try:
        g.find_design()
    except ValueError as e:
        return (not a.get("cont", False)), {"outcome": f"ValueError: {e}"}
    ghe = g._search.ghe
    H = ghe.bhe.b.H
    sp = ghe.sim_params
    if not sp.min_height - 1e-9 <= H <= sp.max_height + 1e-9:
        return False, {"why": "height outside the window", "H": H}
    rep_max, rep_min = max(ghe.hp_eft), min(ghe.hp_eft)
    mx, mn = ghe.simulate(method=TimestepType.HYBRID)
    if abs(mx - rep_max) > 1e-3 or abs(mn - rep_min) > 1e-3:
        return False, {"why": "reported EFT are not those of the reported height", "H": H, "reported": [rep_max, rep_min], "resimulated": [mx, mn]}
    excess = ghe.cost(mx, mn)
    if not a.get("cont", False) and excess > 1e-3:
        return False, {"why": "returned design exceeds the limits", "excess": excess, "H": H}
    for row in g._search.searchTracker:
        if abs(row[1] - max(row[2] - sp.max_EFT_allowable, sp.min_EFT_allowable - row[3])) > 1e-12:
            return False, {"why": "search-log row inconsistent", "row": row[1:]}
    # C12: the summary describes the returned design
    g.prepare_results("p", "n", "a", "i")
    od = g.results.output_dict
    nb = od["ghe_system"]["number_of_boreholes"]
    rows = g.results.borehole_location_data_rows
    if not (nb == len(rows) - 1 == len(g._search.selected_coordinates) if hasattr(g._search, "selected_coordinates") else nb == len(rows) - 1):
        return False, {"why": "number_of_boreholes differs from the coordinate rows", "nb": nb, "rows": len(rows) - 1}
    if [list(r) for r in rows[1:]] != [[c[0], c[1]] for c in ghe.gFunction.bore_locations]:
        return False, {"why": "bore-field table is not the selected field"}
    if abs(od["ghe_system"]["total_drilling"]["value"] - nb * H) > 1e-9 * nb * H or od["ghe_system"]["active_borehole_length"]["value"] != H:
        return False, {"why": "total drilling / active length inconsistent", "total": od["ghe_system"]["total_drilling"]["value"], "nb": nb, "H": H}
    sr = od["simulation_results"]
    if abs(sr["max_hp_eft"]["value"] - mx) > 1e-3 or abs(sr["min_hp_eft"]["value"] - mn) > 1e-3:
        return False, {"why": "summary EFT are not those of the reported height", "summary": [sr["max_hp_eft"]["value"], sr["min_hp_eft"]["value"]], "resimulated": [mx, mn]}
    if od["design_selection_search_log"]["data"] is not g._search.searchTracker:
        return False, {"why": "search log is not the search tracker"}
    return True, {"H": H, "nbh": ghe.nbh, "excess": excess}


_DESIGN_CASES = [
    # the outcomes C12 quantifies over come first: clamped at minimum, clamped at maximum / unmet-but-continued, bracketed root
    {"kind": "constant", "scale": 1.0e2, "cont": True, "length": 12.0, "months": 12},
    {"kind": "constant", "scale": 1.0e6, "cont": True, "length": 12.0, "months": 12},
    {"kind": "balanced", "scale": 2.0e4, "cont": False, "length": 12.0, "months": 12},
    # RowWise, bracketed outcome (dense field feasible, sparse field not): the exhaustive stage sizes several candidates below the maximum height
    {"kind": "balanced", "scale": 1.6e5, "cont": False, "geom": "rowwise", "length": 50.0, "months": 12},
    {"kind": "heating", "scale": 1.2e4, "cont": False, "length": 18.0, "months": 18, "flow_type": "system"},
    {"kind": "cooling", "scale": 3.0e4, "cont": False, "length": 18.0, "months": 24, "geom": "rectangle"},
    {"kind": "constant", "scale": 1.0e6, "cont": True, "length": 18.0, "months": 12, "cap": 5},
]
_design_counter = [0]


def _design_gen(rng):
    k = _design_counter[0]
    _design_counter[0] += 1
    if k < len(_DESIGN_CASES):
        return dict(_DESIGN_CASES[k])
    kind = rng.choice(["heating", "cooling", "balanced", "constant"])
    scale = rng.choice([1.0e2, 5.0e3, 2.0e4, 6.0e4, 1.5e5, 1.0e6])
    return {"kind": kind, "scale": scale, "phase": rng.randrange(0, 365, 30), "cont": scale in (1.0e2, 1.0e6) or rng.random() < 0.3,
            "length": rng.choice([12.0, 18.0, 24.0]), "months": rng.choice([12, 18, 24, 36]), "flow_type": rng.choice(["borehole", "system"]),
            "geom": rng.choice(["near_square", "rectangle"])}


native(f"{G}:GHE.size", _design_check, _design_gen, None,
       bound="real GHEManager.find_design on synthetic profiles (4 shapes x 6 magnitudes from negligible to far beyond capacity), near-square/rectangle lots, 12..36 months")


# ---- real HybridLoad objects (C07: durations, two-day windows, duration definition; C08: axis) ----------------------
def _hybrid_real_check(a):
    import numpy as np

    from ghedesigner.constants import TWO_PI
    from ghedesigner.enums import FlowConfigType, TimestepType
    from ghedesigner.search_routines import Bisection1D

    n = a.get("n", 4)
    coords = [(float(i % 2) * 6.0, float(i // 2) * 6.0) for i in range(n)]
    # history: the same field, loads, height, soil and conductivities - hence the same characteristic time and borehole resistance - but other heat capacities of grout and
    # pipe (another short-time response) is processed first in this interpreter
    dd = build_manager({**a, "length": 12.0, "rho_cp_grout": 1.9e6, "rho_cp_pipe": 2.6e6})._design
    Bisection1D([coords], ["f"], a.get("flow", 0.3), dd.borehole, dd.bhe_type, dd.fluid, dd.pipe, dd.grout, dd.soil, dd.sim_params,
                dd.hourly_extraction_ground_loads, method=TimestepType.HYBRID, flow_type=FlowConfigType.BOREHOLE, search=False)
    g = build_manager({**a, "length": 12.0})
    d = g._design
    s = Bisection1D([coords], ["f"], a.get("flow", 0.3), d.borehole, d.bhe_type, d.fluid, d.pipe, d.grout, d.soil, d.sim_params,
                    d.hourly_extraction_ground_loads, method=TimestepType.HYBRID, flow_type=FlowConfigType.BOREHOLE, search=False)
    hl = s.ghe.hybrid_load
    raw = d.hourly_extraction_ground_loads
    rej = [abs(x) / 1000.0 if x < 0 else 0.0 for x in raw]
    ext = [x / 1000.0 if x >= 0 else 0.0 for x in raw]
    cum = [0]
    for dd in [31, 28, 31, 30, 31, 30, 31, 31, 30, 31, 30, 31]:
        cum.append(cum[-1] + 24 * dd)
    rn = hl.radial_numerical
    g_sts = rn.g_sts
    ts = rn.t_s
    two_pi_k = TWO_PI * hl.bhe.soil.k
    rb = hl.bhe.calc_effective_borehole_resistance()

    def response(q):
        out = [0.0]
        for nn in range(1, 49):
            acc = 0.0
            for j in range(1, nn + 1):
                acc += (q[j] - q[j - 1]) / two_pi_k * float(g_sts(np.log(((nn - (j - 1)) * 3600.0) / ts)))
            out.append(acc + q[nn] * rb)
        return out

    for m in range(1, 13):
        for src, peaks, avgs, days, durs, two in ((rej, hl.monthly_peak_cl, hl.monthly_avg_cl, hl.monthly_peak_cl_day, hl.monthly_peak_cl_duration, hl.two_day_hourly_peak_cl_loads),
                                                   (ext, hl.monthly_peak_hl, hl.monthly_avg_hl, hl.monthly_peak_hl_day, hl.monthly_peak_hl_duration, hl.two_day_hourly_peak_hl_loads)):
            month = src[cum[m - 1]:cum[m]]
            if abs(peaks[m] - max(month)) > 1e-12 or days[m] != month.index(max(month)) // 24:
                return False, {"why": f"month {m}: peak / peak day wrong"}
            start = cum[m - 1] + 24 * (days[m] - 1)
            want = [src[(start + k) % 8760] for k in range(48)]
            if list(two[m]) != want:
                return False, {"why": f"month {m}: two-day window is not the day before the peak day plus the peak day"}
            dur = durs[m]
            if peaks[m] == 0:
                if dur != 1.0e-6:
                    return False, {"why": f"month {m}: zero peak but duration {dur}"}
                continue
            if not (0 < dur <= 48.0 + 1e-9):
                sig = "duration-out-of-range"
                if days[m] == 0 and max(want) - peaks[m] >= 0.1:
                    sig += "/peak-on-first-day-and-higher-load-of-previous-month-in-window"
                return False, {"why": f"month {m}: peak duration {dur} outside (0, 48]", "signature": sig, "month_peak": peaks[m], "window_max": max(want)}
            # duration definition (Cullin & Spitler): constant (peak-avg) load reaches the max response of the peak-scaled two-day profile
            # the scaling load is the largest load of the window (the month's peak, or a higher load of the previous month
            # when the peak day is the first of the month) - the tool's documented reading of 'peak-scaled'
            peak = max(peaks[m], max(want))
            q_peak = [0.0] + [peak - avgs[m]] * 48
            q_nom = [0.0] + [(want[k - 1] - avgs[m]) / peak * want[k - 1] for k in range(1, 49)]
            r_peak, r_nom = response(q_peak), response(q_nom)
            target = max(r_nom)
            if target <= 0:
                if dur != 1.0e-6:
                    return False, {"why": f"month {m}: non-positive nominal response but duration {dur}"}
                continue
            # invert the (monotone) peak response by linear interpolation, as the documented method does
            k = next((k for k in range(1, 49) if r_peak[k] >= target), None)
            if k is None:
                continue
            want_dur = (k - 1) + (target - r_peak[k - 1]) / (r_peak[k] - r_peak[k - 1])
            if abs(want_dur - dur) > 1e-6 * max(1.0, want_dur):
                return False, {"why": f"month {m}: duration {dur} differs from the Cullin-Spitler definition {want_dur}"}
    hour = [float(x) for x in hl.hour]
    if hour[0] != 0 or hour[-1] != 8760 * (hl.end_month // 12) + cum[hl.end_month % 12]:
        return False, {"why": "time axis does not cover the horizon", "last": hour[-1]}
    return True, {"durations": [round(float(x), 3) for x in hl.monthly_peak_cl_duration[1:]]}


def _hybrid_real_gen(rng):
    return {"kind": rng.choice(["heating", "cooling", "balanced", "balanced"]), "scale": rng.choice([5.0e3, 2.0e4, 6.0e4]), "phase": rng.randrange(0, 365, 15),
            "spike": rng.choice([0.0, 0.5, 3.0]), "months": rng.choice([12, 18, 36]), "k_soil": rng.choice([1.0, 2.0, 3.5]), "k_grout": rng.choice([0.8, 1.0, 2.0]),
            "pipe": rng.choice(["single", "double_parallel", "coaxial"]), "n": rng.choice([1, 4])}


native("ghedesigner.ground_loads:HybridLoad.find_peak_durations", _hybrid_real_check, _hybrid_real_gen, None,
       bound="real HybridLoad objects: 4 profile shapes x 3 magnitudes x spikes x 3 pipe types x soil/grout conductivities; peaks, two-day windows, durations in (0,48], duration definition recomputed independently; a sibling borehole with other grout / pipe heat capacities is processed first in the same interpreter")


# ---- real GHE objects: history independence of simulate (C13) and the corollaries of the superposition formula (C09) -----
def _make_ghe(a, scale=None, ugt=None):
    from ghedesigner.enums import FlowConfigType, TimestepType
    from ghedesigner.search_routines import Bisection1D

    b = dict(a)
    if scale is not None:
        b["scale"] = scale
    if ugt is not None:
        b["ugt"] = ugt
    g = build_manager({**b, "length": 12.0})
    d = g._design
    n = a.get("n", 4)
    coords = [(float(i % 2) * 6.0, float(i // 2) * 6.0) for i in range(n)]
    s = Bisection1D([coords], ["f"], a.get("flow", 0.3), d.borehole, d.bhe_type, d.fluid, d.pipe, d.grout, d.soil, d.sim_params,
                    d.hourly_extraction_ground_loads, method=TimestepType.HYBRID, flow_type=FlowConfigType.BOREHOLE, search=False)
    s.initialize_ghe(coords, a.get("H", 100.0))
    return s.ghe


def _sim_real_check(a):
    from ghedesigner.enums import TimestepType

    HY, HR = TimestepType.HYBRID, TimestepType.HOURLY
    ref = _make_ghe(a)
    hy_ref = ref.simulate(method=HY)
    hp_ref = list(ref.hp_eft)
    # C13: other simulations (other method, other height) before do not change the result
    g2 = _make_ghe(a)
    if a.get("hourly", True):
        g2.simulate(method=HR)
    g2.bhe.b.H = 77.0
    g2.simulate(method=HY)
    g2.bhe.b.H = a.get("H", 100.0)
    if g2.simulate(method=HY) != hy_ref or list(g2.hp_eft) != hp_ref:
        return False, {"why": "hybrid result depends on earlier simulations on the same object"}
    if a.get("hourly", True):
        fresh = _make_ghe(a)
        hr_ref = fresh.simulate(method=HR)
        g3 = _make_ghe(a)
        g3.simulate(method=HY)
        try:
            got = g3.simulate(method=HR)
        except Exception as e:
            return False, {"why": f"hourly after hybrid raised {type(e).__name__}: {e}", "signature": "hourly-after-hybrid"}
        if got != hr_ref:
            return False, {"why": "hourly result depends on an earlier hybrid simulation", "got": got, "want": hr_ref}
        # frame: the simulations leave the load series they were given as it is (list or float array; arrays only for horizons of at most a year,
        # where nothing is repeated), so a second simulation and the loads table of the output see the loads the user supplied
        import numpy as np

        for as_array in ((False, True) if a.get("months", 24) <= 12 else (False,)):
            g5 = _make_ghe(a)
            given = [float(x) for x in g5.hourly_extraction_ground_loads]
            if as_array:
                g5.hourly_extraction_ground_loads = np.array(given, dtype=float)
            g5.simulate(method=HR)
            g5.simulate(method=HY)
            after = g5.hourly_extraction_ground_loads
            if len(after) != len(given) or any(float(x) != y for x, y in zip(after, given)):
                k = next((i for i, (x, y) in enumerate(zip(after, given)) if float(x) != y), None)
                return False, {"why": "simulate() modified the hourly load series it was given" + (" (float array)" if as_array else " (list)"), "signature": "loads-modified-in-place",
                               "length_before": len(given), "length_after": len(after), "first_changed_hour": k}
            if g5.simulate(method=HR) != hr_ref:
                return False, {"why": "a second hourly simulation on the same object gives another result" + (" (float array loads)" if as_array else ""), "signature": "hourly-twice"}
    # the formula holds for the object's current state: a ground property changed in place between two simulations
    # must give what a freshly built object with that property gives (no stale short-time response / t_s)
    g4 = _make_ghe(a)
    g4.simulate(method=HY)
    g4.bhe.soil.rhoCp = g4.bhe.soil.rhoCp * 2.0
    g4.simulate(method=HY)
    ts_want = g4.bhe.b.H ** 2 / (9.0 * g4.bhe.soil.k / g4.bhe.soil.rhoCp)
    if abs(g4.radial_numerical.t_s - ts_want) > 1e-9 * ts_want:
        return False, {"why": "after an in-place change of the ground heat capacity the simulation still uses the old characteristic time t_s",
                       "t_s": g4.radial_numerical.t_s, "want": ts_want}
    # C09 corollaries
    z = _make_ghe(a, scale=0.0)
    z.simulate(method=HY)
    if any(v != z.bhe.soil.ugt for v in z.hp_eft):
        return False, {"why": "zero load does not return exactly the ground temperature"}
    sh = _make_ghe(a, ugt=a.get("ugt", 18.3) + 3.0)
    sh.simulate(method=HY)
    if max(abs((x - y) - 3.0) for x, y in zip(sh.hp_eft, hp_ref)) > 1e-9:
        return False, {"why": "shifting the ground temperature does not shift every result equally"}
    return True, {}


def _sim_real_gen(rng):
    return {"kind": rng.choice(["heating", "cooling", "balanced"]), "scale": rng.choice([5.0e3, 2.0e4]), "months": rng.choice([12, 18, 24]), "n": rng.choice([1, 4]),
            "pipe": rng.choice(["single", "double_parallel", "coaxial"]), "hourly": rng.random() < 0.4, "H": rng.choice([80.0, 100.0, 130.0]),
            "ugt": rng.choice([18.3, 18.3, 18, 10])}  # whole-number ground temperatures as Python ints (what a JSON input gives)


native(f"{G}:GHE.simulate", _sim_real_check, _sim_real_gen, None,
       bound="real GHE objects (1 or 4 boreholes, 3 pipe types, 12/18/24 months): hybrid/hourly results independent of earlier simulate calls; load series (list, and float array for 12-month horizons) unchanged by simulate; zero load -> ground temperature exactly; ground temperature shift")


# ---- GHE.size on a g-function family that does not span the height window (C05 / C12: root or clamp, also outside the tabulated heights) -----------
def _size_narrow_check(a):
    """GHE.size on a g-function family that does not span the height window: the result is a root of the excess (within the sizing tolerance) or sits at a bound with the
    sign that explains it - also when the root lies outside the tabulated heights (the family is then extrapolated, which the tool does with a warning)"""
    import warnings
    from ghedesigner.enums import TimestepType
    from ghedesigner.gfunction import calc_g_func_for_multiple_lengths
    from ghedesigner.ground_heat_exchangers import GHE
    from ghedesigner.simulation import SimulationParameters
    from ghedesigner.utilities import eskilson_log_times

    with warnings.catch_warnings():
        warnings.simplefilter("ignore")
        d = build_manager({"kind": a["kind"], "scale": a["scale"], "length": 12.0, "months": 12})._design
        n = a.get("n", 4)
        coords = [(float(i % 2) * 6.0, float(i // 2) * 6.0) for i in range(n)]
        heights = a["table"]
        hmin, hmax = a["hmin"], a["hmax"]
        sp = SimulationParameters(1, 12, 35, 5, hmax, hmin)
        m_flow = 0.3 / 1000.0 * d.fluid.rho
        gf = calc_g_func_for_multiple_lengths(6.0, heights, d.borehole.r_b, d.borehole.D, m_flow, d.bhe_type, eskilson_log_times(), coords, d.fluid, d.pipe, d.grout, d.soil)
        d.borehole.H = heights[1]
        ghe = GHE(0.3 * n, 6.0, d.bhe_type, d.fluid, d.borehole, d.pipe, d.grout, d.soil, gf, sp, d.hourly_extraction_ground_loads)
        ghe.size(method=TimestepType.HYBRID)
        H = ghe.bhe.b.H
        if not hmin - 1e-9 <= H <= hmax + 1e-9:
            return False, {"why": "sized height outside the window", "H": H}

        def excess(h):
            ghe.bhe.b.H = h
            mx, mn = ghe.simulate(method=TimestepType.HYBRID)
            return ghe.cost(mx, mn)

        e_h = excess(H)
        e_lo, e_hi = excess(hmin), excess(hmax)
        ghe.bhe.b.H = H
        if hmin + 1e-6 < H < hmax - 1e-6:
            if abs(e_h) > 1e-3:
                return False, {"why": "the sized height is strictly inside the window but the excess there is not zero (not a root of the excess)", "H": H, "excess": e_h,
                               "tabulated_heights": heights, "window": [hmin, hmax], "excess_at_bounds": [e_lo, e_hi], "signature": "size-not-a-root"}
        elif H >= hmax - 1e-6:
            if e_hi < -1e-3 and e_lo > 0:
                return False, {"why": "clamped at the maximum height although the limits are met there with margin and a root is bracketed", "excess_at_bounds": [e_lo, e_hi], "signature": "size-clamped-max-wrongly"}
        else:
            if e_lo > 1e-3:
                return False, {"why": "clamped at the minimum height although the limits are not met there", "excess_at_bounds": [e_lo, e_hi], "signature": "size-clamped-min-wrongly"}
    return True, {"H": H, "excess": e_h}


_SIZE_NARROW_FIXED = [{"kind": "balanced", "scale": 0.9e4, "table": [80.0, 110.0, 140.0], "hmin": 40.0, "hmax": 200.0},   # root below the tabulated heights
                      {"kind": "balanced", "scale": 2.0e4, "table": [80.0, 110.0, 140.0], "hmin": 40.0, "hmax": 200.0},   # root above them
                      {"kind": "balanced", "scale": 3.2e4, "table": [80.0, 110.0, 140.0], "hmin": 40.0, "hmax": 200.0}]   # clamped at the maximum height
_size_narrow_counter = [0]


def _size_narrow_gen(rng):
    k = _size_narrow_counter[0]
    _size_narrow_counter[0] += 1
    if k < len(_SIZE_NARROW_FIXED):
        return dict(_SIZE_NARROW_FIXED[k])
    lo = rng.choice([60.0, 80.0, 100.0])
    return {"kind": rng.choice(["balanced", "heating", "cooling"]), "scale": rng.choice([4.0e3, 0.9e4, 1.5e4, 2.0e4, 2.6e4, 3.2e4]), "n": rng.choice([1, 4]),
            "table": [lo, lo + 25.0, lo + 50.0], "hmin": rng.choice([30.0, 40.0, lo]), "hmax": rng.choice([lo + 50.0, 200.0, 250.0])}


native(f"{G}:GHE.size#hourly", _size_narrow_check, _size_narrow_gen, None,
       bound="real GHE objects (1 or 4 boreholes) on a three-height g-function family that need not span the height window 30..250 m, 6 load magnitudes x 3 shapes: the sized height is a "
             "root of the excess (1e-3 K) or sits at a bound with the sign that explains it (registered under the name of the second GHE.size contract, hybrid method)")


# ---- C13: the design is a function of the physical inputs, not of the call history (bounded, real manager) --------------------------
def _build_permuted(a, order_seed, nominal_height):
    """the same configuration as build_manager(a), setters called in a shuffled order, another nominal borehole height"""
    import random

    from ghedesigner.manager import GHEManager

    g = GHEManager()
    calls = [
        lambda: g.set_single_u_tube_pipe(inner_diameter=0.03404, outer_diameter=0.04216, shank_spacing=0.01856, roughness=1.0e-6, conductivity=a.get("k_pipe", 0.4), rho_cp=1542000.0),
        lambda: g.set_soil(conductivity=a.get("k_soil", 2.0), rho_cp=a.get("rho_cp_soil", 2343493.0), undisturbed_temp=a.get("ugt", 18.3)),
        lambda: g.set_grout(conductivity=a.get("k_grout", 1.0), rho_cp=3901000.0),
        lambda: g.set_fluid(),
        lambda: g.set_borehole(height=nominal_height, buried_depth=2.0, diameter=0.140),
        lambda: g.set_simulation_parameters(num_months=a.get("months", 24), max_eft=35, min_eft=5, max_height=a.get("hmax", 135.0), min_height=a.get("hmin", 60.0),
                                            max_boreholes=a.get("cap"), continue_if_design_unmet=a.get("cont", False)),
        lambda: g.set_ground_loads_from_hourly_list(synth_loads(a.get("kind", "balanced"), a.get("scale", 2.0e4), a.get("phase", 0), a.get("spike", 0.0))),
        (lambda: g.set_geometry_constraints_near_square(b=a.get("b", 6.0), length=a.get("length", 30.0))) if a.get("geom", "near_square") == "near_square"
        else (lambda: g.set_geometry_constraints_rectangle(length=a.get("length", 30.0), width=a.get("width", 18.0), b_min=3.0, b_max=9.0)),
    ]
    random.Random(order_seed).shuffle(calls)
    for c in calls:
        c()
    g.set_design(flow_rate=a.get("flow", 0.3), flow_type_str=a.get("flow_type", "borehole"))
    return g


def _design_of(g):
    ghe = g._search.ghe
    return {"field": [list(map(float, c)) for c in ghe.gFunction.bore_locations], "H": float(ghe.bhe.b.H), "hp_eft": [float(x) for x in ghe.hp_eft],
            "tracker": [[float(v) if isinstance(v, (int, float)) else str(v) for v in row[1:]] for row in g._search.searchTracker]}


def _fresh_design(a):
    """the design of build_manager(a).find_design() computed by a fresh interpreter (no module state of this process); None when the helper process fails"""
    import json
    import subprocess
    import sys

    verif = os.path.dirname(os.path.dirname(os.path.abspath(__file__)))
    repo = os.environ.get("VERIF_REPO", "/repo")
    code = ("import sys, json; sys.path[:0] = [%r, %r]; from contracts.realruns import build_manager, _design_of; a = json.loads(sys.stdin.read()); "
            "m = build_manager(a); m.find_design(); d = _design_of(m); print('FRESH-DESIGN ' + json.dumps({k: d[k] for k in ('field', 'H', 'hp_eft')}))") % (repo, verif)
    try:
        out = subprocess.run([sys.executable, "-c", code], input=json.dumps(a), capture_output=True, text=True, timeout=600)
    except Exception:
        return None
    for line in out.stdout.splitlines():
        if line.startswith("FRESH-DESIGN "):
            return json.loads(line[len("FRESH-DESIGN "):])
    return None


def _history_check(a):
    a = {k: v for k, v in a.items() if k != "pipe"}
    ref_m = build_manager(a)
    ref_m.find_design()
    ref = _design_of(ref_m)

    def differs(got, label):
        for k in ("field", "H", "hp_eft"):
            if got[k] != ref[k]:
                return {"why": f"{label}: {k} differs from the reference run of the same physical inputs", "history": label, "component": k, "signature": "history-dependent/" + label,
                        "reference": ref[k] if k != "hp_eft" else ref[k][:4], "got": got[k] if k != "hp_eft" else got[k][:4]}
        return None

    # 1. the search repeated on the same manager; 2. set_design repeated, then the search
    ref_m.find_design()
    bad = differs(_design_of(ref_m), "find_design-twice")
    if bad:
        return False, bad
    ref_m.set_design(flow_rate=a.get("flow", 0.3), flow_type_str=a.get("flow_type", "borehole"))
    ref_m.find_design()
    bad = differs(_design_of(ref_m), "set_design-and-find_design-again")
    if bad:
        return False, bad
    # ... and with another flow specification set in between (the final set_design is what counts)
    ref_m.set_design(flow_rate=1.7, flow_type_str="system" if a.get("flow_type", "borehole") == "borehole" else "borehole")
    ref_m.set_design(flow_rate=a.get("flow", 0.3), flow_type_str=a.get("flow_type", "borehole"))
    ref_m.find_design()
    bad = differs(_design_of(ref_m), "set_design-with-another-flow-specification-in-between")
    if bad:
        return False, bad
    # ... and a manager that was first configured with the other flow specification and then re-configured with this one
    m2 = build_manager({**a, "flow": 1.7, "flow_type": "system" if a.get("flow_type", "borehole") == "borehole" else "borehole"})
    m2.set_design(flow_rate=a.get("flow", 0.3), flow_type_str=a.get("flow_type", "borehole"))
    m2.find_design()
    bad = differs(_design_of(m2), "manager-first-configured-with-the-other-flow-specification")
    if bad:
        return False, bad
    # 3. a sibling design in this process that differs from the one just computed ONLY in a thermal property (same field domain, same heights, same flow, same
    #    loads): it must come out exactly as in a fresh interpreter that has never seen the first design
    prop_name, prop_val = (("k_grout", 2.1), ("k_soil", 3.0), ("k_pipe", 0.62), ("rho_cp_soil", 3.1e6))[a.get("perm", 1) % 4]
    sib_args = {**a, prop_name: prop_val}
    sib = build_manager(sib_args)
    sib.find_design()
    fresh = _fresh_design(sib_args)
    if fresh is not None:
        got = _design_of(sib)
        for k in ("field", "H", "hp_eft"):
            if got[k] != fresh[k]:
                return False, {"why": f"a design computed after another design that differs only in {prop_name} is not the design a fresh interpreter computes for the same inputs: {k} differs",
                               "history": "thermal-sibling-after-reference", "component": k, "signature": "history-dependent/thermal-sibling",
                               "fresh": fresh[k] if k != "hp_eft" else fresh[k][:4], "got": got[k] if k != "hp_eft" else got[k][:4]}
    # 4. an unrelated design earlier in the same process, 5. setters permuted and another nominal borehole height
    other = build_manager({**a, "kind": "cooling" if a.get("kind") != "cooling" else "heating", "scale": 3.1e4, "length": 18.0, "k_soil": 3.1, "months": 12})
    other.find_design()
    for seed, nominal in ((a.get("perm", 1), 55.5), (a.get("perm", 1) + 7, 310.0)):
        m = _build_permuted(a, seed, nominal)
        m.find_design()
        bad = differs(_design_of(m), f"setters-permuted-nominal-height-{nominal}")
        if bad:
            return False, bad
    return True, {"H": ref["H"], "n": len(ref["field"])}


def _history_gen(rng):
    return {"kind": rng.choice(["heating", "cooling", "balanced"]), "scale": rng.choice([8.0e3, 2.0e4, 4.0e4]), "length": rng.choice([12.0, 18.0]), "months": rng.choice([12, 24]),
            "geom": rng.choice(["near_square", "near_square", "rectangle"]), "flow_type": rng.choice(["borehole", "system"]), "perm": rng.randrange(1000), "cont": True}


native("ghedesigner.manager:GHEManager.find_design", _history_check, _history_gen, None,
       bound="real GHEManager: reference run vs. find_design twice, set_design+find_design again (also with another flow specification set in between), a sibling design differing only in one thermal property (grout / soil / pipe conductivity, soil heat capacity) vs. the same sibling in a fresh interpreter, an unrelated design earlier in the process, shuffled setter order with nominal borehole heights 55.5 / 310 m: field, height and temperatures bit-identical")
