"""C08 - hybrid time axis covers the horizon exactly and is ordered."""
from contracts import loads
from props.common import *  # noqa: F401,F403

L = "ghedesigner.ground_loads"
FUNCTIONS = [f"{L}:monthdays", f"{L}:first_month_hour", f"{L}:last_month_hour", f"{L}:HybridLoad.process_month_loads"]
NATIVE_FUNCTIONS = [f"{L}:last_month_hour", f"{L}:HybridLoad.process_month_loads"]
NATIVE_CASES = {"quick": 400, "thorough": 20000}
LEVEL = "proof"


def lemmas():
    return loads.LEMMAS


ASSUMPTIONS = [A_REAL, A_ENGINE, "numpy.append / list models listed in trusted_base", "single non-leap load year, start_month = 1 (what the manager always passes)"]
NOT_PROVED = []
EXPLANATION = ("Calendar helpers proved against the non-leap calendar for every month index >= 1 (loop invariants over the symbolic month): last_month_hour(m) = CUMH(m), "
               "first_month_hour(m) = CUMH(m-1)+1, CUMH(12y) = 8760y. process_month_loads: hour[0] = hour[1] = 0; invariant hour[last] = CUMH(i-1); every iteration ends with a "
               "breakpoint at CUMH(i); final breakpoint CUMH(end_month) for every horizon 1..360; replication loop: table entry m equals first-year entry ((m-1) mod 12)+1; "
               "under the statement's premise (windows inside the month, disjoint) the appended breakpoints are strictly increasing in every case.")
LEVEL_TEXT = ("Deductive proof for all horizons 1..360 months (including non-multiples of 12) and all monthly tables: axis starts at 0, has a breakpoint at every calendar month end, "
              "ends at the last hour of the horizon, month m+12 repeats month m, and breakpoints increase strictly whenever the peak windows overlap neither each other nor the month boundaries.")
LEVEL_NOTE = "Trusted: pyvc, z3, A-REAL, numpy.append model."
