"""Contract for RowWiseModifiedBisectionSearch.search (C01 / C02 for the row-wise design method).

Fields are abstract references (identity, borehole count); the field generator, the duplicate filter and the per-field excess are
abstract functions (A-DET): FIELD(spacing), PSORT(field), FIELD_SLICE(field, lo, hi), EX(field, height)."""
import z3

from contracts.search import EX, Field, GHEs, Row, S, SimP, Str, rows_ok
from pyvc.api import *

RW = "ghedesigner.rowwise"
SEARCH = f"{S}:RowWiseModifiedBisectionSearch.search"
FID = z3.Function("ROWWISE_FIELD", z3.RealSort(), z3.IntSort())       # identity of the densest-rotation field generated for a target spacing (lot, zones, window, step fixed per search)
FLEN = z3.Function("ROWWISE_COUNT", z3.RealSort(), z3.IntSort())      # its borehole count
PSORT = z3.Function("SORTED_BY_DISTANCE", z3.IntSort(), z3.IntSort())  # identity of point_sort(field)
FIELD_SLICE = __import__("pyvc.libmodels", fromlist=["FIELD_SLICE"]).FIELD_SLICE
ONE = z3.IntVal(-1 - __import__("zlib").crc32(b"[[0, 0]]"))  # identity the engine gives the literal field [[0, 0]] that the search evaluates

# ---- caller views used by search() ------------------------------------------------------------------------------------------------------
contract(f"{RW}:gen_shape", dict(prop_bound=OpaqueOf("list"), ng_zones=OpaqueOf("list")), name=f"{RW}:gen_shape#caller",
         returns=FixedList([OpaqueOf("shape"), OpaqueOf("zones")]), notes="abstract: wraps the outlines in Shapes objects").applies = lambda env: True
for _fn, _extra in (("field_optimization_fr", dict()), ("field_optimization_wp_space_fr", dict(p_space=Real))):
    contract(f"{RW}:{_fn}", dict(**_extra, space_start=Real, rotate_step=Real, prop_bound=OpaqueOf("shape"), ng_zones=OpaqueOf("zones"), rotate_start=Real, rotate_stop=Real),
             name=f"{RW}:{_fn}#search-view",
             ensures=[("field-of-this-spacing", lambda E: And(E.result[0].id == FID(E.space_start), E.result[0].len == FLEN(E.space_start), E.result[0].len >= 1))],
             returns=FixedList([Field, Str]),
             notes="caller view of the sweep verified in C14: for the search's fixed lot, zones, rotation window and step the returned field is a function of the target spacing (A-DET); "
                   "ASSUMED: it has at least one borehole").applies = lambda env: True
contract(f"{SEARCH}.<locals>.point_sort", dict(target_point=OpaqueOf("point"), other_points=Field, method=Str),
         ensures=[("a-reordering-of-the-field", lambda E: And(E.result.id == PSORT(E.other_points.id), E.result.len == E.other_points.len))],
         returns=Field, notes="ASSUMED (nested helper, sorted() over zipped distances): returns the same boreholes in another order")

# calculate_excess as search() sees it: the excess is a function of (field, height) for this search object (A-DET), every log row stays consistent
_ce = REG.contracts[f"{S}:RowWiseModifiedBisectionSearch.calculate_excess"]
_ce.ensures_caller = [("excess", lambda E: E.result == EX(E.coordinates.id, E.h)),
                      ("ghe-rebuilt", lambda E: And(E.self.ghe.g_field == E.coordinates.id, E.self.ghe.g_H0 == E.h, E.self.ghe.bhe.b.H == E.h)),
                      ("log-rows-consistent", lambda E: Implies(rows_ok(E.old, E.old.self.searchTracker), rows_ok(E, E.self.searchTracker)))]


def GC(ratio):
    return ObjOf("ghedesigner.geometry:GeometricConstraintsRowWise", min_spacing=Real, max_spacing=Real, spacing_step=Real, rotate_step=Real, property_boundary=OpaqueOf("list"),
                 no_go_boundaries=OpaqueOf("list"), min_rotation=Real, max_rotation=Real, perimeter_spacing_ratio=ratio)


def RWself(ratio):
    return ObjOf(f"{S}:RowWiseModifiedBisectionSearch", geometricConstraints=GC(ratio), sim_params=SimP(NoneT()), max_iter=Int, ghe=GHEs(), searchTracker=ListOf(Row),
                 advanced_tracking=ListOf(OpaqueOf("row")), checkedFields=ListOf(OpaqueOf("x")), V_flow=Real, flow_type=Int, bhe_type=Int, log_time=OpaqueOf("list"),
                 hourly_extraction_ground_loads=OpaqueOf("list"), fieldType=Str, load_years=OpaqueOf("list"), method=Int)


def hmax(E):
    return E.old.self.sim_params.max_height if E.old is not None else E.self.sim_params.max_height


def _tu(E):
    g = E.old.self.geometricConstraints
    return EX(FID(g.min_spacing), hmax(E)), EX(FID(g.max_spacing), hmax(E))


def feasible(E, f):
    return EX(f.id, hmax(E)) <= 0


def _pre(E):
    g, sp = E.self.geometricConstraints, E.self.sim_params
    return And(g.spacing_step > 0, E.self.max_iter >= 0, sp.min_height < sp.max_height,
               ForAll([z3.Int("c!"), z3.Real("h!")], __import__("contracts.ghe", fromlist=["OBJ"]).OBJ(z3.Int("c!"), z3.Real("h!")) != 0),
               # A-PERM / A-SINGLE: the excess of a field does not depend on the order of its boreholes; a single borehole's excess does not depend on where it stands
               ForAll([z3.Int("f!"), z3.Real("h!")], EX(PSORT(z3.Int("f!")), z3.Real("h!")) == EX(z3.Int("f!"), z3.Real("h!"))),
               ForAll([z3.Int("f!"), z3.Int("a!"), z3.Real("h!")], Implies(True, EX(FIELD_SLICE(z3.Int("f!"), z3.Int("a!"), z3.Int("a!") + 1), z3.Real("h!")) == EX(ONE, z3.Real("h!")))))


def _result_ok(E):
    if E.result[0] is None:
        return False  # a path that returns no field must be infeasible
    tu, tl = _tu(E)
    unmet = And(tu > 0, tl > 0)
    cont = E.old.self.sim_params.continue_if_design_unmet
    return And(Implies(unmet, And(cont, E.result[0].id == FID(E.old.self.geometricConstraints.min_spacing))),  # the densest field (smallest spacing) when continuing
               Implies(Not(unmet), feasible(E, E.result[0])), E.result[0].len >= 1)


def _raises(E):
    tu, tl = _tu(E)
    cont = E.self.sim_params.continue_if_design_unmet
    # the documented error (nothing fits, not continuing) or a sign pattern the search does not handle (a zero excess at a bound, or dense-infeasible / sparse-feasible)
    return Or(And(tu > 0, tl > 0, Not(cont)), tu == 0, tl == 0, And(tu > 0, tl < 0))


_SELF_LISTS = {"self.advanced_tracking": ListOf(OpaqueOf("row")), "self.checkedFields": ListOf(OpaqueOf("x")), "self.searchTracker": ListOf(Row)}
ROWSEARCH = []
for _vn, _ratio in (("without-perimeter-ratio", NoneT()), ("with-perimeter-ratio", Real)):
    _n = f"{SEARCH}#{_vn}"
    contract(SEARCH, dict(self=RWself(_ratio)), name=_n,
             requires=[("well-formed-search-and-model-assumptions", _pre),
                       ("search-log-consistent-at-entry (it is empty when the constructor calls search)", lambda E: rows_ok(E, E.self.searchTracker))],
             assigns=writes("self.ghe", "self.searchTracker", "self.advanced_tracking[]", "self.checkedFields[]"),
             raises={"ValueError": _raises},
             loops={
                 # spacing bisection: the dense end of the bracket stays feasible
                 0: LoopSpec(invariants=[("dense-end-feasible", lambda E: And(EX(FID(E.spacing_high), hmax(E)) <= 0, E.i >= 0, rows_ok(E, E.self.searchTracker)))],
                             shapes={**_SELF_LISTS, "f1": Field, "f1_specifier": Str, "t_e1": Real, "spacing_high": Real, "spacing_low": Real, "high_e": Real, "low_e": Real, "spacing_m": Real,
                                     "selected_specifier": Str, "i": Int}),
                 # the list of spacings to check exhaustively starts at the feasible dense end
                 1: LoopSpec(invariants=[("starts-at-the-feasible-spacing", lambda E: _ts_inv(E))],
                             shapes={**_SELF_LISTS, "target_spacings": ListOf(Real), "current_spacing": Real}),
                 # exhaustive stage: the best field so far is feasible
                 2: LoopSpec(peel=True, invariants=[("best-so-far-feasible", lambda E: _best_inv(E))],
                             shapes={**_SELF_LISTS, "best_field": Field, "best_drilling": Real, "best_excess": Real, "best_spacing": Real, "field": Field, "f_s": Str, "t_e": Real, "total_drilling": Real}),
                 # borehole removal: the selection stays feasible, the bracket of counts stays inside the field
                 3: LoopSpec(invariants=[("selection-feasible", lambda E: And(rows_ok(E, E.self.searchTracker), feasible(E, E.selected_coordinates), E.selected_coordinates.len >= 1, 1 <= E.nbh_min, E.nbh_min <= E.nbh_max,
                                                                              E.nbh_max <= E.nbh_start, E.nbh_start == E.starting_field.len, E.i >= 0))],
                             shapes={**_SELF_LISTS, "selected_coordinates": Field, "selected_specifier": Str, "selected_temp_excess": Real, "selected_spacing": Real, "nbh_max": Int, "nbh_min": Int,
                                     "nbh": Int, "current_field": Field, "f_s": Str, "t_e": Real, "i": Int}),
             },
             ensures=[("selected-field-meets-the-limits-at-maximum-height-unless-nothing-fits", _result_ok),
                      ("log-rows-consistent", lambda E: rows_ok(E, E.self.searchTracker))],
             returns=TupleOf(Field, Str)).applies = lambda env: False
    ROWSEARCH.append(_n)


def _best_inv(E):
    k = E._k2
    if E.best_field is None:
        return And(rows_ok(E, E.self.searchTracker), k == 0, EX(FID(E.spacing_high), hmax(E)) <= 0, E.target_spacings.len >= 1, E.target_spacings[0] == E.spacing_high)
    return And(rows_ok(E, E.self.searchTracker), Implies(k >= 1, And(feasible(E, E.best_field), E.best_field.len >= 1)), EX(FID(E.spacing_high), hmax(E)) <= 0, E.target_spacings.len >= 1, E.target_spacings[0] == E.spacing_high)


def _ts_inv(E):
    ts = E.target_spacings
    base = And(rows_ok(E, E.self.searchTracker), EX(FID(E.spacing_high), hmax(E)) <= 0, E.spacing_change > 0, E.spacing_l == E.spacing_high + E.spacing_step, E.spacing_step > 0)
    if isinstance(ts.len, int) and ts.len == 0:
        return And(base, E._k1 == 0, E.current_spacing == E.spacing_high)
    return And(base, ts.len == E._k1, E._k1 >= 1, ts[0] == E.spacing_high, E.current_spacing > E.spacing_high)
