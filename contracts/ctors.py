"""Every design class hands the flow rate and the flow type it was given to DesignBase.__init__ (C20): constructor bodies under contract.

DesignNearSquare / DesignRectangle carry the clause in their C03 body contracts (fields.py), DesignRowWise in flow.py."""
from contracts.flow import D_
from contracts.polygons import Poly
from pyvc.api import *
# ---- every design class hands the flow and the flow type it was given to DesignBase.__init__ (bodies; the domain generators are abstract here) -------------
DM_ = "ghedesigner.domains"
_NESTED = OpaqueOf("domain")
for _fn, _params in (("bi_rectangle_zoned_nested", dict(length_x=Real, length_y=Real, b_min=Real, b_max_x=Real, b_max_y=Real)),
                     ("bi_rectangle_nested", dict(length_x=Real, length_y=Real, b_min=Real, b_max_x=Real, b_max_y=Real, disp=Const(False))),
                     ):
    contract(f"{DM_}:{_fn}", _params, name=f"{DM_}:{_fn}#flow-view", returns=TupleOf(_NESTED, OpaqueOf("list")), raises={"Exception": None},
             notes="abstract in the flow contracts (the domain generators are under contract in C03 / C04)").applies = lambda env: "#flow-body" in env["__verifying__"]
    REG.contracts[f"{DM_}:{_fn}#flow-view"].priority = 1
DESIGN_CTORS = []
_GC = {"DesignBiRectangle": dict(length=Real, width=Real, b_min=Real, b_max_x=Real, b_max_y=Real), "DesignBiZoned": dict(length=Real, width=Real, b_min=Real, b_max_x=Real, b_max_y=Real),
       "DesignBiRectangleConstrained": dict(b_min=Real, b_max_x=Real, b_max_y=Real, property_boundary=ListOf(Poly, minlen=1), no_go_boundaries=ListOf(Poly))}
for _cls, _gc in _GC.items():
    _n = f"{D_}:{_cls}.__init__#flow-body"
    contract(f"{D_}:{_cls}.__init__",
             dict(self=ObjOf(f"{D_}:{_cls}"), v_flow=Real, _borehole=ObjOf("x"), bhe_type=Int, fluid=ObjOf("x"), pipe=ObjOf("x"), grout=ObjOf("x"), soil=ObjOf("x"),
                  sim_params=ObjOf("x"), geometric_constraints=ObjOf("gc", **_gc), hourly_extraction_ground_loads=OpaqueOf("list"), method=OpaqueOf("enum"), flow_type=Int),
             name=_n, raises={"Exception": None, "ValueError": None}, assigns=writes("self.*"),
             ensures=[("keeps-flow-and-flow-type", lambda E: And(E.self.V_flow == E.v_flow, E.self.flow_type == E.flow_type))], returns=NoneT()).applies = lambda env: False
    DESIGN_CTORS.append(_n)


# ---- Design*.find_design builds its search object with the design's own flow rate and flow type ------------------------------------------------------------
# (flow views of the search constructors: what a constructor does with the two flow arguments; Bisection1D.__init__ is verified to store them (C01: clause
#  'fields'), Bisection2D / BisectionZD forward them to Bisection1D.__init__(search=False) and carry the clause 'stores-flow-specification' on their bodies,
#  RowWiseModifiedBisectionSearch.__init__ is verified below)
S_ = "ghedesigner.search_routines"
_SEARCH_CLS = {"DesignNearSquare": "Bisection1D", "DesignRectangle": "Bisection1D", "DesignBiRectangle": "Bisection2D", "DesignBiZoned": "BisectionZD",
               "DesignBiRectangleConstrained": "BisectionZD", "DesignRowWise": "RowWiseModifiedBisectionSearch"}
_COMMON = dict(v_flow=Real, borehole=ObjOf("x"), bhe_type=Int, fluid=ObjOf("x"), pipe=ObjOf("x"), grout=ObjOf("x"), soil=ObjOf("x"), sim_params=ObjOf("x"),
               hourly_extraction_ground_loads=OpaqueOf("list"), method=OpaqueOf("enum"), flow_type=Int)
for _scls in sorted(set(_SEARCH_CLS.values())):
    if _scls == "RowWiseModifiedBisectionSearch":
        _params = dict(self=ObjOf(f"{S_}:{_scls}"), **_COMMON, geometric_constraints=ObjOf("x"))
    elif _scls == "Bisection1D":
        _params = dict(self=ObjOf(f"{S_}:{_scls}"), coordinates_domain=OpaqueOf("domain"), field_descriptors=OpaqueOf("list"), **_COMMON)
    else:
        _params = dict(self=ObjOf(f"{S_}:{_scls}"), coordinates_domain_nested=OpaqueOf("domain"), field_descriptors=OpaqueOf("list"), **_COMMON)
    contract(f"{S_}:{_scls}.__init__", _params, name=f"{S_}:{_scls}.__init__#flow-view", raises={"Exception": None, "ValueError": None}, returns=NoneT(),
             assigns=[((lambda P, k=k: (P.self, k)), sh) for k, sh in dict(V_flow=AliasOf(lambda P: P.v_flow), flow_type=AliasOf(lambda P: P.flow_type)).items()],
             notes="caller view for the flow plumbing: the search object keeps the flow rate and the flow type it is given").applies = lambda env: "#flow-body" in env["__verifying__"]
    REG.contracts[f"{S_}:{_scls}.__init__#flow-view"].priority = 1

FIND_DESIGN_FLOW = []
for _cls, _scls in _SEARCH_CLS.items():
    _n = f"{D_}:{_cls}.find_design#flow-body"
    contract(f"{D_}:{_cls}.find_design",
             dict(self=ObjOf(f"{D_}:{_cls}", V_flow=Real, flow_type=Int, borehole=ObjOf("x"), bhe_type=Int, fluid=ObjOf("x"), pipe=ObjOf("x"), grout=ObjOf("x"), soil=ObjOf("x"),
                             sim_params=ObjOf("x"), hourly_extraction_ground_loads=OpaqueOf("list"), method=OpaqueOf("enum"), load_years=OpaqueOf("list"),
                             geometric_constraints=ObjOf("x"), coordinates_domain=OpaqueOf("domain"), coordinates_domain_nested=OpaqueOf("domain"), fieldDescriptors=OpaqueOf("list")),
                  disp=Const(False)),
             name=_n, raises={"Exception": None, "ValueError": None},
             ensures=[("search-uses-the-design's-flow-rate-and-flow-type", lambda E: And(E.result.V_flow == E.self.V_flow, E.result.flow_type == E.self.flow_type))],
             returns=ObjOf(f"{S_}:{_scls}")).applies = lambda env: False
    FIND_DESIGN_FLOW.append(_n)

# RowWiseModifiedBisectionSearch.__init__: stores the flow rate and the flow type before it searches (search() and initialize_ghe() abstract here: they do not write them)
_RWS = f"{S_}:RowWiseModifiedBisectionSearch"
contract(f"{_RWS}.search", dict(self=ObjOf(_RWS)), name=f"{_RWS}.search#flow-view", raises={"Exception": None, "ValueError": None},
         assigns=[((lambda P, k=k: (P.self, k)), sh) for k, sh in dict(ghe=OpaqueOf("ghe"), searchTracker=OpaqueOf("list"), advanced_tracking=OpaqueOf("list"), checkedFields=OpaqueOf("list")).items()],
         returns=TupleOf(OpaqueOf("field"), OpaqueOf("str")),
         notes="frame of the verified search() (rowsearch.py: self.ghe, searchTracker, advanced_tracking[], checkedFields[])").applies = lambda env: "#flow-body" in env["__verifying__"]
contract(f"{_RWS}.initialize_ghe", dict(self=ObjOf(_RWS), coordinates=OpaqueOf("field"), h=Real, field_specifier=OpaqueOf("str")), name=f"{_RWS}.initialize_ghe#flow-view",
         raises={"Exception": None, "ValueError": None}, assigns=[(lambda P: (P.self, "ghe"), OpaqueOf("ghe"))], returns=NoneT(),
         notes="frame of the verified initialize_ghe() (flow.py: self.ghe; the borehole height)").applies = lambda env: "#flow-body" in env["__verifying__"]
for _q in (f"{_RWS}.search#flow-view", f"{_RWS}.initialize_ghe#flow-view"):
    REG.contracts[_q].priority = 1
contract(f"{_RWS}.__init__",
         dict(self=ObjOf(_RWS), v_flow=Real, borehole=ObjOf("x"), bhe_type=Int, fluid=ObjOf("x"), pipe=ObjOf("x"), grout=ObjOf("x"), soil=ObjOf("x"),
              sim_params=ObjOf("sim", max_height=Real), hourly_extraction_ground_loads=OpaqueOf("list"), geometric_constraints=ObjOf("x"), method=OpaqueOf("enum"), flow_type=Int),
         name=f"{_RWS}.__init__#flow-body", raises={"Exception": None, "ValueError": None}, assigns=writes("self.*"),
         ensures=[("stores-flow-specification", lambda E: And(E.self.flow_type == E.flow_type, E.self.V_flow == E.v_flow))], returns=NoneT()).applies = lambda env: False
FIND_DESIGN_FLOW.append(f"{_RWS}.__init__#flow-body")

# ---- the borehole object: GHEBorehole.__init__ hands height, burial depth and radius, in this order, to pygfunction's Borehole ------------------------------
_BHQ = "ghedesigner.borehole:GHEBorehole"
contract("pygfunction.boreholes:Borehole.__init__", dict(self=ObjOf(_BHQ), H=Real, D=Real, r_b=Real, x=Real, y=Real, tilt=Real, orientation=Real),
         assigns=[((lambda P, k=k: (P.self, k)), AliasOf(lambda P, k=k: getattr(P, k))) for k in ("H", "D", "r_b", "x", "y")], returns=NoneT(),
         notes="ASSUMED (external, pygfunction 2.2 source): Borehole.__init__(H, D, r_b, x, y, tilt, orientation) stores its arguments under these names")
contract(f"{_BHQ}.__init__", dict(self=ObjOf(_BHQ), height=Real, buried_depth=Real, radius=Real, x=Real, y=Real), name=f"{_BHQ}.__init__#body",
         ensures=[("height-depth-radius-stored-under-H-D-r_b", lambda E: And(E.self.H == E.height, E.self.D == E.buried_depth, E.self.r_b == E.radius, E.self.x == E.x, E.self.y == E.y))],
         assigns=writes("self.*"), returns=NoneT()).applies = lambda env: False
contract(f"{_BHQ}.__init__", dict(self=ObjOf(_BHQ), height=Real, buried_depth=Real, radius=Real, x=Real, y=Real), name=f"{_BHQ}.__init__#caller",
         assigns=[((lambda P, k=k: (P.self, k)), AliasOf(lambda P, a=a: getattr(P, a))) for k, a in (("H", "height"), ("D", "buried_depth"), ("r_b", "radius"), ("x", "x"), ("y", "y"))],
         returns=NoneT(), notes="caller view of the verified body").applies = lambda env: True
_MGRQ = "ghedesigner.manager:GHEManager"
contract(f"{_MGRQ}.set_borehole", dict(self=ObjOf(_MGRQ, _borehole=NoneT()), height=Real, buried_depth=Real, diameter=Real), name=f"{_MGRQ}.set_borehole#body",
         ensures=[("borehole-from-height-depth-and-half-the-diameter", lambda E: And(E.self._borehole.H == E.height, E.self._borehole.D == E.buried_depth, E.self._borehole.r_b == E.diameter / 2, E.result == 0))],
         assigns=writes("self._borehole"), returns=Int).applies = lambda env: False
BOREHOLE = [f"{_BHQ}.__init__#body", f"{_MGRQ}.set_borehole#body"]
