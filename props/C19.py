"""C19 - output tables label time correctly and echo inputs and the selected field."""
from contracts import output, simulate  # noqa: F401

OM = "ghedesigner.output:OutputManager"
SIM = "ghedesigner.ground_heat_exchangers:GHE.simulate"
# the loads table echoes design.ghe.hourly_extraction_ground_loads: the frame obligations of the simulations (hourly, loads as list or as float array) say that nothing
# between the setter and the table modifies that series
FUNCTIONS = [f"{OM}.ghe_time_convert", f"{OM}.hours_to_month", f"{OM}.get_hourly_loading_data", f"{OM}.get_borehole_location_data",
             f"{SIM}#hourly-body-fresh", f"{SIM}#hourly-body-array-loads"]
NATIVE_FUNCTIONS = [f"{OM}.ghe_time_convert", f"{OM}.hours_to_month", f"{OM}.get_hourly_loading_data"]
LEVEL = "proof"


def lemmas():
    return output.LEMMAS


def bounded(run, tier, seed):
    """thorough: the exhaustive enumeration of the quantifier text (all 8760 hours) as a run-time check."""
    if tier != "thorough":
        return []
    import subprocess, sys, json, os
    code = ("import sys; sys.path.insert(0, %r); import datetime\n"
            "from ghedesigner.output import OutputManager as O\n"
            "bad=[h for h in range(8760) if tuple(O.ghe_time_convert(h)) != ((d:=datetime.datetime(2019,1,1)+datetime.timedelta(hours=h)).month, d.day, d.hour+1)]\n"
            "print(len(bad), bad[:3])") % os.environ.get("VERIF_REPO", "/repo")
    p = subprocess.run([sys.executable, "-c", code], capture_output=True, text=True, timeout=300)
    n_bad = int(p.stdout.split()[0]) if p.returncode == 0 else -1
    entry = {"name": "ghe_time_convert/all-8760-hours", "bounded": True, "bound": "all 8760 hours of the year (exhaustive)", "evaluations": 8760,
             "distinct": 8760, "failures": max(n_bad, 0), "failing": [], "faults": []}
    if n_bad > 0:
        entry["failing"] = [{"first_bad_hours": p.stdout.strip()}]
    if n_bad < 0:
        entry["faults"] = ["exhaustive hour enumeration crashed: " + p.stderr[-300:]]
    return [entry]


ASSUMPTIONS = [
    "A-REAL: machine floats treated as mathematical reals (hours_to_month: floor of hours/8760 is a discontinuity site)",
    "the simulate variants rest on the callee contracts of C09/C13 (_simulate_detailed verified there; to_single, calc_sts_g_functions, grab_g_function caller views)",
    "g-function table clause (rows equal the curve used in the simulation, strictly increasing axis) is carried by C11's contracts of grab_g_function/combine_sts_lts",
]
NOT_PROVED = ["get_g_function_data row equality is covered in C11's run (grab_g_function contract), not here"]
EXPLANATION = ("ghe_time_convert: full-domain symbolic hour, 12-iteration loop unrolled completely -> complete proof against the non-leap calendar table; "
               "hours_to_month: closed form for every real t >= 0, lemmas monotone + Lipschitz (continuity) + integer at month ends; "
               "row builders: loop invariants over symbolic-length inputs (rows[k+1] == [*convert(k), k, loads[k]]; bore rows == field in order); "
               "GHE.simulate (hourly; loads as list or float array): frame obligation - the stored load series that the table echoes is not modified by a simulation.")
LEVEL_TEXT = ("Deductive proof for all inputs: the hour->(month,day,hour) conversion equals the non-leap calendar for every hour 0..8759; the fractional-month "
              "conversion equals its closed form for every real elapsed time, from which monotonicity, continuity (Lipschitz bound) and integrality at month "
              "ends are proved as lemmas; the loads table and the bore-field table are proved, for input lists of any length, to echo their inputs in order with those labels.")
LEVEL_NOTE = ("Trusted: pyvc's encoding of the Python subset, floats as reals (A-REAL), z3. The g-function table clause rests on C11. "
              "Run-time contract checks (random; thorough: all 8760 hours) are bounded and not counted as proved.")
TECHNIQUE = "contract-based deductive verification: ast->VC generator (pyvc), complete unrolling of constant-trip loops, loop invariants, z3"
NATIVE_CASES = {"quick": 300, "thorough": 5000}
